"""C12 -- evaluation is schedule-independent and safe to run concurrently: frame obligations.

(a) the per-segment callback handed to the executor writes only cells owned by its index, writes no shared scalar, and reads
    no cell another index writes (index disjointness decided by CBMC over mathematical-size ints);
(b) the reductions over segments are outside the callback (they are the statements after the executor call);
(c) evaluate() writes nothing of the optimizer object except through ensureLayoutCache(), and that function is a critical
    section on a mutex member (the lazily built layout cache);
Together with the parallel-for rule (any schedule of callbacks with pairwise disjoint footprints computes, cell by cell, the
values of the serial schedule) these give schedule independence and race freedom for evaluations with separate workspaces."""
from common import *
from C16 import opt_cfg, SPLINES
import subprocess
import time
import ir
from expr import E, INT, REAL, BOOL, subst, free_vars, Printer

CONTRACT_MODULES = ['ppoly', 'splines', 'optimizer']
LEVEL = 'proof'
TRUSTED = ['parallel-for rule: callbacks with pairwise disjoint write sets that read nothing another callback writes commute (standard; not mechanised)',
           'std::mutex / std::lock_guard give mutual exclusion and happens-before (C++ memory model)',
           'user functors and maps are themselves thread-safe (const call operators without shared mutable state) -- their protocol']
ASSUMPTIONS = ['each concurrent evaluation has its own workspace and gradient vector (the property\'s premise); configuration calls are not concurrent with evaluations',
               'index arithmetic decided over 64-bit ints with N, K <= 2^22 (no overflow: see the int_range obligations of C08)']
UNDECIDED_CLAUSES = ['bit-identity is derived from footprint disjointness over the extracted IR; floating-point evaluation order inside one callback is the compiler\'s']
LAYOUT_MEMBERS = ('spatial_layout_', 'derivatives_offset_', 'total_dimension_', 'layout_dirty_')


def tasks(tier):
    return []


# ---------------------------------------------------------------------------------------------------- (a) callback footprint
def idx_nodes(e, acc):
    if not isinstance(e, E):
        return
    if e.op == 'idx':
        acc.append((e.args[0], e.args[1]))
        idx_nodes(e.args[1], acc)
    elif e.op not in ('var', 'const'):
        for a in e.args:
            idx_nodes(a, acc)


def callback_footprint(ex):
    """(writes, reads, shared_scalar_writes, problems, env): array accesses as (array, index E) with local int definitions"""
    writes, reads, shared_sc, problems = [], [], [], []
    ndefs, env = {}, {}
    local_s, local_a = ex.local_scalars, ex.local_arrays

    def rd(e):
        acc = []
        idx_nodes(e, acc)
        reads.extend(acc)

    def visit(stmts, in_loop):
        for s in stmts:
            if isinstance(s, ir.Assign):
                rd(s.e)
                if s.lv.index is None:
                    if s.lv.name not in local_s:
                        shared_sc.append(s.lv.name)
                    elif s.lv.ty == INT:
                        ndefs[s.lv.name] = ndefs.get(s.lv.name, 0) + (2 if in_loop else 1)
                        env[s.lv.name] = s.e
                else:
                    rd(s.lv.index)
                    if s.lv.name not in local_a:
                        writes.append((s.lv.name, s.lv.index))
            elif isinstance(s, ir.Havoc):
                for n, t in s.scalars:
                    if n not in local_s:
                        shared_sc.append(n)
                    else:
                        ndefs[n] = 2
                for n, t in s.arrays:
                    if n not in local_a:
                        problems.append('callback overwrites the whole shared array %s' % n)
            elif isinstance(s, ir.ArrCopy):
                if s.dst not in local_a:
                    problems.append('callback copies over the whole shared array %s' % s.dst)
            elif isinstance(s, ir.MapAssign):
                for a, t, off in s.cells:
                    if a not in local_a:
                        problems.append('callback bulk-assigns the shared array %s' % a)
            elif isinstance(s, ir.If):
                rd(s.c)
                visit(s.then, in_loop)
                visit(s.els, in_loop)
            elif isinstance(s, ir.Loop):
                rd(s.cond)
                ndefs[s.var] = 2
                visit(s.body, True)
                visit(s.step, True)
            elif isinstance(s, (ir.Assert, ir.Assume)):
                pass
            elif isinstance(s, ir.CallContract):
                problems.append('callback calls %s by contract (footprint unknown to this analysis)' % s.callee_key)
            elif isinstance(s, (ir.Ghost, ir.Label, ir.Goto, ir.Comment)):
                pass
            else:
                problems.append('no footprint rule for %s' % type(s).__name__)
    visit(ex.stmts, False)
    defs = {n: e for n, e in env.items() if ndefs.get(n) == 1}
    return writes, reads, shared_sc, problems, defs


def resolve_index(e, defs):
    for _ in range(20):
        fv = free_vars(e)
        m = {n: defs[n] for n in fv if n in defs}
        if not m:
            return e
        e = subst(e, m)
    return e


def footprint_obligations(spl, workdir):
    """one CBMC assertion per (write, access) pair of a shared array: different indices touch different cells"""
    from tr import Translator
    from check import all_contracts
    from optimizer import AbstractIntegralCost, ParallelForExecutor
    cfg = opt_cfg(spl, 2)
    ex = ParallelForExecutor()
    t = Translator({'contracts': all_contracts(), 'abstract_params': {'integral_cost': AbstractIntegralCost(), 'executor': ex}, 'i2r': True})

    class _T(object):
        pass
    task = _T()
    task.cfg = cfg
    this = optimizer_default_maps(t, None, task)
    t.translate_method('SplineOptimizer', cfg, 'calculateIntegralCost', None, this=this)
    writes, reads, shared_sc, problems, defs = callback_footprint(ex)
    tag = spl.replace('SplineND', '')
    out = []
    base = 'C12/SplineOptimizer.calculateIntegralCost/callback'
    for n in sorted(set(shared_sc)):
        out.append({'oid': '%s.writes_no_shared_scalar.%s[%s]' % (base, n, tag), 'status': 'violation',
                    'detail': 'the per-segment callback assigns the captured scalar %s, which every invocation shares' % n})
    if not shared_sc:
        out.append({'oid': '%s.writes_no_shared_scalar[%s]' % (base, tag), 'status': 'ok', 'detail': ''})
    for pb in problems:
        out.append({'oid': '%s.footprint[%s]' % (base, tag), 'status': 'violation', 'detail': pb})
    written = sorted(set(a for a, _ in writes))
    pairs = []
    for arr in written:
        ws_ = []
        for a, i in writes:
            if a == arr:
                r = resolve_index(i, defs)
                if not any(str(Printer('real').p(r)) == str(Printer('real').p(x)) for x in ws_):
                    ws_.append(r)
        acc = list(ws_)
        for a, i in reads:
            if a == arr:
                r = resolve_index(i, defs)
                if not any(str(Printer('real').p(r)) == str(Printer('real').p(x)) for x in acc):
                    acc.append(r)
        for wi, w in enumerate(ws_):
            for ai, a in enumerate(acc):
                pairs.append((arr, wi, ai, w, a))
    # C text: side A / side B renaming of everything that is local to an invocation (index, loop variables, multiply-defined ints)
    idxname = ex.index.name
    P = Printer('real')
    names = set()
    for _, _, _, w, a in pairs:
        names |= {n for n in free_vars(w) | free_vars(a) if not n.startswith('@')}
    per_inv = {n for n in names if n == idxname or n in ex.local_scalars}
    lines = ['/* generated: footprint disjointness of the per-segment callback, %s */' % spl]
    decl = set()
    for n in sorted(names):
        if n in per_inv:
            decl |= {n + '_A', n + '_B'}
        else:
            decl.add(n)
    lines += ['long %s;' % d for d in sorted(decl)]
    arrs = set()
    for _, _, _, w, a in pairs:
        arrs |= {n[1:] for n in free_vars(w) | free_vars(a) if n.startswith('@')}
    if arrs:
        for _, _, _, w, a in pairs:
            pass
        return out + [{'oid': '%s.footprint[%s]' % (base, tag), 'status': 'undecided', 'detail': 'index expressions read arrays: %s' % sorted(arrs)}]
    lines.append('int main(void) {')
    lines.append('  __CPROVER_assume(num_segments_ >= 0 && num_segments_ <= (1L << 22));')
    lines.append('  __CPROVER_assume(%s_A >= 0 && %s_A < num_segments_ && %s_B >= 0 && %s_B < num_segments_ && %s_A != %s_B);' % ((idxname,) * 6))
    side = lambda e, s: subst(e, {n: E.var(n + s, INT) for n in per_inv})
    oids = []
    for arr, wi, ai, w, a in pairs:
        oid = '%s.disjoint.%s.w%d_vs_%d[%s]' % (base, arr, wi, ai, tag)
        oids.append((oid, 'write %s[%s] by one index vs access %s[%s] by another' % (arr, P.p(w), arr, P.p(a))))
        lines.append('  __CPROVER_assert((%s) != (%s), "%s");' % (P.p(side(w, '_A')), P.p(side(a, '_B')), oid))
    lines.append('  return 0;\n}')
    if 'num_segments_' not in decl:
        lines.insert(1, 'long num_segments_;')
    cfile = os.path.join(workdir, 'C12_footprint_%s.c' % tag)
    with open(cfile, 'w') as f:
        f.write('\n'.join(lines) + '\n')
    t0 = time.time()
    try:
        pr = subprocess.run(['cbmc', cfile, '--no-standard-checks', '--trace'], stdout=subprocess.PIPE, stderr=subprocess.STDOUT, universal_newlines=True, timeout=300)
        txt = pr.stdout
    except subprocess.TimeoutExpired:
        txt = 'TIMEOUT'
    secs = time.time() - t0
    for k, (oid, what) in enumerate(oids):
        m = re.search(r'\[main\.assertion\.%d\][^\n]*: (SUCCESS|FAILURE)' % (k + 1), txt)
        if m is None:
            out.append({'oid': oid, 'status': 'undecided', 'detail': 'no verdict from cbmc (%s)' % txt[-300:].replace('\n', ' ')})
        elif m.group(1) == 'SUCCESS':
            out.append({'oid': oid, 'status': 'ok', 'detail': what, 'seconds': secs / max(1, len(oids))})
        else:
            out.append({'oid': oid, 'status': 'violation', 'detail': what + '; cbmc trace tail: ' + txt[-1500:]})
    if not written:
        out.append({'oid': '%s.footprint[%s]' % (base, tag), 'status': 'undecided', 'detail': 'the callback writes no shared array at all: extraction suspicious'})
    return out


# ---------------------------------------------------------------------------------------------------- (c) evaluate's footprint
def optimizer_member_writes(spl):
    """members of the optimizer object that evaluate() may assign: syntactic write set of the extracted IR, with callee
    contracts contributing their declared (and separately checked) assigns clauses"""
    from tr import Translator
    from check import all_contracts
    from gen import Generator
    import C08
    cfg = opt_cfg(spl, 2)
    contracts = all_contracts()
    opts = dict(C08.eval_options())
    opts['contracts'] = contracts
    t = Translator(opts)
    t.pins = {'p_ws_null': False}

    class _T(object):
        pass
    task = _T()
    task.cfg = cfg
    this = optimizer_abstract_maps(t, None, task)
    fn = t.translate_method('SplineOptimizer', cfg, 'evaluate', 7, this=this)
    contract = contracts.get(fn.key).select(fn.node, 7)
    g = Generator(fn, contract, contracts, 'C12', spl, {})
    own = {}
    for fname, v in this.fields.items():
        try:
            sc, ar = v.storage()
        except Exception:
            continue
        for n, _ in list(sc) + list(ar):
            own[n] = fname
    direct, via = set(), {}
    sc, ar = ir.write_set(fn.body)
    for n in list(sc) + list(ar):
        if n in own:
            direct.add(own[n])

    def f(s):
        if isinstance(s, ir.CallContract):
            fs, fa = g.call_frame(s)
            names = {own[n] for n in list(fs) + list(fa) if n in own}
            if names:
                via.setdefault(s.callee_key, set()).update(names)
    ir.walk(fn.body, f)
    # reads of the layout cache must come after the critical section that (re)builds it
    lay_names = {n for n, m in own.items() if m in LAYOUT_MEMBERS}
    early = []
    for st in fn.body:
        if isinstance(st, ir.CallContract) and st.callee_key == 'SplineOptimizer.ensureLayoutCache':
            break
        acc = set()

        def g2(x):
            for attr in ('e', 'c', 'cond'):
                ex_ = getattr(x, attr, None)
                if isinstance(ex_, E):
                    acc.update(n.lstrip('@') for n in free_vars(ex_))
        ir.walk([st], g2)
        early += sorted(acc & lay_names)
    else:
        early.append('(evaluate never calls ensureLayoutCache)')
    return sorted(direct), {k: sorted(v) for k, v in via.items()}, early


def ast_facts():
    """ensureLayoutCache() is a critical section; rebuildLayoutCache() is called from nowhere else; the mutex is a mutable member"""
    cls = cxxast.get_class('SplineOptimizer')
    out = []
    m = cls.method('ensureLayoutCache', 0)
    body = cxxast.body_of(m)
    stmts = [c for c in body.get('inner', [])]
    first = cxxast.src_text(stmts[0]) if stmts else ''
    mm = re.search(r'std::(lock_guard|unique_lock|scoped_lock)\s*<[^>]*>\s*\w+\s*[({]\s*(\w+)\s*[)}]', first or '')
    mutex = mm.group(2) if mm else None
    is_member = mutex is not None and any(fn == mutex and 'mutex' in ft for fn, ft, _ in cls.fields)
    out.append({'oid': 'C12/SplineOptimizer.ensureLayoutCache/critical_section', 'status': 'ok' if is_member else 'violation',
                'detail': '' if is_member else 'the lazily built layout cache is filled from const member functions without mutual exclusion: the first statement of '
                'ensureLayoutCache() is `%s`, not a scoped lock on a mutex member; concurrent first evaluations race on spatial_layout_, derivatives_offset_, '
                'total_dimension_ and layout_dirty_' % (first or '').strip()[:80]})
    callers = []
    for name, nodes in cls.methods.items():
        for n in nodes:
            txt = cxxast.src_text(n) or ''
            bd = cxxast.body_of(n)
            btxt = cxxast.src_text(bd) if bd is not None else ''
            if name != 'rebuildLayoutCache' and re.search(r'\brebuildLayoutCache\s*\(', btxt or ''):
                callers.append(name)
    okc = sorted(set(callers)) == ['ensureLayoutCache']
    out.append({'oid': 'C12/SplineOptimizer.rebuildLayoutCache/only_called_from_ensureLayoutCache', 'status': 'ok' if okc else 'violation',
                'detail': '' if okc else 'callers: %s' % sorted(set(callers))})
    return out


def evaluate_frame():
    out = []
    for spl in SPLINES:
        tag = spl.replace('SplineND', '')
        direct, via, early = optimizer_member_writes(spl)
        base = 'C12/SplineOptimizer.evaluate/frame'
        out.append({'oid': '%s.layout_reads_follow_the_critical_section[%s]' % (base, tag), 'status': 'violation' if early else 'ok',
                    'detail': ('layout cache read before ensureLayoutCache(): %s' % early) if early else ''})
        if direct:
            for n in direct:
                out.append({'oid': '%s.writes.%s[%s]' % (base, n, tag), 'status': 'violation', 'detail': 'evaluate() assigns the optimizer member %s directly' % n})
        else:
            out.append({'oid': '%s.no_direct_member_writes[%s]' % (base, tag), 'status': 'ok', 'detail': ''})
        for key, names in sorted(via.items()):
            extra = [n for n in names if not (key == 'SplineOptimizer.ensureLayoutCache' and n in LAYOUT_MEMBERS)]
            if extra:
                for n in extra:
                    out.append({'oid': '%s.writes.%s.via.%s[%s]' % (base, n, key, tag), 'status': 'violation',
                                'detail': 'evaluate() assigns the optimizer member %s through %s' % (n, key)})
            else:
                out.append({'oid': '%s.member_writes_only_in_layout_critical_section.via.%s[%s]' % (base, key, tag), 'status': 'ok', 'detail': ', '.join(names)})
    return out


def extra_checks(tier, workdir):
    res = []
    for spl in SPLINES:
        res += footprint_obligations(spl, workdir)
    res += evaluate_frame()
    res += ast_facts()
    native = {}
    if any(r['status'] == 'violation' for r in res):
        native = native_replay(workdir, need_race=any(r['status'] == 'violation' and ('critical_section' in r['oid'] or '/frame' in r['oid'] or 'rebuildLayoutCache' in r['oid']) for r in res),
                               need_schedule=any(r['status'] == 'violation' and '/callback' in r['oid'] for r in res))
    out = []
    for r in res:
        st = r['status']
        kind = 'schedule' if '/callback' in r['oid'] else 'race'
        nf, nd = native.get(kind, (False, ''))
        out.append({'found': bool(nf) if st == 'violation' else False, 'native_detail': nd if st == 'violation' else '','name': r['oid'], 'oid': r['oid'], 'obligations': 1, 'discharged': 1 if st == 'ok' else 0,
                    'status': {'ok': 'ok', 'violation': 'violation', 'undecided': 'undecided'}[st], 'detail': r.get('detail', ''),
                    'back_end': 'cbmc (SAT, 64-bit ints)' if '.disjoint.' in r['oid'] else 'generator (write sets of the extracted IR, AST facts)',
                    'replay': '', 'seconds': r.get('seconds', 0.0)})
    return out


def native_replay(workdir, need_race, need_schedule):
    """run the real code: permuted/threaded executors vs serial (bitwise), and concurrent first evaluations under ThreadSanitizer"""
    res = {}
    src = os.path.join(ROOT, 'native', 'replay_c12.cpp')
    inc = ['-I/usr/include/eigen3', '-I' + os.path.join(cxxast.REPO, 'include')]
    if need_schedule:
        exe = os.path.join(workdir, 'replay_c12')
        b = subprocess.run(['g++', '-std=c++17', '-O1', '-pthread'] + inc + [src, '-o', exe], stdout=subprocess.PIPE, stderr=subprocess.STDOUT, universal_newlines=True)
        if b.returncode != 0:
            res['schedule'] = (False, 'native replay did not build: ' + b.stdout[-500:])
        else:
            r = subprocess.run([exe, 'schedule'], stdout=subprocess.PIPE, stderr=subprocess.STDOUT, universal_newlines=True, timeout=600)
            res['schedule'] = (r.returncode == 1, r.stdout[-3000:])
    if need_race:
        exe = os.path.join(workdir, 'replay_c12_tsan')
        b = subprocess.run(['clang++', '-std=c++17', '-O1', '-g', '-fsanitize=thread', '-pthread'] + inc + [src, '-o', exe], stdout=subprocess.PIPE, stderr=subprocess.STDOUT, universal_newlines=True)
        if b.returncode != 0:
            res['race'] = (False, 'native replay did not build: ' + b.stdout[-500:])
        else:
            env = dict(os.environ)
            env['TSAN_OPTIONS'] = 'exitcode=66 halt_on_error=0'
            r = subprocess.run([exe, 'race'], stdout=subprocess.PIPE, stderr=subprocess.STDOUT, universal_newlines=True, timeout=600, env=env)
            hit = 'ThreadSanitizer: data race' in r.stdout
            keep = [l for l in r.stdout.split('\n') if 'WARNING' in l or 'SplineOptimizer.hpp' in l or 'replay_c12' in l]
            res['race'] = (hit or r.returncode == 1, 'two threads, one freshly configured optimizer, own workspaces (replay_c12 race, ThreadSanitizer):\n' + '\n'.join(keep[:12])[:3000])
    return res


def replay(result, workdir, seed):
    return False, 'see native/replay_c12.cpp'


def replay_file(path):
    return generic_replay_file(path)
