"""C06 -- analytic energy gradients equal the true derivatives of the reported energy."""
from common import *

CONTRACT_MODULES = ['ppoly', 'splines', 'adjoint']
LEVEL = 'proof'
TRUSTED = ['forward-mode differentiation rules (+, -, *, constants) applied to the spec energy integral and the spec Hermite pieces',
           'adjoint-state theorem with zero multipliers (envelope theorem): when the right-hand side of the adjoint system vanishes, the total derivative is the direct part']
ASSUMPTIONS = ['positive durations', 'a built spline: every clause of the preconditions of the analytic-gradient functions is, text for text, a postcondition of update() (meta-check precondition_established_by_update)']
UNDECIDED_CLAUSES = ['getEnergyGrad() only assembles the three proved parts (frame/shape contract)']
CLASSES = ['CubicSplineND', 'QuinticSplineND', 'SepticSplineND']


def tasks(tier):
    T = []
    for cls in CLASSES:
        for D in ([1, 2] if tier == 'quick' else [1, 2, 3, 4]):
            cfg = {'DIM': D}
            T.append(Task(cls, 'getEnergyPartialGradByCoeffs', 1, cfg))
            T.append(Task(cls, 'getEnergyPartialGradByTimes', 1, cfg))
            if True:
                T.append(Task(cls, 'getEnergyGradTimes', 0, cfg))
                for d in range(D):
                    T.append(Task(cls, 'getEnergyGradInnerPoints', 0, cfg, label='DIM=%d,coord=%d' % (D, d), gen_options={'focus': d}))
                    T.append(Task(cls, 'getEnergyGradBoundary', 0, cfg, label='DIM=%d,coord=%d' % (D, d), gen_options={'focus': d},
                                  pins={'trajectory___num_coeffs_': {'CubicSplineND': 4, 'QuinticSplineND': 6, 'SepticSplineND': 8}[cls]}))
    return T


def extra_checks(tier, workdir):
    jobs = []
    for cls in CLASSES:
        for m in ('getEnergyGradTimes', 'getEnergyGradInnerPoints', 'getEnergyGradBoundary'):
            pins = {'trajectory___num_coeffs_': {'CubicSplineND': 4, 'QuinticSplineND': 6, 'SepticSplineND': 8}[cls]} if m == 'getEnergyGradBoundary' else {}
            jobs.append(('common', 'precondition_chain', ('C06', cls, m, 0, 2, None if m == 'getEnergyGradTimes' else 0, pins)))
    res = run_meta_jobs(jobs, workers=9)
    return [{'name': r['oid'], 'oid': r['oid'], 'obligations': 1, 'discharged': 1 if r['status'] == 'ok' else 0, 'status': r['status'], 'detail': r.get('detail', ''),
             'back_end': 'generator (clause texts of the verified contract instances)', 'replay': '', 'found': False} for r in res]


def replay(result, workdir, seed):
    return spline_replay('C06', result, workdir, seed)


def replay_file(path):
    return generic_replay_file(path)
