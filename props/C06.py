"""C06 -- analytic energy gradients equal the true derivatives of the reported energy."""
from common import *

CONTRACT_MODULES = ['ppoly', 'splines']
LEVEL = 'proof'
TRUSTED = ['forward-mode differentiation rules (+, -, *, constants) applied to the spec energy integral']
ASSUMPTIONS = ['positive durations']
UNDECIDED_CLAUSES = []
CLASSES = ['CubicSplineND', 'QuinticSplineND', 'SepticSplineND']


def tasks(tier):
    T = []
    for cls in CLASSES:
        for D in ([1, 2] if tier == 'quick' else [1, 2, 3, 4]):
            cfg = {'DIM': D}
            T.append(Task(cls, 'getEnergyPartialGradByCoeffs', 1, cfg))
            T.append(Task(cls, 'getEnergyPartialGradByTimes', 1, cfg))
    return T


def replay(result, workdir, seed):
    return False, 'native replay for the spline family not built yet'


def replay_file(path):
    return generic_replay_file(path)
