"""C14 -- behaviour under time shift, translation, scaling (of data and of durations).

The coefficients are characterised (C01/C02: proved of the code) by the first-principles Hermite closure of every segment and
the vanishing jumps of the derivatives of order s..2s-2 at interior knots; the energy is the spec integral (C04).  The
transformation laws of the property are symmetries of exactly these spec-side equations; they are proved here as array-free
lemmas over the reals for s = 2, 3, 4, and carry over to the code's output by uniqueness of the solution (T1, cited):
   translation   P -> P + v           :  c_0 -> c_0 + v, other coefficients, jumps and energy unchanged
   scaling       (P, X) -> lam (P, X) :  coefficients and jumps scale by lam, energy by lam^2
   durations     h -> alpha h, X_k -> X_k / alpha^k :  c_m -> c_m / alpha^m, jump_k -> jump_k / alpha^k, energy -> energy / alpha^(2s-1)
   start time    only the knot-time clauses of update()'s contract mention it (read back from the verified contract)"""
from common import *
from check import ScriptTask
from expr import E, REAL, esum
from fractions import Fraction
from speclib import hermite_coeffs, left_end_derivative, right_end_derivative, seg_energy, power

CONTRACT_MODULES = ['ppoly', 'splines']
LEVEL = 'proof'
TRUSTED = ['uniqueness of the solution of the defining equations (T1): a symmetry of the equations is a symmetry of the solution',
           'C01/C02/C04: the code\'s coefficients satisfy these equations and the reported energy is this integral']
ASSUMPTIONS = ['statements over the reals; durations and scale factors non-zero']
UNDECIDED_CLAUSES = ['time reversal (reversed waypoints/durations, odd boundary derivatives negated) is not decided',
                     'gradients under the transformations follow by differentiating the proved relations (not restated)',
                     'exactness for power-of-two factors in floating point is a rounding statement']


class Rows(object):
    """a coefficient table given by a python list (one coordinate): at(row, d)"""

    def __init__(self, cs):
        self.cs = cs

    def at(self, r, d):
        r = E.const(r)
        return self.cs[int(r.cval())]


def data(sc, s, tag):
    return ([sc.real('%sP0_' % tag)] + [sc.real('%sX0_' % tag) for _ in range(s - 1)], [sc.real('%sP1_' % tag)] + [sc.real('%sX1_' % tag) for _ in range(s - 1)])


def ivp(iv):
    return lambda p: power(iv, p)


def jumps(s, ivL, ivR, XL0, XL1, XR0, XR1):
    return [left_end_derivative(s, k, ivp(ivR), XR0, XR1) - right_end_derivative(s, k, ivp(ivL), XL0, XL1) for k in range(s, 2 * s - 1)]


def make(s):
    nc = 2 * s

    def translation(sc):
        X0, X1 = data(sc, s, 'a')
        Y0, Y1 = data(sc, s, 'b')
        iv, iv2, v, T = sc.real('iv'), sc.real('ivr'), sc.real('v'), sc.real('T')
        c = hermite_coeffs(s, ivp(iv), X0, X1)
        ct = hermite_coeffs(s, ivp(iv), [X0[0] + v] + X0[1:], [X1[0] + v] + X1[1:])
        for m in range(nc):
            sc.check('coefficient_%d' % m, ct[m].eq(c[m] + (v if m == 0 else 0)))
        # two adjacent segments sharing the knot value X1[0] == Y0[0]
        j = jumps(s, iv, iv2, X0, X1, [X1[0]] + Y0[1:], Y1)
        jt = jumps(s, iv, iv2, [X0[0] + v] + X0[1:], [X1[0] + v] + X1[1:], [X1[0] + v] + Y0[1:], [Y1[0] + v] + Y1[1:])
        for k, (a, b) in enumerate(zip(j, jt)):
            sc.check('jump_%d' % (s + k), a.eq(b))
        cs = [sc.real('c') for _ in range(nc)]
        sc.check('energy', seg_energy(Rows(cs), nc, 0, s, T, 0).eq(seg_energy(Rows([cs[0] + v] + cs[1:]), nc, 0, s, T, 0)))

    def scaling(sc):
        X0, X1 = data(sc, s, 'a')
        Y0, Y1 = data(sc, s, 'b')
        iv, iv2, lam, T = sc.real('iv'), sc.real('ivr'), sc.real('lam'), sc.real('T')
        sca = lambda xs: [lam * x for x in xs]
        c = hermite_coeffs(s, ivp(iv), X0, X1)
        ct = hermite_coeffs(s, ivp(iv), sca(X0), sca(X1))
        for m in range(nc):
            sc.check('coefficient_%d' % m, ct[m].eq(lam * c[m]))
        j = jumps(s, iv, iv2, X0, X1, [X1[0]] + Y0[1:], Y1)
        jt = jumps(s, iv, iv2, sca(X0), sca(X1), sca([X1[0]] + Y0[1:]), sca(Y1))
        for k, (a, b) in enumerate(zip(j, jt)):
            sc.check('jump_%d' % (s + k), b.eq(lam * a))
        cs = [sc.real('c') for _ in range(nc)]
        sc.check('energy', seg_energy(Rows(sca(cs)), nc, 0, s, T, 0).eq(lam * lam * seg_energy(Rows(cs), nc, 0, s, T, 0)))

    def durations(sc):
        X0, X1 = data(sc, s, 'a')
        Y0, Y1 = data(sc, s, 'b')
        iv, iv2, al, be, T = sc.real('iv'), sc.real('ivr'), sc.real('alpha'), sc.real('beta'), sc.real('T')
        sc.assume((al * be).eq(1), 'beta = 1/alpha')
        resc = lambda xs: [power(be, k) * x for k, x in enumerate(xs)]
        c = hermite_coeffs(s, ivp(iv), X0, X1)
        ct = hermite_coeffs(s, ivp(be * iv), resc(X0), resc(X1))
        for m in range(nc):
            sc.check('coefficient_%d' % m, ct[m].eq(power(be, m) * c[m]))
        j = jumps(s, iv, iv2, X0, X1, [X1[0]] + Y0[1:], Y1)
        jt = jumps(s, be * iv, be * iv2, resc(X0), resc(X1), resc([X1[0]] + Y0[1:]), resc(Y1))
        for k, (a, b) in enumerate(zip(j, jt)):
            sc.check('jump_%d' % (s + k), b.eq(power(be, s + k) * a))
        cs = [sc.real('c') for _ in range(nc)]
        sc.check('energy', seg_energy(Rows([power(be, m) * x for m, x in enumerate(cs)]), nc, 0, s, al * T, 0).eq(power(be, 2 * s - 1) * seg_energy(Rows(cs), nc, 0, s, T, 0)))
    return [ScriptTask('translation_s%d' % s, translation), ScriptTask('scaling_s%d' % s, scaling), ScriptTask('duration_scaling_s%d' % s, durations)]


def tasks(tier):
    T = []
    for s in (2, 3, 4):
        T += make(s)
    # the first-block / last-block special cases of the block solvers (the asymmetry the property worries about): the
    # per-iteration lemmas and the optimality postcondition of solveInternalDerivatives, re-run from the C02 contract
    for cls in ('QuinticSplineND', 'SepticSplineND'):
        for D in ([1] if tier == 'quick' else [1, 2]):
            t = Task(cls, 'solveInternalDerivatives', None, {'DIM': D}, gen_options={'focus': 0}, label='DIM=%d,coord=0' % D)
            t.obligation_filter = r'/local\.|/abstract\.|post\.optimality|lemma\.kkt'
            T.append(t)
    return T


def start_time_check(cls):
    rows, assigned, h = contract_view('C14', Task(cls, 'update', 4, {'DIM': 2}, label='meta', gen_options={'focus': 0}))
    bad = []
    n = 0
    for kind, label, txt, fv in rows:
        if kind != 'ensures':
            continue
        names = {x.lstrip('@') for x in fv}
        if 'p_start_time' in names or 'start_time_' in names:
            n += 1
            if not (label.startswith('stores_start_time') or 'knot_times' in label or 'breakpoints' in label):
                bad.append(label)
    return [{'oid': 'C14/%s.update/start_time_enters_only_the_knot_times' % cls, 'status': 'violation' if bad else ('ok' if n else 'undecided'),
             'detail': ('clauses mentioning the start time: %s' % bad) if bad else '%d knot-time clauses mention the start time; no coefficient clause does' % n}]


def extra_checks(tier, workdir):
    res = run_meta_jobs([('C14', 'start_time_check', (cls,)) for cls in ('CubicSplineND', 'QuinticSplineND', 'SepticSplineND')])
    return [{'name': r['oid'], 'oid': r['oid'], 'obligations': 1, 'discharged': 1 if r['status'] == 'ok' else 0, 'status': r['status'], 'detail': r.get('detail', ''),
             'back_end': 'generator (free storage names of the verified contract instance)', 'replay': '', 'found': False} for r in res]


def replay(result, workdir, seed):
    return spline_replay('C14', result, workdir, seed)


def replay_file(path):
    return generic_replay_file(path)
