"""C07 -- the gradient written by evaluate is the gradient of the cost it returns (chain-rule structure under contract)."""
from common import *
from C16 import opt_cfg, SPLINES
import C08

CONTRACT_MODULES = ['ppoly', 'splines', 'optimizer']
LEVEL = 'proof'
TRUSTED = ['chain rule: cost = TC(T(x)) + WC(W(x)) + Q(C(theta(x)), T(x)) + rho E(C(theta(x)), T(x)); the contracts state, piece by piece, that evaluate '
           'combines exactly the factors of this composition (not mechanised as one theorem)',
           'protocol of user functors: the gradient outputs are the partial derivatives of the value they return with respect to the arguments they '
           'receive (explicit time dependence through global time); protocol of user maps: backward/backwardGrad are the transpose-Jacobian products of toTime/toPhysical',
           'C05 (propagateGrad is the adjoint of the construction map), C06 (analytic energy gradient), C17 (bundled time maps)']
ASSUMPTIONS = ['N <= 2^22, 1 <= K <= 2^22; caller-supplied workspace; three-cost overload']
UNDECIDED_CLAUSES = ['destination offsets of the spatial write-back are covered by the layout contract (C09) and the bounds obligations only: that block k of the decision '
                     'vector receives exactly backwardGrad of point k is proved for the arguments handed to the map, not restated cell by cell for the result',
                     ]


def tasks(tier):
    T = []
    for spl in (SPLINES[1:2] if tier == 'quick' else SPLINES):
        for D in ([2] if tier == 'quick' else [1, 2, 3]):
            cfg = opt_cfg(spl, D)
            base = '%s,DIM=%d' % (spl.replace('SplineND', ''), D)
            T.append(Task('SplineOptimizer', 'calculateIntegralCost', None, cfg, label=base, setup=optimizer_default_maps, options=C08.quad_options()))
            t = Task('SplineOptimizer', 'evaluate', 7, cfg, label=base + ',own workspace', setup=optimizer_user_maps, options=C08.eval_options(),
                     pins={'p_ws_null': False})
            if tier == 'quick':
                # quick tier: the gradient-side obligations of evaluate (assembly, write-back, what the maps are handed); its value-side and
                # decode obligations are C08's; the thorough tier discharges the whole harness for every order
                t.obligation_filter = r'gradient|backward|loop2|loop3|spatial_|boundary_block|duration_variables|propagat|/call\(.*(propagateGrad|getEnergyGrad)'
            T.append(t)
    return T


def replay(result, workdir, seed):
    return optimizer_replay('C07', result, workdir, seed)


def replay_file(path):
    return generic_replay_file(path)
