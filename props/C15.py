"""C15 -- copies of optimizers are independent deep copies (pointer re-binding, owned workspace)."""
from common import *
from C16 import opt_cfg, SPLINES

CONTRACT_MODULES = ['ppoly', 'splines', 'optimizer']
LEVEL = 'proof'
TRUSTED = ['pointer model of the extraction: a pointer is (null flag, identity tag); the default maps of the two optimizers, the two built-in '
           'workspaces and user maps have pairwise distinct identities (user maps cannot alias default maps: those are private members without accessors)',
           'std::unique_ptr: the old allocation is released on assignment/reset (ownership, not modelled beyond the identity tag)']
ASSUMPTIONS = ['copies of spline objects use implicitly defined member-wise copy operations over value members only (AST facts checked by C11)',
               'members held in per-order caches (vector of matrices) are copied by whole-array copy; their element-wise equality is not restated']
UNDECIDED_CLAUSES = ['behaviour after the source is destroyed follows from the postcondition (no pointer of the copy designates storage owned by the source); destruction itself is not executed']


def c15_setup(same):
    def setup(t, this, task):
        from ctypes_ import TD
        from optimizer import TAG_THIS_TIME, TAG_THIS_SPATIAL, TAG_OTHER_TIME, TAG_OTHER_SPATIAL, TAG_THIS_WS, TAG_OTHER_WS
        this = t.make_obj(TD('obj', cls='SplineOptimizer', cfg=task.cfg), '')
        this.fields['default_time_map_'].identity_tag = TAG_THIS_TIME
        this.fields['default_spatial_map_'].identity_tag = TAG_THIS_SPATIAL
        objs = [(this, 'ws__', TAG_THIS_WS)]
        if same:
            other = this
        else:
            other = t.make_obj(TD('obj', cls='SplineOptimizer', cfg=task.cfg), 'p_other__')
            other.fields['default_time_map_'].identity_tag = TAG_OTHER_TIME
            other.fields['default_spatial_map_'].identity_tag = TAG_OTHER_SPATIAL
            objs.append((other, 'ows__', TAG_OTHER_WS))
        for o, pre, tg in objs:
            ws = t.make_obj(TD('obj', cls='SplineOptimizer::Workspace', cfg=task.cfg), pre)
            o.fields['internal_ws_'].target = ws
            o.fields['internal_ws_'].owned_tag = tg
        t.opt['abstract_params'] = {'other': other}
        return this
    return setup


def tasks(tier):
    T = []
    for spl in (SPLINES[:1] if tier == 'quick' else SPLINES):
        for D in ([2] if tier == 'quick' else [1, 3]):
            cfg = opt_cfg(spl, D)
            base = '%s,DIM=%d' % (spl.replace('SplineND', ''), D)
            T.append(Task('SplineOptimizer', None, 1, cfg, label=base + ',copy construction', ctor=True, setup=c15_setup(False)))
            T.append(Task('SplineOptimizer', 'operator=', 1, cfg, label=base + ',assignment from another optimizer', setup=c15_setup(False)))
            T.append(Task('SplineOptimizer', 'operator=', 1, cfg, label=base + ',self-assignment', setup=c15_setup(True)))
    return T


def replay(result, workdir, seed):
    return optimizer_replay('C15', result, workdir, seed)


def replay_file(path):
    return generic_replay_file(path)
