"""C20 -- sampling, arc-length and factory helpers honour their contracts."""
from common import *

CONTRACT_MODULES = ['ppoly']
LEVEL = 'proof'
TRUSTED = ['int -> double conversion is exact and strictly monotone for 32-bit ints (axioms i2r_*); std::floor followed by conversion to int gives k with k <= x < k+1']
ASSUMPTIONS = ['dt > 0, end >= start, (end-start)/dt < 2^24 (the conversion of floor() to int is undefined beyond int range)']
UNDECIDED_CLAUSES = ['value of the left-endpoint Riemann sum in getTrajectoryLength: the three-argument form is under contract for its frame, the call preconditions of every sample and non-negativity of every partial sum, but the sum itself is not stated (its summand reads the local time sequence; the requires-side prefix-sum definitions cannot mention a local)',
                     'arc-length error bound (step times integral of the acceleration norm) and convergence: real analysis, not an algebraic identity',
                     'behaviour of floor(duration/dt) under floating-point rounding when dt nearly divides the interval']
OPT = {'i2r': True}


def tasks(tier):
    T = []
    cfgs = [{'DIM': 2, 'ORDER': None}] if tier == 'quick' else [{'DIM': 1, 'ORDER': None}, {'DIM': 2, 'ORDER': None}, {'DIM': 3, 'ORDER': 6}]
    for cfg in cfgs:
        base = Task('a', 'b', cfg=cfg).label
        T.append(Task('PPolyND', 'generateTimeSequence', 3, cfg, options=OPT, label=base + ',interval'))
        T.append(Task('PPolyND', 'generateTimeSequence', 1, cfg, options=OPT, label=base + ',whole'))
        for nc in (4,) if tier == 'quick' else (2, 4, 6):
            T.append(Task('PPolyND', 'getTrajectoryLength', 3, cfg, options=OPT, pins={'num_coeffs_': nc}, label=Task('a', 'b', cfg=cfg, pins={'num_coeffs_': nc}).label + ',length'))
            T.append(Task('PPolyND', 'getTrajectoryLength', 1, cfg, options=OPT, pins={'num_coeffs_': nc}, label=Task('a', 'b', cfg=cfg, pins={'num_coeffs_': nc}).label + ',length_whole'))
        for ncf in (1, 3):
            T.append(Task('PPolyND', 'zero', 2, cfg, pins={'p_num_coefficients': ncf}))
        T.append(Task('PPolyND', 'constant', 2, cfg))
        for nc, k in ((3, 1), (4, 0)) if tier == 'quick' else ((1, 0), (3, 1), (4, 0), (4, 3), (6, 1)):
            pk = {'num_coeffs_': nc, 'p_derivative_order': k}
            T.append(Task('PPolyND', 'evaluate', cfg=cfg, pins=pk, pred=sig_pred(('vector', 'int')), label=Task('a', 'b', cfg=cfg, pins=pk).label + ',batch'))
    return T


def replay(result, workdir, seed):
    return ppoly_replay('C20', result, workdir, seed)


def replay_file(path):
    return generic_replay_file(path)
