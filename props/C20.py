"""C20 -- sampling, arc-length and factory helpers honour their contracts."""
from common import *

CONTRACT_MODULES = ['ppoly']
LEVEL = 'proof'
TRUSTED = ['int -> double conversion is exact and strictly monotone for 32-bit ints (axioms i2r_*); std::floor followed by conversion to int gives k with k <= x < k+1']
ASSUMPTIONS = ['dt > 0, end >= start, (end-start)/dt < 2^24 (the conversion of floor() to int is undefined beyond int range)']
UNDECIDED_CLAUSES = ['arc-length error bound (step times integral of the acceleration norm) and convergence: real analysis, not an algebraic identity',
                     'behaviour of floor(duration/dt) under floating-point rounding when dt nearly divides the interval']
OPT = {'i2r': True}


def tasks(tier):
    T = []
    cfgs = [{'DIM': 2, 'ORDER': None}] if tier == 'quick' else [{'DIM': 1, 'ORDER': None}, {'DIM': 2, 'ORDER': None}, {'DIM': 3, 'ORDER': 6}]
    for cfg in cfgs:
        T.append(Task('PPolyND', 'generateTimeSequence', 3, cfg, options=OPT))
    return T


def replay(result, workdir, seed):
    return ppoly_replay('C20', result, workdir, seed)


def replay_file(path):
    return generic_replay_file(path)
