"""C11 -- lazy derivative caches and copies never serve stale data.

Argument carried by the obligations:  CacheInv (a ready flag implies contents computed from the *current* coefficients)
is required and preserved by every evaluation route (C03's tasks, repeated here for the cache clauses), established
trivially by every (re)initialisation path because each ends with both flags false -- from an arbitrary pre-state with
flags true -- and no other member function assigns the coefficients, the coefficient count or the breakpoints (frame
scan over every PPolyND method).  Copies: PPolyND and the spline classes have only value members and implicitly defined
copy operations (AST facts)."""
from common import *
import cxxast

CONTRACT_MODULES = ['ppoly']
LEVEL = 'proof'
TRUSTED = ['implicitly defined copy constructor / assignment of classes with value members only perform member-wise deep copies (ISO C++ [class.copy]); Eigen and std containers own their storage']
ASSUMPTIONS = ['coefficient count enumerated over the configured set; segment count symbolic']
UNDECIDED_CLAUSES = []


def tasks(tier):
    T = []
    seen = set()
    for cfg, nc in ppoly_cfgs(tier):
        pins = {'num_coeffs_': nc}
        key = (cfg['DIM'], cfg['ORDER'])
        if key not in seen:
            seen.add(key)
            T.append(Task('PPolyND', 'initializeInternal', 3, cfg))
            T.append(Task('PPolyND', 'update', 3, cfg))
            T.append(Task('PPolyND', None, 3, cfg, ctor=True, contract_key='PPolyND.ctor3'))
            T.append(Task('PPolyND', None, 0, cfg, ctor=True, contract_key='PPolyND.ctor0'))
            T.append(Task('PPolyND', 'invalidateDerivativeCaches', 0, cfg))
        T.append(Task('PPolyND', 'ensureDerivativeCoefficients', 0, cfg, pins))
        T.append(Task('PPolyND', 'buildDerivativeCoefficients', 0, cfg, pins))
        ks = orders_for(nc, tier)
        for k in (ks if tier == 'thorough' else ks[:2]):
            pk = dict(pins)
            pk['p_derivative_order'] = k
            T.append(Task('PPolyND', 'evaluateSegmentHorner', 3, cfg, pk))
            T.append(Task('PPolyND', 'evaluate', cfg=cfg, pins=pk, pred=sig_pred(('double', 'int')), label=Task('a', 'b', cfg=cfg, pins=pk).label + ',plain'))
    return T


def extra_checks(tier, workdir):
    return [frame_scan(), copy_facts()]


def frame_scan():
    """no PPolyND member function other than initializeInternal (and the constructors) assigns the published data"""
    from tr import Translator
    import ir
    from check import all_contracts
    protected = {'coefficients__rows', 'num_coeffs_', 'num_segments_', 'breakpoints__size', 'is_initialized_'}
    protected_arr_prefix = ('coefficients__c', 'breakpoints__d')
    cls = cxxast.get_class('PPolyND')
    contracts = all_contracts()
    n, bad, skipped = 0, [], []
    for name, nodes in sorted(cls.methods.items()):
        for m in nodes:
            if name in ('initializeInternal',):
                continue
            np_ = len(cxxast.params_of(m))
            try:
                t = Translator({'contracts': contracts, 'throw_flag': 'thrown', 'floor': lambda tr, x, nn: tr.new_scalar('fl', 'real').rd(),
                                'real_to_int': lambda tr, x, nn: tr.new_scalar('r2i', 'int').rd(), 'no_bounds': True})
                t.pins = {'num_coeffs_': 4}
                fn = t.translate_method('PPolyND', {'DIM': 2, 'ORDER': None}, name, pred=lambda mm, m=m: mm is m)
            except Exception as ex:
                skipped.append('%s/%d: %s' % (name, np_, str(ex)[:80]))
                continue
            sc, ar = ir.write_set(fn.body)
            n += 1
            w = [x for x in sc if x in protected] + [a for a in ar if a.startswith(protected_arr_prefix)]
            if name != 'update' and w:
                bad.append('%s writes %s' % (name, w))
    st = 'ok' if not bad else 'violation'
    return {'name': 'frame scan: only (re)initialisation assigns coefficients/breakpoints/counts', 'obligations': n, 'discharged': n if not bad else n - len(bad),
            'status': st, 'detail': '; '.join(bad), 'oid': 'C11/PPolyND/frame_scan', 'not_translated': skipped, 'back_end': 'generator (syntactic write sets of the extracted IR)',
            'replay': '', 'found': False}


def copy_facts():
    """value members only + implicitly defined copy operations"""
    n, bad = 0, []
    for cname in ('PPolyND', 'CubicSplineND', 'QuinticSplineND', 'SepticSplineND', 'BoundaryConditions'):
        cls = cxxast.get_class(cname)
        for fname, ftype, _ in cls.fields:
            n += 1
            if re.search(r'[*&]\s*(const\s*)?$', ftype.strip()) or 'unique_ptr' in ftype or 'shared_ptr' in ftype:
                bad.append('%s::%s has type %s' % (cname, fname, ftype))
        n += 1
        for c in cls.ctors:
            ps = cxxast.params_of(c)
            if len(ps) == 1 and cname in ps[0]['type']['qualType'] and '&' in ps[0]['type']['qualType']:
                bad.append('%s has a user-provided copy/move constructor' % cname)
        if 'operator=' in cls.methods:
            bad.append('%s has a user-provided assignment operator' % cname)
    return {'name': 'copies: value members only, implicit copy operations', 'obligations': n, 'discharged': n - len(bad), 'status': 'ok' if not bad else 'violation',
            'detail': '; '.join(bad), 'oid': 'C11/copy_facts', 'back_end': 'generator (AST facts)', 'replay': '', 'found': False}


def replay(result, workdir, seed):
    return ppoly_replay('C11', result, workdir, seed)


def replay_file(path):
    return generic_replay_file(path)
