"""C16 -- invalid problems rejected, valid ones accepted, verdict reported coherently."""
from common import *

CONTRACT_MODULES = ['ppoly', 'splines', 'optimizer']
LEVEL = 'proof'
TRUSTED = ['a double is modelled as (finite?, real value): std::isfinite and Eigen isFinite().all() read the finiteness bit of each stored value; comparisons are only evaluated on finite values (as the code does)']
ASSUMPTIONS = ['sizes below 2^22; strings reduced to their emptiness bit']
UNDECIDED_CLAUSES = []
SPLINES = ['CubicSplineND', 'QuinticSplineND', 'SepticSplineND']


def opt_cfg(spl, D=2):
    return {'DIM': D, 'SplineType': {'cls': spl, 'cfg': {'DIM': D}}, 'TimeMap': {'cls': 'QuadInvTimeMap', 'cfg': {}},
            'SpatialMap': {'cls': 'IdentitySpatialMap', 'cfg': {'DIM': D}}}


def tasks(tier):
    T = []
    O = {'finite_ghosts': True}
    for spl in SPLINES:
        for D in ([2] if tier == 'quick' else [1, 2, 3]):
            cfg = opt_cfg(spl, D)
            base = '%s,DIM=%d' % (spl.replace('SplineND', ''), D)
            T.append(Task('SplineOptimizer', 'reportError', 2, cfg, options=O, label=base))
            for v in ('sound', 'complete'):
                T.append(Task('SplineOptimizer', 'checkValidity', 1, cfg, options=O, gen_options={'variant': v, 'finite_ghosts': True}, label=base + ',' + v))
                T.append(Task('SplineOptimizer', 'setInitState', 4, cfg, options=O, gen_options={'variant': v, 'finite_ghosts': True}, label=base + ',durations,' + v, setup=optimizer_setup))
            T.append(Task('SplineOptimizer', 'setInitState', 3, cfg, options=O, gen_options={'finite_ghosts': True}, label=base + ',time_points', setup=optimizer_setup))
            T.append(Task('SplineOptimizer', 'isValid', 0, cfg, label=base))
    # PPolyND part of the property: acceptance verdict of every (re)initialisation path and checked access
    for cfg in ([{'DIM': 2, 'ORDER': None}, {'DIM': 2, 'ORDER': 4}] if tier == 'quick' else [{'DIM': 1, 'ORDER': None}, {'DIM': 2, 'ORDER': None}, {'DIM': 2, 'ORDER': 4}, {'DIM': 3, 'ORDER': 6}, {'DIM': 1, 'ORDER': 8}]):
        T.append(Task('PPolyND', 'initializeInternal', 3, cfg))
        T.append(Task('PPolyND', 'update', 3, cfg))
        T.append(Task('PPolyND', None, 3, cfg, ctor=True, contract_key='PPolyND.ctor3'))
        T.append(Task('PPolyND', 'at', 1, cfg, options={'throw_flag': 'thrown'}))
    return T


def replay(result, workdir, seed):
    if 'PPolyND' in result.ob.oid:
        return ppoly_replay('C16', result, workdir, seed)
    return False, 'native replay for the optimizer family not built yet'


def replay_file(path):
    return generic_replay_file(path)
