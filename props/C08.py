"""C08 -- optimizer cost = time + waypoint + trapezoid-integral + weighted-energy terms; samples carry the right data."""
from common import *
from C16 import opt_cfg, SPLINES

CONTRACT_MODULES = ['ppoly', 'splines', 'optimizer']
LEVEL = 'proof'
TRUSTED = ['user cost functors and executors are known only through their protocols (AbstractIntegralCost, ParallelForExecutor)']
ASSUMPTIONS = ['N <= 2^22, 1 <= K <= 2^22', 'quick tier: evaluate for the cubic instance (caller workspace, built-in workspace, zero waypoint cost, two-cost overload); quintic evaluate in C07 quick; all orders in the thorough tier']
UNDECIDED_CLAUSES = []


def quad_options():
    from optimizer import AbstractIntegralCost, ParallelForExecutor
    return {'abstract_params': {'integral_cost': lambda tr: AbstractIntegralCost(), 'executor': lambda tr: ParallelForExecutor()}, 'i2r': True}


def eval_options():
    from optimizer import AbstractIntegralCost, ParallelForExecutor, AbstractCostFunctor
    return {'abstract_params': {'integral_cost_func': lambda tr: AbstractIntegralCost(), 'executor': lambda tr: ParallelForExecutor(),
                                'time_cost_func': lambda tr: AbstractCostFunctor('time_cost'),
                                'waypoints_cost_func': lambda tr: AbstractCostFunctor('waypoints_cost')},
            'type_aliases': {'WCF': 'UserWaypointsCost'}, 'i2r': True}


def tasks(tier):
    T = []
    for spl in SPLINES:
        for D in ([2] if tier == 'quick' else [1, 2, 3]):
            cfg = opt_cfg(spl, D)
            base = '%s,DIM=%d' % (spl.replace('SplineND', ''), D)
            if not (tier == 'quick' and spl == SPLINES[1]):       # the quintic quadrature is C07's quick instance
                T.append(Task('SplineOptimizer', 'calculateIntegralCost', None, cfg, label=base, setup=optimizer_default_maps, options=quad_options()))
            if tier == 'quick' and spl != SPLINES[0]:
                continue      # quick tier: evaluate for the cubic instance here, for the quintic instance in C07's quick tier; all orders in the thorough tier
            T.append(Task('SplineOptimizer', 'evaluate', 7, cfg, label=base + ',own workspace', setup=optimizer_user_maps, options=eval_options(),
                          pins={'p_ws_null': False}))
    if True:
        # the two-cost overload: forwarding, and the three-cost code instantiated with the zero waypoint cost
        spl = SPLINES[0]
        cfg = opt_cfg(spl, 2)
        base = '%s,DIM=2' % spl.replace('SplineND', '')
        o = eval_options()
        o['type_aliases'] = {'WCF': 'VoidWaypointsCost'}
        T.append(Task('SplineOptimizer', 'evaluate', 7, cfg, label=base + ',own workspace,zero waypoint cost', setup=optimizer_user_maps, options=o,
                      pins={'p_ws_null': False}, gen_options={'void_waypoint_cost': True}))
        T.append(Task('SplineOptimizer', 'evaluate', 7, cfg, label=base + ',built-in workspace', setup=optimizer_user_maps_owned, options=eval_options(), pins={'p_ws_null': True}))
        T.append(Task('SplineOptimizer', 'evaluate', 6, cfg, label=base + ',two-cost overload', setup=optimizer_user_maps, options=eval_options(), pins={'p_ws_null': False}))
    return T


def replay(result, workdir, seed):
    return optimizer_replay('C08', result, workdir, seed)


def replay_file(path):
    return generic_replay_file(path)
