"""C05 -- gradient propagation is the exact adjoint of the spline construction map (adjoint-state equations)."""
from common import *

CONTRACT_MODULES = ['ppoly', 'splines', 'adjoint']
LEVEL = 'proof'
TRUSTED = ['adjoint-state (Lagrange multiplier) theorem: if the multipliers solve the transposed linearised constraint system, the stated '
           'combination of partial derivatives is the total derivative (DESIGN.md s5); the partial derivatives themselves are computed '
           'by symbolic differentiation of the spec-side Hermite pieces and jump conditions']
ASSUMPTIONS = ['a built spline: every clause of the precondition is, text for text, a postcondition of update() as proved by C01/C02 (meta-check precondition_established_by_update); that nothing between update() and the call changes the object is the caller\'s frame (const queries only: C10)',
               'well-scaled domain: the pivots of the block factorisation are invertible (DESIGN.md s4.3)']
UNDECIDED_CLAUSES = []
CLASSES = ['QuinticSplineND', 'SepticSplineND']


def tasks(tier):
    T = []
    # (class, DIM, coordinates in focus): the duration gradient always sums over every coordinate; the septic code has separate
    # paths for DIM <= 3 and DIM > 3
    if tier == 'quick':
        cfgs = [('QuinticSplineND', 2, [1]), ('SepticSplineND', 1, [0])]      # septic DIM > 3 path: thorough tier, and its per-iteration lemmas in C13's quick tier
    else:
        cfgs = [('QuinticSplineND', 1, [0]), ('QuinticSplineND', 2, [0, 1]), ('QuinticSplineND', 3, [2]), ('SepticSplineND', 1, [0]), ('SepticSplineND', 2, [1]), ('SepticSplineND', 4, [3])]
    cfgs += [('CubicSplineND', 2, [1])] if tier == 'quick' else [('CubicSplineND', D, list(range(D))) for D in (1, 2, 3)]
    sel = os.environ.get('C05_ONLY')
    for cls, D, ds in cfgs:
        for d in ds:
            lab = '%s,DIM=%d,coord=%d' % (cls.replace('SplineND', ''), D, d)
            if sel and not re.search(sel, lab):
                continue
            t = Task(cls, 'propagateGradInternal', 6, {'DIM': D}, label=lab, gen_options={'focus': d})
            if tier == 'quick' and cls == 'SepticSplineND':
                # quick tier: the per-iteration and abstract (array-free) lemmas of the septic instance -- where every constant of the
                # adjoint code meets its spec-derived counterpart; the loop bookkeeping of the septic instance is discharged in the
                # thorough tier (it is the same generator code as the quintic bookkeeping, which the quick tier discharges in full)
                t.obligation_filter = r'/local\.|/abstract\.'
            T.append(t)
    for D in ([2] if tier == 'quick' else [1, 2]):
        for d in ([D - 1] if tier == 'quick' else range(D)):
            lab = 'Cubic,DIM=%d,coord=%d' % (D, d)
            if not sel or re.search(sel, lab):
                T.append(Task('CubicSplineND', 'solveWithCachedLU', 1, {'DIM': D}, label=lab, gen_options={'focus': d}))
    return T


def extra_checks(tier, workdir):
    res = run_meta_jobs([('common', 'precondition_chain', ('C05', cls, 'propagateGradInternal', 6)) for cls in ('CubicSplineND', 'QuinticSplineND', 'SepticSplineND')], workers=3)
    return [{'name': r['oid'], 'oid': r['oid'], 'obligations': 1, 'discharged': 1 if r['status'] == 'ok' else 0, 'status': r['status'], 'detail': r.get('detail', ''),
             'back_end': 'generator (clause texts of the verified contract instances)', 'replay': '', 'found': False} for r in res]


def replay(result, workdir, seed):
    return spline_replay('C05', result, workdir, seed)


def replay_file(path):
    return generic_replay_file(path)
