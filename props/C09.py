"""C09 -- decision-vector layout, dimension and initial-guess round trip."""
from common import *
from C16 import opt_cfg, SPLINES

CONTRACT_MODULES = ['ppoly', 'splines', 'optimizer']
LEVEL = 'proof'
TRUSTED = ['user spatial maps are known only through their protocol: getUnconstrainedDim(i) is a fixed function with values in 0..64']
ASSUMPTIONS = ['N <= 2^22']
UNDECIDED_CLAUSES = ['toPhysical(toUnconstrained(p)) == p is the protocol of user spatial maps (assumed); proved for the identity map']


def tasks(tier):
    T = []
    for spl in SPLINES:
        for D in ([2] if tier == 'quick' else [1, 2, 3]):
            cfg = opt_cfg(spl, D)
            base = '%s,DIM=%d' % (spl.replace('SplineND', ''), D)
            T.append(Task('SplineOptimizer', 'rebuildLayoutCache', 0, cfg, label=base, setup=optimizer_abstract_maps))
            T.append(Task('SplineOptimizer', 'ensureLayoutCache', 0, cfg, label=base, setup=optimizer_abstract_maps))
            T.append(Task('SplineOptimizer', 'getDimension', 0, cfg, label=base, setup=optimizer_abstract_maps))
            T.append(Task('SplineOptimizer', 'setOptimizationFlags', 1, cfg, label=base, setup=optimizer_abstract_maps))
            T.append(Task('SplineOptimizer', 'setSpatialMap', 1, cfg, label=base, setup=optimizer_abstract_maps))
            T.append(Task('SplineOptimizer', 'generateInitialGuess', 0, cfg, label=base, setup=optimizer_user_maps))
    return T


def replay(result, workdir, seed):
    return optimizer_replay('C09', result, workdir, seed)


def replay_file(path):
    return generic_replay_file(path)
