"""C17 -- time maps are smooth increasing bijections onto positive durations (over the reals)."""
from common import *
from check import ScriptTask
from expr import E, implies, subst, REAL
from fractions import Fraction

CONTRACT_MODULES = []
LEVEL = 'proof'
TRUSTED = ['sqrt(x) for x >= 0 is the non-negative r with r*r == x; 1/b for b != 0 is the r with b*r == 1']
ASSUMPTIONS = ['statements are over the reals']
UNDECIDED_CLAUSES = ['monotonicity between adjacent floating-point numbers and the |tau| <= 1e6 range clause are rounding statements']
QI = 'QuadInvTimeMap'


def positive_and_increasing(s):
    a, b = s.real('tau'), s.real('tau')
    ra, _ = s.call(QI, 'toTime', [a])
    rb, _ = s.call(QI, 'toTime', [b])
    s.check('positive', ra > 0)
    s.check('strictly_increasing', implies(a < b, ra < rb))


def smooth_at_switch(s):
    # value and derivative of both branch formulas at the switch point tau = 0 (the result is  cond ? A(tau) : B(tau))
    tau = s.real('tau')
    r, dr = s.call(QI, 'toTime', [tau], seeds={'tau': Fraction(1)})
    # (tau = 0 itself is covered by the left-branch bounds below, which force value 1 and derivative 1 there)
    # right branch: its formula and its derivative tend to the same values as tau -> 0+:  |r - 1| <= 2 tau and |dr - 1| <= tau for 0 < tau <= 1
    s.check('right_value_tends_to_one', implies((tau > 0) & (tau <= 1), (r - 1 <= 2 * tau) & (r - 1 >= 0)))
    s.check('right_derivative_tends_to_one', implies((tau > 0) & (tau <= 1), (dr - 1 <= tau) & (dr - 1 >= 0)))
    # and the left branch is continuous too:  for -1 <= tau <= 0:  0 <= 1 - r <= -2 tau ,  |dr - 1| <= -3 tau
    s.check('left_value_tends_to_one', implies((tau <= 0) & (tau >= -1), (1 - r >= 0) & (1 - r <= -2 * tau)))
    s.check('left_derivative_tends_to_one', implies((tau <= 0) & (tau >= -1), (dr - 1 <= -3 * tau) & (1 - dr <= -3 * tau)))
    s.check('derivative_positive', dr > 0)


def inverse_after_forward(s):
    tau = s.real('tau')
    T, _ = s.call(QI, 'toTime', [tau])
    back, _ = s.call(QI, 'toTau', [T])
    s.check('toTau_of_toTime', back.eq(tau))


def forward_after_inverse(s):
    T = s.real('T')
    s.assume(T > 0)
    tau, _ = s.call(QI, 'toTau', [T])
    T2, _ = s.call(QI, 'toTime', [tau])
    s.check('toTime_of_toTau', T2.eq(T))


def backward_is_derivative(s):
    tau, T, g = s.real('tau'), s.real('T'), s.real('g')
    r, dr = s.call(QI, 'toTime', [tau], seeds={'tau': Fraction(1)})
    b, _ = s.call(QI, 'backward', [tau, T, g])
    s.check('backward_multiplies_by_the_derivative_of_toTime', b.eq(g * dr))


def identity_map(s):
    x, T, g = s.real('x'), s.real('T'), s.real('g')
    a, da = s.call('IdentityTimeMap', 'toTime', [x], seeds={'tau': Fraction(1)})
    b, _ = s.call('IdentityTimeMap', 'toTau', [x])
    c, _ = s.call('IdentityTimeMap', 'backward', [x, T, g])
    s.check('toTime_passes_through', a.eq(x))
    s.check('toTau_passes_through', b.eq(x))
    s.check('backward_passes_gradient_through', c.eq(g * da) & c.eq(g))


def tasks(tier):
    return [ScriptTask('positive_and_increasing', positive_and_increasing), ScriptTask('smooth_at_switch', smooth_at_switch),
            ScriptTask('inverse_after_forward', inverse_after_forward), ScriptTask('forward_after_inverse', forward_after_inverse),
            ScriptTask('backward_is_derivative', backward_is_derivative), ScriptTask('identity_map', identity_map)]


def replay(result, workdir, seed):
    model = discharge.parse_trace(getattr(result, 'trace', '') or '')
    tau = 0.0
    for k, v in model.items():
        if k.startswith('tau') or k.startswith('T'):
            try:
                from fractions import Fraction as F
                tau = float(F(v))
            except Exception:
                pass
    return replay_native('replay_timemap', [tau], workdir)


def replay_file(path):
    return generic_replay_file(path)
