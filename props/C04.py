"""C04 -- reported energy is the integral of the squared s-th derivative of the published trajectory."""
from common import *

CONTRACT_MODULES = ['ppoly', 'splines']
LEVEL = 'proof'
TRUSTED = ['the closed form of the integral of a product of polynomials (power rule) is the definition of the spec function seg_energy']
ASSUMPTIONS = ['positive durations; published durations/coefficients are the ones the spline stores (C01 hand-over)']
UNDECIDED_CLAUSES = ['non-negativity "up to rounding": over the reals the energy is a sum of integrals of squares']
CLASSES = ['CubicSplineND', 'QuinticSplineND', 'SepticSplineND']


def tasks(tier):
    T = []
    for cls in CLASSES:
        for D in ([1, 2] if tier == 'quick' else [1, 2, 3, 4]):
            T.append(Task(cls, 'getEnergy', 0, {'DIM': D}))
    return T


def replay(result, workdir, seed):
    return spline_replay('C04', result, workdir, seed)


def replay_file(path):
    return generic_replay_file(path)
