"""C19 -- the built-in gradient self-check: structure of the comparison, verdict, restored state."""
from common import *
from C16 import opt_cfg, SPLINES
import C08

CONTRACT_MODULES = ['ppoly', 'splines', 'optimizer']
LEVEL = 'proof'
TRUSTED = ['evaluate by its contract (C07/C08); Eigen norm() of a dynamic vector modelled as: non-negative and dominating every component']
ASSUMPTIONS = ['caller-supplied workspace; eps != 0']
UNDECIDED_CLAUSES = ['"reports success when the user functors supply correct gradients" depends on the truncation error of central differences (a numerical-analysis statement, not decided)',
                     'error_norm is specified by domination of every component, not as the exact Euclidean norm; rel_error is not specified']


def cg_options():
    from optimizer import AbstractIntegralCost, AbstractCostFunctor
    o = dict(C08.eval_options())
    o['abstract_params'] = {'tf': lambda tr: AbstractCostFunctor('time_cost'), 'wf': lambda tr: AbstractCostFunctor('waypoints_cost'), 'ifc': lambda tr: AbstractIntegralCost()}
    return o


def tasks(tier):
    T = []
    for spl in (SPLINES[:1] if tier == 'quick' else SPLINES):
        for D in ([2] if tier == 'quick' else [1, 3]):
            cfg = opt_cfg(spl, D)
            base = '%s,DIM=%d' % (spl.replace('SplineND', ''), D)
            T.append(Task('SplineOptimizer', 'checkGradients', 7, cfg, label=base + ',three costs', setup=optimizer_user_maps, options=cg_options(), pins={'p_ws_null': False}))
            T.append(Task('SplineOptimizer', 'checkGradients', 6, cfg, label=base + ',two costs', setup=optimizer_user_maps, options=cg_options(), pins={'p_ws_null': False}))
    return T


def replay(result, workdir, seed):
    return optimizer_replay('C19', result, workdir, seed)


def replay_file(path):
    return generic_replay_file(path)
