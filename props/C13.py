"""C13 -- spatial dimensions are solved independently.

The spline contracts of C01/C02/C04/C05/C06 are generated per coordinate: with coordinate d in focus, every hypothesis and
every postcondition is about column d of the inputs/outputs plus coordinate-free state (durations, cached time powers and
factorisations, sizes), while the code of every coordinate is executed.  This check reads the verified contracts back and
decides, syntactically on the very contract instances the other checks discharge:
  (a) non-interference: the contract in focus d mentions no storage of another coordinate;
  (b) symmetry: the contract instances of different coordinates are produced by one generator parameterised by the
      coordinate index (by construction; not re-checked);
  (c) the quantities shared by the coordinates (energy, duration gradients) are specified as sums over the coordinates.
Since the equations characterise the outputs uniquely (T1, cited), a D-dimensional spline is the stack of the D
one-dimensional splines, and permuting coordinates permutes outputs.  The proofs of the contracts themselves are the
obligations of C01/C02/C05/C06; the subset that exercises the DIM-specialised septic gradient branches is re-run here."""
from common import *
import re

CONTRACT_MODULES = ['ppoly', 'splines', 'adjoint']
LEVEL = 'proof'
TRUSTED = ['uniqueness of the solution of the defining equations (T1) turns "each coordinate satisfies the same equations over its own data" into "equal to the 1-D spline"',
           'the per-coordinate contracts are discharged by the checks of C01, C02, C04, C05, C06 (this check re-runs the DIM-specialised part of C05)']
ASSUMPTIONS = ['storage order (row-major for DIM > 1, column-major for DIM = 1) is invisible at the level of the extracted IR: matrices are accessed by (row, column)']
UNDECIDED_CLAUSES = ['bit-identity between the D-dimensional and the 1-D runs is not claimed (double as mathematical real); D in 1..4 are instantiated, the contracts are generic in DIM',
                     ]

PAIRS = [  # (class, method, nparams)
    ('CubicSplineND', 'solveSpline', 0), ('QuinticSplineND', 'solveQuintic', 0), ('SepticSplineND', 'solveSepticSpline', 0),
    ('QuinticSplineND', 'solveInternalDerivatives', None), ('SepticSplineND', 'solveInternalDerivatives', None),
    ('CubicSplineND', 'propagateGradInternal', 6), ('QuinticSplineND', 'propagateGradInternal', 6), ('SepticSplineND', 'propagateGradInternal', 6),
    ('CubicSplineND', 'getEnergyGradInnerPoints', 0), ('CubicSplineND', 'getEnergyGradBoundary', 0),
    ('QuinticSplineND', 'getEnergyGradInnerPoints', 0), ('SepticSplineND', 'getEnergyGradInnerPoints', 0),
    ('QuinticSplineND', 'getEnergyGradBoundary', 0), ('SepticSplineND', 'getEnergyGradBoundary', 0),
]
SUMS = [('CubicSplineND', 'getEnergyGradTimes', 0), ('CubicSplineND', 'getEnergy', 0), ('QuinticSplineND', 'getEnergy', 0), ('SepticSplineND', 'getEnergy', 0),
        ('QuinticSplineND', 'getEnergyGradTimes', 0), ('SepticSplineND', 'getEnergyGradTimes', 0)]


def tasks(tier):
    # the DIM-specialised septic gradient branches (DIM <= 3 and DIM > 3), per-iteration lemmas only
    T = []
    cfgs = [('SepticSplineND', 4, 3)] if tier == 'quick' else [('SepticSplineND', 4, 3), ('SepticSplineND', 4, 0), ('SepticSplineND', 2, 1), ('SepticSplineND', 1, 0)]
    for cls, D, d in cfgs:
        t = Task(cls, 'propagateGradInternal', 6, {'DIM': D}, label='%s,DIM=%d,coord=%d' % (cls.replace('SplineND', ''), D, d), gen_options={'focus': d})
        t.obligation_filter = r'/local\.'
        T.append(t)
    return T


def spatial_names(h, D):
    """storage name -> coordinate, for every matrix with exactly DIM columns and every DIM-vector reachable from the function's
    namespace (D = 2 is used: no cache or workspace matrix of these classes has two columns)"""
    from values import Mat, StoreMat, SmallMat, Obj, StdVec
    out = {}
    seen = set()

    def visit(v):
        if id(v) in seen:
            return
        seen.add(id(v))
        if isinstance(v, Obj):
            for f in v.fields.values():
                visit(f)
        elif isinstance(v, StoreMat) and v.C == D:
            for d in range(D):
                out[v.col(d)] = d
        elif isinstance(v, SmallMat):
            try:
                R, C = int(v.R), int(v.C)
            except Exception:
                return
            if (R, C) == (D, 1):
                for d in range(D):
                    out[v.lv(d, 0).name] = d
            elif (R, C) == (1, D):
                for d in range(D):
                    out[v.lv(0, d).name] = d
    for v in h.gen.fn.ns.values():
        visit(v)
    return out


def pair_check(cls, method, nparams, D=2):
    out = []
    base = 'C13/%s.%s' % (cls, method)
    pins = {'trajectory___num_coeffs_': {'QuinticSplineND': 6, 'SepticSplineND': 8}.get(cls, 4)} if method == 'getEnergyGradBoundary' else {}
    for d in (0, D - 1):
        rows, assigned, h = contract_view('C13', Task(cls, method, nparams, {'DIM': D}, label='meta,coord=%d' % d, gen_options={'focus': d}, pins=pins))
        coord = spatial_names(h, D)
        bad = []
        n_clauses = 0
        for kind, label, txt, fv in rows:
            if kind != 'ensures' or not re.search(r'_%d$' % d, label):
                continue          # clauses of the focused coordinate carry its index as a suffix
            n_clauses += 1
            foreign = sorted(n.lstrip('@') for n in fv if coord.get(n.lstrip('@'), d) != d)
            if foreign:
                bad.append('%s mentions %s' % (label, foreign[:6]))
        st = 'violation' if bad else ('undecided' if n_clauses == 0 else 'ok')
        out.append({'oid': '%s/non_interference[coord=%d]' % (base, d), 'status': st,
                    'detail': '; '.join(bad[:8]) if bad else '%d postconditions of coordinate %d mention only its own columns and coordinate-free state' % (n_clauses, d)})
    return out


def sum_check(cls, method, nparams, D=2):
    """energy / duration gradient: the specification must mention every coordinate (it is a sum over coordinates)"""
    rows, assigned, h = contract_view('C13', Task(cls, method, nparams, {'DIM': D}, label='meta,sum'))
    coord = spatial_names(h, D)
    names = set().union(*[fv for k, _, _, fv in rows])
    cols = sorted({coord[n.lstrip('@')] for n in names if n.lstrip('@') in coord})
    ok = cols == list(range(D))
    return [{'oid': 'C13/%s.%s/sum_over_coordinates' % (cls, method), 'status': 'ok' if ok else 'violation',
             'detail': '' if ok else 'specification mentions coordinates %s of %d' % (cols, D)}]


def extra_checks(tier, workdir):
    jobs = [('C13', 'pair_check', a) for a in PAIRS] + [('C13', 'sum_check', a) for a in SUMS]
    res = run_meta_jobs(jobs)
    return [{'name': r['oid'], 'oid': r['oid'], 'obligations': 1, 'discharged': 1 if r['status'] == 'ok' else 0, 'status': r['status'], 'detail': r.get('detail', ''),
             'back_end': 'generator (free storage names and text of the verified contract instances)', 'replay': '', 'found': False} for r in res]


def replay(result, workdir, seed):
    return spline_replay('C13', result, workdir, seed)


def replay_file(path):
    return generic_replay_file(path)
