"""C01 -- splines interpolate every waypoint and honour the boundary states; time bookkeeping."""
from common import *

CONTRACT_MODULES = ['ppoly', 'splines']
LEVEL = 'proof'
TRUSTED = []
ASSUMPTIONS = ['positive durations; at least one segment; at most 2^22 segments', 'the contract of solveInternalDerivatives (boundary rows = boundary states) is used at its call sites here and discharged by the C02 check']
UNDECIDED_CLAUSES = []
CLASSES = ['CubicSplineND', 'QuinticSplineND', 'SepticSplineND']


def dims(tier):
    return [2] if tier == 'quick' else [1, 2, 3]


def tasks(tier):
    T = []
    for cls in CLASSES:
        for D in dims(tier):
            cfg = {'DIM': D}
            T.append(Task(cls, 'convertTimePointsToSegments', 1, cfg))
            T.append(Task(cls, 'updateCumulativeTimes', 0, cfg))
            T.append(Task(cls, 'precomputeTimePowers', 0, cfg))
            T.append(Task(cls, 'precomputePointDiffs', 0, cfg))
            if cls == 'CubicSplineND':
                for d in range(D):
                    T.append(Task(cls, 'solveSpline', 0, cfg, gen_options={'focus': d}, label='DIM=%d,coord=%d' % (D, d)))
            else:
                for d in range(D):
                    T.append(Task(cls, 'solveQuintic' if cls == 'QuinticSplineND' else 'solveSepticSpline', 0, cfg, gen_options={'focus': d}, label='DIM=%d,coord=%d' % (D, d)))
            T.append(Task(cls, 'initializePPoly', 0, cfg))
            for d in range(D):
                lab = 'DIM=%d,coord=%d' % (D, d)
                T.append(Task(cls, 'updateSplineInternal', 0, cfg, gen_options={'focus': d}, label=lab))
                T.append(Task(cls, 'update', 4, cfg, gen_options={'focus': d}, label=lab + ',durations'))
                T.append(Task(cls, 'update', 3, cfg, gen_options={'focus': d}, label=lab + ',time_points'))
    return T


def replay(result, workdir, seed):
    return spline_replay('C01', result, workdir, seed)


def replay_file(path):
    return generic_replay_file(path)
