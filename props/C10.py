"""C10 -- results depend only on the latest inputs, not on object or workspace history.

Contract reading of the property: (a) every builder (spline update overloads, optimizer evaluate on a workspace) has a
precondition that does not constrain the prior state of what it rebuilds (beyond the named representation invariants) and a
postcondition that mentions only its parameters and the post-state -- never an entry value; (b) every read-only query
assigns nothing but named scratch workspaces / lazy caches, and nothing it requires or ensures mentions the entry contents
of those.  The update harnesses themselves (rebuild after arbitrary prior state: the pre-state of every member is an
unconstrained symbolic value, all sizes included) are re-run here; a stale tail or a skipped recomputation fails them."""
from common import *
from C16 import opt_cfg
import C08

CONTRACT_MODULES = ['ppoly', 'splines', 'optimizer', 'adjoint']
LEVEL = 'proof'
TRUSTED = ['uniqueness of what the postconditions characterise (T1): two objects that satisfy the same defining equations over the same inputs give the same results',
           'the contracts read back here are the ones discharged by C01/C02/C04/C05/C06/C08/C11 (the update harnesses are re-run by this check)']
ASSUMPTIONS = ['representation invariant of Workspace (all buffers sized for the same segment count) -- established by Workspace::resize, the only code that sizes them']
UNDECIDED_CLAUSES = ['bit-identity is not claimed: double as mathematical real']
CLASSES = ['CubicSplineND', 'QuinticSplineND', 'SepticSplineND']


def tasks(tier):
    T = []
    for cls in CLASSES:
        for D in ([2] if tier == 'quick' else [1, 2, 3]):
            for d in ([D - 1] if tier == 'quick' else range(D)):
                lab = 'DIM=%d,coord=%d' % (D, d)
                T.append(Task(cls, 'updateSplineInternal', 0, {'DIM': D}, gen_options={'focus': d}, label=lab))
                T.append(Task(cls, 'update', 4, {'DIM': D}, gen_options={'focus': d}, label=lab + ',durations'))
                T.append(Task(cls, 'update', 3, {'DIM': D}, gen_options={'focus': d}, label=lab + ',time_points'))
    return T


BUILDERS = [(c, 'update', 4) for c in CLASSES] + [(c, 'update', 3) for c in CLASSES]
QUERIES = ([(c, 'getEnergy', 0, ()) for c in CLASSES] + [(c, 'getEnergyPartialGradByCoeffs', 1, ('p_gdC',)) for c in CLASSES] +
           [(c, 'getEnergyPartialGradByTimes', 1, ('p_gdT',)) for c in CLASSES] +
           [(c, m, 0, ()) for c in CLASSES for m in ('getEnergyGradTimes', 'getEnergyGradInnerPoints', 'getEnergyGradBoundary')] +
           [(c, 'propagateGradInternal', 6, ('ws_lambda_', 'ws_gd_internal_', 'p_innerPointsGrad', 'p_gradByTimes', 'p_startGrads', 'p_endGrads')) for c in CLASSES])


def is_old(n):
    return n.lstrip('@').startswith('old')


def builder_check(cls, method, nparams):
    rows, assigned, h = contract_view('C10', Task(cls, method, nparams, {'DIM': 2}, label='meta', gen_options={'focus': 0}))
    base = 'C10/%s.%s/%d' % (cls, method, nparams)
    bad_req, bad_ens = [], []
    for kind, label, txt, fv in rows:
        names = {n for n in fv if not re.fullmatch(r'sk\d', n)}
        if kind == 'requires':
            if label.startswith('def_') or label.startswith('i2r'):
                continue
            members = sorted(n for n in names if not n.lstrip('@').startswith('p_') and not n.lstrip('@').startswith('SPEC_'))
            if members:
                bad_req.append('%s constrains %s' % (label, members[:5]))
        else:
            olds = sorted(n for n in names if is_old(n))
            if olds:
                bad_ens.append('%s mentions entry values %s' % (label, olds[:5]))
    return [{'oid': base + '/precondition_independent_of_prior_state', 'status': 'violation' if bad_req else 'ok', 'detail': '; '.join(bad_req[:6])},
            {'oid': base + '/postcondition_mentions_no_entry_value', 'status': 'violation' if bad_ens else 'ok', 'detail': '; '.join(bad_ens[:6])}]


def query_check(cls, method, nparams, scratch):
    pins = {'trajectory___num_coeffs_': {'QuinticSplineND': 6, 'SepticSplineND': 8}.get(cls, 4)} if method == 'getEnergyGradBoundary' else {}
    rows, assigned, h = contract_view('C10', Task(cls, method, nparams, {'DIM': 2}, label='meta', gen_options={'focus': 0} if method != 'getEnergyGradTimes' else {}, pins=pins))
    base = 'C10/%s.%s' % (cls, method)
    ok_prefix = tuple(scratch)
    extra = sorted(n for n in assigned if not n.lstrip('@').startswith(ok_prefix))
    out = [{'oid': base + '/assigns_only_scratch', 'status': 'violation' if extra else 'ok', 'detail': ('assigns %s' % extra[:6]) if extra else 'assigns: %s' % sorted(assigned)[:8]}]
    dep = []
    for kind, label, txt, fv in rows:
        names = {n.lstrip('@') for n in fv}
        if kind == 'requires':
            hit = sorted(n for n in names if n.startswith(ok_prefix)) if ok_prefix else []
            hit = [n for n in hit if not n.endswith('_rows') and not n.endswith('_size')]
            if hit:
                dep.append('%s constrains the entry contents of %s' % (label, hit[:4]))
        else:
            olds = sorted(n for n in names if is_old(n))
            if olds:
                dep.append('%s mentions entry values %s' % (label, olds[:4]))
    out.append({'oid': base + '/result_independent_of_scratch_contents', 'status': 'violation' if dep else 'ok', 'detail': '; '.join(dep[:6])})
    return out


def evaluate_check():
    """optimizer evaluate on a reused workspace: the only thing required of the workspace is the sizing invariant; nothing ensured mentions its entry contents"""
    cfg = opt_cfg('QuinticSplineND', 2)
    rows, assigned, h = contract_view('C10', Task('SplineOptimizer', 'evaluate', 7, cfg, label='meta', setup=optimizer_user_maps, options=C08.eval_options(), pins={'p_ws_null': False}))
    bad = []
    for kind, label, txt, fv in rows:
        names = {n.lstrip('@') for n in fv}
        wsn = sorted(n for n in names if n.startswith('p_ws__'))
        if kind == 'requires' and wsn and label != 'workspace_buffers_sized_consistently':
            bad.append('requires %s constrains the workspace: %s' % (label, wsn[:4]))
        if kind == 'ensures' and any(is_old(n) for n in names):
            bad.append('ensures %s mentions entry values' % label)
    return [{'oid': 'C10/SplineOptimizer.evaluate/workspace_history_irrelevant', 'status': 'violation' if bad else 'ok', 'detail': '; '.join(bad[:6])}]


def extra_checks(tier, workdir):
    jobs = [('C10', 'builder_check', a) for a in BUILDERS] + [('C10', 'query_check', a) for a in QUERIES] + [('C10', 'evaluate_check', ())]
    res = run_meta_jobs(jobs)
    return [{'name': r['oid'], 'oid': r['oid'], 'obligations': 1, 'discharged': 1 if r['status'] == 'ok' else 0, 'status': r['status'], 'detail': r.get('detail', ''),
             'back_end': 'generator (free storage names of the verified contract instances)', 'replay': '', 'found': False} for r in res]


def replay(result, workdir, seed):
    return spline_replay('C10', result, workdir, seed)


def replay_file(path):
    return generic_replay_file(path)
