"""C02 -- minimum acceleration/jerk/snap interpolants: optimality (KKT) system solved exactly."""
from common import *

CONTRACT_MODULES = ['ppoly', 'splines']
LEVEL = 'proof'
TRUSTED = ['T1 (cited, not proved): a piecewise polynomial of degree 2s-1 that interpolates, meets the s-1 boundary derivatives and is C^(2s-2) at interior knots is the unique minimiser of the integral of the squared s-th derivative']
ASSUMPTIONS = ['positive durations; 1 <= N <= 2^22', 'quintic/septic pivot blocks non-singular (DESIGN s4.3)']
UNDECIDED_CLAUSES = []


def tasks(tier):
    T = []
    for D in ([2] if tier == 'quick' else [1, 2, 3]):
        for d in range(D):
            T.append(Task('CubicSplineND', 'computeLUAndSolve', 1, {'DIM': D}, gen_options={'focus': d}, label='DIM=%d,coord=%d' % (D, d)))
            T.append(Task('CubicSplineND', 'solveSpline', 0, {'DIM': D}, gen_options={'focus': d}, label='DIM=%d,coord=%d' % (D, d)))
        for cls in ('QuinticSplineND', 'SepticSplineND'):
            for d in (range(D) if tier == 'thorough' else [0]):
                T.append(Task(cls, 'solveInternalDerivatives', None, {'DIM': D}, gen_options={'focus': d}, label='DIM=%d,coord=%d' % (D, d)))
                T.append(Task(cls, 'solveQuintic' if cls == 'QuinticSplineND' else 'solveSepticSpline', 0, {'DIM': D}, gen_options={'focus': d}, label='DIM=%d,coord=%d' % (D, d)))
    return T


def replay(result, workdir, seed):
    return spline_replay('C02', result, workdir, seed)


def replay_file(path):
    return generic_replay_file(path)
