"""shared helpers for the per-property task lists"""
import os, sys
from check import Task
from base import sig_pred

PP_DYN = {'DIM': 2, 'ORDER': None}


def ppoly_cfgs(tier):
    """(cfg, nc) pairs for PPolyND.  ORDER None = Eigen::Dynamic.  Property C03 quantifies over coefficient counts 1..12
    (crossing the static-table limit 8) and fixed or dynamic order."""
    if tier == 'quick':
        return [({'DIM': 2, 'ORDER': None}, 3), ({'DIM': 2, 'ORDER': 4}, 4), ({'DIM': 1, 'ORDER': 6}, 6), ({'DIM': 2, 'ORDER': None}, 9)]
    out = []
    for dim in (1, 2, 3):
        for nc in range(1, 13):
            if dim != 2 and nc not in (1, 4, 8, 9, 12):
                continue
            out.append(({'DIM': dim, 'ORDER': None}, nc))
        for order in (4, 6, 8):
            for nc in sorted(set([1, order - 1, order])):
                if nc >= 1:
                    out.append(({'DIM': dim, 'ORDER': order}, nc))
    return out


def orders_for(nc, tier):
    """derivative orders to enumerate for a pinned coefficient count: all 0..nc-1, nc (beyond degree) -- quick tier samples"""
    ks = list(range(0, nc + 1))
    if tier == 'quick' and len(ks) > 4:
        ks = sorted(set([0, 1, nc - 1, nc])) if nc <= 8 else [0, nc - 1, nc]
    return ks
