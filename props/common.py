"""shared helpers for the per-property task lists"""
import os, sys
from check import Task
from base import sig_pred

PP_DYN = {'DIM': 2, 'ORDER': None}


def ppoly_cfgs(tier):
    """(cfg, nc) pairs for PPolyND.  ORDER None = Eigen::Dynamic.  Property C03 quantifies over coefficient counts 1..12
    (crossing the static-table limit 8) and fixed or dynamic order."""
    if tier == 'quick':
        return [({'DIM': 2, 'ORDER': None}, 3), ({'DIM': 2, 'ORDER': 4}, 4), ({'DIM': 1, 'ORDER': 6}, 6), ({'DIM': 2, 'ORDER': None}, 9)]
    out = []
    for dim in (1, 2, 3):
        for nc in range(1, 13):
            if dim != 2 and nc not in (1, 4, 8, 9, 12):
                continue
            out.append(({'DIM': dim, 'ORDER': None}, nc))
        for order in (4, 6, 8):
            for nc in sorted(set([1, order - 1, order])):
                if nc >= 1:
                    out.append(({'DIM': dim, 'ORDER': order}, nc))
    return out


def orders_for(nc, tier):
    """derivative orders to enumerate for a pinned coefficient count: all 0..nc-1, nc (beyond degree) -- quick tier samples"""
    ks = list(range(0, nc + 1))
    if tier == 'quick':
        if nc <= 3:
            return ks
        if nc <= 4:
            return [0, nc - 1, nc]
        if nc <= 8:
            return [0, nc]
        return [nc - 2]
    return ks


# ---------------------------------------------------------------------------------------------- native replay
import subprocess, json, re
import discharge
import cxxast

ROOT = os.path.dirname(os.path.dirname(os.path.abspath(__file__)))


def build_native(name, workdir, extra_flags=()):
    """compile /verif/native/<name>.cpp against /repo's CURRENT headers"""
    src = os.path.join(ROOT, 'native', name + '.cpp')
    exe = os.path.join(workdir, name)
    if os.path.exists(exe):
        return exe, ''
    os.makedirs(workdir, exist_ok=True)
    cmd = ['g++', '-std=c++17', '-O1', '-I/usr/include/eigen3', '-I', os.path.join(cxxast.REPO, 'include')] + list(extra_flags) + [src, '-o', exe]
    p = subprocess.run(cmd, stdout=subprocess.PIPE, stderr=subprocess.STDOUT)
    if p.returncode != 0:
        return None, p.stdout.decode(errors='replace')[-1500:]
    return exe, ''


def model_int(model, name, default=0):
    v = model.get(name)
    if v is None:
        return default
    try:
        return int(v)
    except ValueError:
        return default


def replay_native(name, args, workdir, timeout=600, extra_flags=()):
    exe, err = build_native(name, os.path.join(workdir, 'native'), extra_flags)
    if exe is None:
        return False, 'native replay program does not compile against the current header: ' + err
    try:
        p = subprocess.run([exe] + [str(a) for a in args], stdout=subprocess.PIPE, stderr=subprocess.STDOUT, timeout=timeout)
    except subprocess.TimeoutExpired:
        return False, 'native replay timed out'
    out = p.stdout.decode(errors='replace')
    found = p.returncode != 0
    return found, ('exit=%d (a crash or failed run-time assertion counts as a failing input)\n' % p.returncode if found else '') + out[-3000:]


def ppoly_replay(prop, result, workdir, seed):
    model = discharge.parse_trace(result.trace or '')
    pins = getattr(result.harness.task, 'pins', {}) if getattr(result, 'harness', None) is not None and hasattr(result.harness, 'task') else {}
    nseg = model_int(model, 'num_segments_', 0)
    nc = pins.get('num_coeffs_', model_int(model, 'num_coeffs_', 0))
    hint = model_int(model, 'p_last_idx_hint_val', 0)
    k = pins.get('p_derivative_order', model_int(model, 'p_derivative_order', 0))
    return replay_native('replay_ppoly', [prop, seed, nseg, nc, hint, k], workdir)


def generic_replay_file(path):
    rec = json.load(open(path))
    print('obligation :', rec.get('obligation'))
    print('label      :', rec.get('label'))
    print('native     :', json.dumps(rec.get('native_replay'), indent=1)[:3000])
    print('model      :', json.dumps(rec.get('model'))[:2000])
    return 1 if rec.get('native_replay', {}).get('failing_input_found') else 3


def segment_setup(t, this, task):
    """a Segment / ConstIterator whose parent pointer designates a PPolyND object stored under the prefix par__"""
    from ctypes_ import TD
    parent = t.make_obj(TD('obj', cls='PPolyND', cfg=task.cfg), 'par__')
    for f in ('parent_', 'ptr_'):
        if f in this.fields:
            this.fields[f].target = parent
    return this


def optimizer_setup(t, this, task):
    """an optimizer object whose built-in workspace pointer designates a Workspace object (prefix ws__) when non-null"""
    from ctypes_ import TD
    if this is None:
        this = t.make_obj(TD('obj', cls='SplineOptimizer', cfg=task.cfg), '')
    ws = t.make_obj(TD('obj', cls='SplineOptimizer::Workspace', cfg=task.cfg), 'ws__')
    this.fields['internal_ws_'].target = ws
    return this


def optimizer_abstract_maps(t, this, task):
    """optimizer whose active spatial map is a user map known only through its protocol"""
    this = optimizer_setup(t, this, task)
    from optimizer import AbstractSpatialMap
    this.fields['active_spatial_map_'].target = AbstractSpatialMap()
    this.fields['active_time_map_'].target = this.fields['default_time_map_']
    return this


def optimizer_user_maps(t, this, task):
    """optimizer whose active time map and spatial map are user maps known only through their protocols"""
    this = optimizer_abstract_maps(t, this, task)
    from optimizer import AbstractTimeMap
    this.fields['active_time_map_'].target = AbstractTimeMap()
    return this


def optimizer_user_maps_owned(t, this, task):
    """as optimizer_user_maps, with the allocation model of the built-in workspace (ws == nullptr route)"""
    this = optimizer_user_maps(t, this, task)
    this.fields['internal_ws_'].owned_tag = 5
    return this


def optimizer_default_maps(t, this, task):
    this = optimizer_setup(t, this, task)
    this.fields['active_spatial_map_'].target = this.fields['default_spatial_map_']
    this.fields['active_time_map_'].target = this.fields['default_time_map_']
    return this


# ---------------------------------------------------------------------------------------------- reading contracts back (meta-checks of C10, C13, C14)
def contract_view(prop, task):
    """the verified contract of a task as data: [(kind, label, printed sample instance, free names)], assigned storage names"""
    import check as _check
    from gen import Quant
    from expr import E, INT, free_vars, Printer
    # translation + one evaluation of the contract (no harness text is generated: only the clauses are read)
    from tr import Translator
    from gen import Generator, Spec
    contracts = _check.all_contracts()
    opts = dict(task.options)
    opts['contracts'] = contracts
    t = Translator(opts)
    t.pins = dict(task.pins)
    this = task.setup(t, None, task) if task.setup is not None else None
    fn = t.translate_method(task.cls, task.cfg, task.method, task.nparams, ctor=task.ctor, pred=task.pred, this=this)
    contract = contracts.get(task.contract_key or fn.key).select(fn.node, len(cxxast.params_of(fn.node)))
    g = Generator(fn, contract, contracts, prop, task.label, task.gen_options)
    g.known_terms = []
    spec = Spec(g, fn.ns, fn.cfg, 'call_view', '')
    contract.spec(spec)

    class _H(object):
        pass
    h = _H()
    h.gen = g
    P = Printer('real')
    sk = [E.var('sk%d' % j, INT) for j in range(3)]
    rows = []

    def flat(x):
        if isinstance(x, (list, tuple)):
            out = []
            for y in x:
                out += flat(y)
            return out
        return [x]
    for kind, items in (('requires', spec.reqs), ('ensures', spec.enss)):
        for label, prop_ in items:
            if isinstance(prop_, Quant):
                body = prop_.body(sk[0])
                parts = []
                for b in flat(body):
                    if isinstance(b, Quant):
                        parts += flat(b.body(sk[1]))
                    else:
                        parts.append(b)
                samples = [E.const(prop_.lo), E.const(prop_.hi)] + [E.const(b) for b in parts]
            else:
                samples = [E.const(b) for b in flat(prop_)]
            fv = set()
            txt = []
            for smp in samples:
                fv |= free_vars(smp)
                try:
                    txt.append(P.p(smp))
                except Exception:
                    txt.append(repr(smp))
            rows.append((kind, label, ' ; '.join(txt), fv))
    assigned = set()
    from gen import storage_of
    for v in spec.assigned:
        st = storage_of(v)
        if st:
            assigned |= {n for n, _ in st[0]} | {'@' + n for n, _ in st[1]}
    return rows, assigned, h


def _meta_job(args):
    modname, fname, a = args
    import importlib
    for m in ('ppoly', 'splines', 'optimizer', 'adjoint'):
        importlib.import_module(m)
    mod = importlib.import_module(modname)
    try:
        return getattr(mod, fname)(*a)
    except Exception as ex:
        return [{'oid': '%s/%s/meta' % (modname, '.'.join(str(x) for x in a[:2])), 'status': 'undecided', 'detail': 'could not read the contract back: %s' % str(ex)[:200]}]


def run_meta_jobs(jobs, workers=12):
    """jobs: [(module name, function name, args)] evaluated in worker processes (reading a contract back means translating the
    function and evaluating its contract once, which is CPU-bound python)"""
    import concurrent.futures
    out = []
    with concurrent.futures.ProcessPoolExecutor(max_workers=workers) as ex:
        for r in ex.map(_meta_job, jobs):
            out += r
    return out


_SPLINE_REPLAY_CACHE = {}


def spline_replay(prop, result, workdir, seed):
    """spline family: the verifier's counterexamples range over symbolic-length arrays and are not concrete problems; the real
    code is instead run on a seeded battery of well-scaled problems for the violated property (native/replay_spline.cpp);
    one battery run per check run (cached)"""
    key = (prop, seed)
    if key not in _SPLINE_REPLAY_CACHE:
        _SPLINE_REPLAY_CACHE[key] = replay_native('replay_spline', [prop, max(1, int(seed))], workdir, timeout=900)
    return _SPLINE_REPLAY_CACHE[key]


def optimizer_replay(prop, result, workdir, seed):
    """optimizer family: seeded battery on the real headers (native/replay_opt.cpp), one run per check run"""
    key = ('opt', prop, seed)
    if key not in _SPLINE_REPLAY_CACHE:
        _SPLINE_REPLAY_CACHE[key] = replay_native('replay_opt', [prop, max(1, int(seed))], workdir, timeout=900)
    return _SPLINE_REPLAY_CACHE[key]


def precondition_chain(prop, cls, method, nparams, D=2, d=0, pins=None, allow=()):
    go = {'focus': d} if d is not None else {}
    """every requires clause of a gradient function is, text for text, a postcondition of update() for the same configuration (so the
    'built spline' it assumes is what C01/C02 prove update() establishes); clauses about the function's own parameters are exempt"""
    rows_u, _, _ = contract_view(prop, Task(cls, 'update', 4, {'DIM': D}, label='meta', gen_options=go))
    have = {txt for kind, label, txt, fv in rows_u if kind == 'ensures'}
    rows_f, _, _ = contract_view(prop, Task(cls, method, nparams, {'DIM': D}, label='meta', gen_options=go, pins=pins or {}))
    missing = []
    n = 0
    for kind, label, txt, fv in rows_f:
        if kind != 'requires' or label.startswith('def_') or label in allow:
            continue
        names = {x.lstrip('@') for x in fv}
        if any(x.startswith('p_') for x in names):
            continue          # about the caller's arguments
        n += 1
        if txt not in have:
            missing.append(label)
    oid = '%s/%s.%s/precondition_established_by_update' % (prop, cls, method)
    return [{'oid': oid, 'status': 'violation' if missing else ('ok' if n else 'undecided'),
             'detail': ('requires clauses that are not postconditions of update(): %s' % missing[:8]) if missing else '%d clauses, each a postcondition of update()' % n}]
