"""C03 -- piecewise-polynomial evaluation is exact, right-continuous and route-independent."""
from common import *

CONTRACT_MODULES = ['ppoly']
LEVEL = 'proof'
TRUSTED = ['std::upper_bound modelled by its postcondition on a sorted range (ISO C++ [upper.bound])']
ASSUMPTIONS = ['breakpoints strictly increasing (DESIGN s4.4); t, hint and coefficients are arbitrary reals/ints',
               'coefficient count enumerated over the configured set (property text: 1..12); segment count symbolic (unbounded)']
UNDECIDED_CLAUSES = ['rounding of t - breakpoint and of the Horner recurrence in IEEE arithmetic (values are compared over the reals)']


def tasks(tier):
    T = []
    for cfg, nc in ppoly_cfgs(tier):
        pins = {'num_coeffs_': nc}
        T.append(Task('PPolyND', 'findSegment', 1, cfg, {}, label=lbl(cfg, None) + ',plain') if nc == ppoly_cfgs(tier)[0][1] or True else None)
        T.append(Task('PPolyND', 'findSegment', 2, cfg, {}, label=lbl(cfg, None) + ',hinted'))
        T.append(Task('PPolyND', 'derivativeFactor', 2, cfg, pins))
        T.append(Task('PPolyND', 'buildDynamicDerivativeFactorTable', 0, cfg, pins))
        T.append(Task('PPolyND', 'ensureDerivativeFactorTable', 0, cfg, pins))
        T.append(Task('PPolyND', 'buildDerivativeCoefficients', 0, cfg, pins))
        for k in orders_for(nc, tier):
            pk = dict(pins)
            pk['p_derivative_order'] = k
            T.append(Task('PPolyND', 'evaluateSegmentHorner', 3, cfg, pk))
            T.append(Task('PPolyND', 'evaluate', cfg=cfg, pins=pk, pred=sig_pred(('double', 'int')), label=Task('a', 'b', cfg=cfg, pins=pk).label + ',plain'))
            T.append(Task('PPolyND', 'evaluate', cfg=cfg, pins=pk, pred=sig_pred(('double', 'int*', 'int')), label=Task('a', 'b', cfg=cfg, pins=pk).label + ',hinted'))
            if tier == 'thorough' or nc <= 6:
                T.append(Task('PPolyND', 'evaluate', cfg=cfg, pins=pk, pred=sig_pred(('vector', 'int')), label=Task('a', 'b', cfg=cfg, pins=pk).label + ',batch'))
            T.append(Task('PPolyND', 'derivative', 1, cfg, pk))
            ps = {'par__num_coeffs_': nc, 'p_derivative_order': k}
            T.append(Task('PPolyND::Segment', 'evaluate', cfg=cfg, pins=ps, pred=sig_pred(('double', 'int')), setup=segment_setup,
                          label=Task('a', 'b', cfg=cfg, pins=pk).label + ',segment'))
    for cfg in ([{'DIM': 2, 'ORDER': None}] if tier == 'quick' else [{'DIM': 1, 'ORDER': None}, {'DIM': 2, 'ORDER': 6}]):
        T.append(Task('PPolyND', 'operator[]', 1, cfg))
        T.append(Task('PPolyND', 'at', 1, cfg, options={'throw_flag': 'thrown'}))
        T.append(Task('PPolyND', 'begin', 0, cfg))
        T.append(Task('PPolyND', 'end', 0, cfg))
        T.append(Task('PPolyND::ConstIterator', 'operator*', 0, cfg, setup=segment_setup))
        T.append(Task('PPolyND::ConstIterator', 'operator++', 0, cfg, setup=segment_setup))
        for mname in ('startTime', 'endTime', 'duration'):
            T.append(Task('PPolyND::Segment', mname, 0, cfg, setup=segment_setup, options={'no_bounds': True}))
        for kd in (0, 1, 2):
            T.append(Task('PPolyND', 'evaluate', cfg=cfg, pins={'num_coeffs_': 4, 'p_type': kd}, pred=sig_pred(('double', 'Deriv')),
                          label=Task('a', 'b', cfg=cfg).label + ',nc=4,Deriv=%d' % kd))
    # findSegment does not depend on the coefficient count: keep one copy per (DIM, ORDER)
    seen, out = set(), []
    for t in T:
        k = (t.method, t.label)
        if k in seen:
            continue
        seen.add(k)
        out.append(t)
    return out


def lbl(cfg, nc):
    return Task('a', 'b', cfg=cfg).label


def replay(result, workdir, seed):
    return ppoly_replay('C03', result, workdir, seed)


def replay_file(path):
    return generic_replay_file(path)
