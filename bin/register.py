#!/usr/bin/env python3
"""register.py <id> <level-text-file or -> : add/replace a check entry in MANIFEST.json and drop it from not_applicable"""
import json, sys
pid, text, note = sys.argv[1], sys.argv[2], sys.argv[3]
technique = sys.argv[4] if len(sys.argv) > 4 else 'function contracts + loop invariants on code extracted from the real header, discharged per obligation by CBMC/SMT'
p = '/verif/MANIFEST.json'
m = json.load(open(p))
m['checks'] = [c for c in m['checks'] if c['property_id'] != pid]
m['checks'].append({
    'property_id': pid, 'quick_cmd': 'bin/check %s --tier quick' % pid, 'thorough_cmd': 'bin/check %s --tier thorough' % pid,
    'evidence_file': '/verif/evidence/%s.json' % pid, 'replay_cmd_template': 'bin/check %s --replay {path}' % pid, 'engine': 'stv',
    'level_claimed': {'category': 'proof', 'text': text, 'design_ref': 's6 %s' % pid}, 'level_note': note, 'technique': technique})
m['not_applicable'] = [x for x in m['not_applicable'] if x['property_id'] != pid]
json.dump(m, open(p, 'w'), indent=1)
print('registered', pid, 'checks:', [c['property_id'] for c in m['checks']])
