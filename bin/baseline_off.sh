#!/bin/bash
# Runs the repository's pinned test suite with the hook guard OFF (no -DSPLINETRAJ_VERIF; there are no hooks anyway)
# from /repo's current working tree in a scratch build directory, and compares with BASELINE.json stable_pass.
exec "$(dirname "$0")/run_suite.sh" /repo
