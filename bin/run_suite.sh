#!/bin/bash
# run_suite.sh <source-dir> [<build-dir>]
# Builds the repository's nine test executables from <source-dir> (cmake/Ninja, Release flags as in its
# CMakeLists.txt, i.e. with the hook guard OFF: nothing defines SPLINETRAJ_VERIF) into <build-dir>
# (default: a fresh mktemp dir that is removed afterwards), runs each once, parses the per-case result lines
# with the baseline's own parser and compares with /root/.vp/BASELINE.json "stable_pass".
# exit 0: every stable_pass case passed.  exit 1: some stable case failed/missing.  exit 2: build failure.
set -u
SRC=${1:?source dir}
OWN=0
if [ $# -ge 2 ]; then B=$2; else B=$(mktemp -d /tmp/suite.XXXXXX); OWN=1; fi
mkdir -p "$B"
cleanup() { [ $OWN = 1 ] && rm -rf "$B"; }
trap cleanup EXIT
TESTS="test_cost_grad test_cubic_spline_vs_minco_nd test_septic_spline_vs_minco_nd test_quintic_spline_vs_minco_nd test_Grad test_with_min_jerk_3d test_bc_grad test_with_min_snap_3d test_ppolyND"
cmake -G Ninja -S "$SRC" -B "$B" -DCMAKE_BUILD_TYPE=Release > "$B/cmake.log" 2>&1 || { tail -20 "$B/cmake.log"; echo "SUITE: cmake failed"; exit 2; }
cmake --build "$B" -j "${SUITE_JOBS:-8}" --target $TESTS > "$B/build.log" 2>&1 || { grep -E "error|Error" "$B/build.log" | head -20; echo "SUITE: build failed"; exit 2; }
: > "$B/test.log"
pids=""
for t in $TESTS; do
  ( cd "$B" && timeout 900 ./$t > "$B/$t.out" 2>&1 < /dev/null; echo "rc=$?" >> "$B/$t.out" ) &
  pids="$pids $!"
done
wait $pids
for t in $TESTS; do
  echo "=== run_bins: $B/$t ===" >> "$B/test.log"; cat "$B/$t.out" >> "$B/test.log"; echo >> "$B/test.log"
done
python3 /w/lib/parse_tests.py --kind lines --run suite --log "$B/test.log" --out "$B/suite.json" > /dev/null 2>&1
python3 - "$B/suite.json" <<'EOF'
import json, sys
d = json.load(open(sys.argv[1])); base = json.load(open('/root/.vp/BASELINE.json'))
passed = set(d.get('passed', [])); failed = set(d.get('failed', []))
stable = set(base['stable_pass'])
missing = sorted(stable - passed)
print("SUITE: passed=%d failed=%d stable_pass=%d stable_missing=%d" % (len(passed), len(failed), len(stable), len(missing)))
for m in missing: print("SUITE: NOT PASSING:", m, "(failed)" if m in failed else "(absent)")
sys.exit(1 if missing else 0)
EOF
