"""Front end: run clang on /repo's headers (current working tree) and load the JSON AST of the class templates.

Nothing is cached across runs: every check re-runs clang on the current header text.  The AST is that of the
*uninstantiated* templates, so one dump serves every (DIM, ORDER, SplineType) configuration.
"""
import json
import os
import subprocess
import sys
import tempfile

REPO = os.environ.get('STV_REPO', '/repo')
EIGEN_INC = '/usr/include/eigen3'

CLASSES = ['BoundaryConditions', 'PPolyND', 'CubicSplineND', 'QuinticSplineND', 'SepticSplineND',
           'QuadInvTimeMap', 'IdentityTimeMap', 'IdentitySpatialMap', 'SplineOptimizer', 'OptimizationFlags',
           'VoidWaypointsCost', 'SerialExecutor']


class ExtractionError(Exception):
    """The extractor met something it has no rule for.  Always exit code 2, never a violation."""
    pass


def _load_multi(txt):
    dec = json.JSONDecoder()
    i = 0
    objs = []
    n = len(txt)
    while i < n:
        while i < n and txt[i].isspace():
            i += 1
        if i >= n:
            break
        o, j = dec.raw_decode(txt, i)
        objs.append(o)
        i = j
    return objs


class Source(object):
    def __init__(self):
        self.files = {}

    def text(self, path):
        if path not in self.files:
            with open(path, 'rb') as f:
                self.files[path] = f.read()
        return self.files[path]


SOURCE = Source()


def dump_class(name, workdir=None):
    """Return the list of top-level AST nodes clang prints for -ast-dump-filter=<name>."""
    workdir = workdir or tempfile.mkdtemp(prefix='stv_ast_')
    tu = os.path.join(workdir, 'tu_%s.cpp' % name)
    with open(tu, 'w') as f:
        f.write('#include "SplineOptimizer.hpp"\n')
    cmd = ['clang++', '-std=c++17', '-fsyntax-only', '-I', os.path.join(REPO, 'include'), '-I', EIGEN_INC,
           '-Xclang', '-ast-dump=json', '-Xclang', '-ast-dump-filter=' + name, tu]
    p = subprocess.run(cmd, stdout=subprocess.PIPE, stderr=subprocess.PIPE)
    if p.returncode != 0:
        raise ExtractionError('clang failed on the header (%s): %s' % (name, p.stderr.decode(errors='replace')[-2000:]))
    objs = _load_multi(p.stdout.decode())
    try:
        os.remove(tu)
    except OSError:
        pass
    return objs


def annotate_files(node, cur=None):
    """clang only prints 'file' when it changes; propagate it so every node knows its file (for source text)."""
    # The JSON dumper elides "file" in loc/range when unchanged from the previously printed location (in dump order).
    state = {'file': cur}

    def visit(n):
        for key in ('loc',):
            loc = n.get(key)
            if isinstance(loc, dict):
                _fix(loc, state)
        rng = n.get('range')
        if isinstance(rng, dict):
            for k in ('begin', 'end'):
                if isinstance(rng.get(k), dict):
                    _fix(rng[k], state)
        for c in n.get('inner', []) or []:
            if isinstance(c, dict):
                visit(c)
    visit(node)


def _fix(loc, state):
    tgt = loc
    if 'expansionLoc' in loc:
        # macro: use expansion location
        for k in ('spellingLoc', 'expansionLoc'):
            sub = loc[k]
            if 'file' in sub:
                state['file'] = sub['file']
            else:
                sub['file'] = state['file']
            if 'line' in sub:
                state['line'] = sub['line']
            else:
                sub['line'] = state.get('line')
        return
    if 'file' in tgt:
        state['file'] = tgt['file']
    elif 'offset' in tgt:
        tgt['file'] = state['file']
    if 'line' in tgt:
        state['line'] = tgt['line']
    elif 'offset' in tgt:
        tgt['line'] = state.get('line')


def src_text(node):
    """exact source text of a node (used for floating literals and for diagnostics)"""
    rng = node.get('range')
    if not rng:
        return None
    b, e = rng.get('begin', {}), rng.get('end', {})
    if 'expansionLoc' in b: b = b['expansionLoc']
    if 'expansionLoc' in e: e = e['expansionLoc']
    if 'offset' not in b or 'offset' not in e or not b.get('file'):
        return None
    data = SOURCE.text(b['file'])
    return data[b['offset']: e['offset'] + e.get('tokLen', 1)].decode(errors='replace')


def where(node):
    rng = node.get('range', {})
    b = rng.get('begin', {})
    if 'expansionLoc' in b: b = b['expansionLoc']
    return '%s:%s' % (os.path.basename(b.get('file') or '?'), b.get('line', '?'))


class ClassInfo(object):
    def __init__(self, name):
        self.name = name
        self.fields = []          # (name, type string, default-init node or None)
        self.aliases = {}         # alias name -> type string
        self.statics = {}         # static constexpr name -> init node
        self.methods = {}         # name -> [decl nodes]
        self.ctors = []
        self.nested = {}          # nested struct/class name -> ClassInfo
        self.tparams = []
        self.node = None

    def method(self, name, nparams=None, pred=None):
        cands = self.methods.get(name, [])
        if nparams is not None:
            sel = [m for m in cands if len(params_of(m)) == nparams]
            # tolerate a changed signature when the name is not overloaded (a refactoring must not read as a tool failure)
            cands = sel if (sel or len(cands) != 1) else cands
        if pred is not None:
            cands = [m for m in cands if pred(m)]
        if len(cands) != 1:
            raise ExtractionError('method %s::%s: %d candidates (nparams=%s)' % (self.name, name, len(cands), nparams))
        return cands[0]


def params_of(m):
    return [c for c in m.get('inner', []) if c.get('kind') == 'ParmVarDecl']


def body_of(m):
    for c in m.get('inner', []):
        if c.get('kind') == 'CompoundStmt':
            return c
    return None


def _record_info(rec, name):
    ci = ClassInfo(name)
    ci.node = rec
    for c in rec.get('inner', []) or []:
        k = c.get('kind')
        if k == 'FieldDecl':
            init = None
            for x in c.get('inner', []) or []:
                init = x
            ci.fields.append((c['name'], c['type']['qualType'], init))
        elif k in ('TypeAliasDecl', 'TypedefDecl'):
            ci.aliases[c['name']] = c['type']['qualType']
        elif k == 'VarDecl':
            init = None
            for x in c.get('inner', []) or []:
                init = x
            ci.statics[c['name']] = (c['type']['qualType'], init)
        elif k == 'CXXMethodDecl':
            if body_of(c) is not None:
                ci.methods.setdefault(c['name'], []).append(c)
        elif k == 'CXXConstructorDecl':
            if not c.get('isImplicit'):
                ci.ctors.append(c)
        elif k == 'FunctionTemplateDecl':
            for x in c.get('inner', []) or []:
                if x.get('kind') == 'CXXMethodDecl' and body_of(x) is not None:
                    x['_template'] = True
                    ci.methods.setdefault(x['name'], []).append(x)
                    break
        elif k == 'CXXRecordDecl' and c.get('completeDefinition') and c.get('name') and not c.get('isImplicit'):
            ci.nested[c['name']] = _record_info(c, c['name'])
    return ci


def load_class(name, workdir=None):
    objs = dump_class(name, workdir)
    best = None
    for o in objs:
        annotate_files(o)
        k = o.get('kind')
        if k == 'ClassTemplateDecl' and o.get('name') == name:
            tparams = [c.get('name') for c in o.get('inner', []) if c.get('kind') in ('NonTypeTemplateParmDecl', 'TemplateTypeParmDecl')]
            for c in o.get('inner', []):
                if c.get('kind') == 'CXXRecordDecl' and c.get('completeDefinition'):
                    best = _record_info(c, name)
                    best.tparams = tparams
                    break
        elif k == 'CXXRecordDecl' and o.get('name') == name and o.get('completeDefinition') and best is None:
            best = _record_info(o, name)
        if best is not None:
            break
    if best is None:
        raise ExtractionError('class %s not found in the AST dump' % name)
    return best


_CACHE = {}


def get_class(name):
    if name not in _CACHE:
        _CACHE[name] = load_class(name)
    return _CACHE[name]


if __name__ == '__main__':
    ci = get_class(sys.argv[1])
    print(ci.name, ci.tparams)
    print('fields', [(f[0], f[1]) for f in ci.fields])
    print('aliases', ci.aliases)
    print('statics', {k: v[0] for k, v in ci.statics.items()})
    print('methods', {k: len(v) for k, v in ci.methods.items()})
    print('ctors', len(ci.ctors), 'nested', list(ci.nested))
