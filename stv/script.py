"""Property scripts: straight-line compositions of the *extracted* functions (inlined, on fresh names) with assumptions and
checks -- used for relational / round-trip / derivative statements about small loop-free functions (time maps, ...)."""
from fractions import Fraction

from expr import E, REAL, INT, BOOL, subst
import ir
from ir import Assign, Assert, Assume, Label, LV
from tr import Translator
from translate_stmt import TranslatedFunction
from values import ScalarVar, Mat
import ad
import cxxast


class Script(object):
    def __init__(self, name, cfg=None, options=None):
        self.name = name
        self.t = Translator(options or {})
        self.body = []
        self.cfg = cfg or {}
        self.k = 0

    def real(self, base='x'):
        self.k += 1
        v = self.t.new_scalar('%s%d' % (base, self.k), REAL, unique=False)
        return v.rd()

    def integer(self, base='n'):
        self.k += 1
        v = self.t.new_scalar('%s%d' % (base, self.k), INT, unique=False)
        return v.rd()

    def assume(self, e, why=''):
        self.body.append(Assume(e, why))

    def check(self, label, e):
        a = Assert(e, label, 'check')
        self.body.append(a)

    def call(self, cls, method, args, nparams=None, cfg=None, seeds=None):
        """inline the extracted method on the given scalar arguments; returns (result, tangent of the result or None)"""
        self.k += 1
        t = self.t
        prefix = 'c%d_' % self.k
        ci = cxxast.get_class(cls)
        m = ci.method(method, nparams)
        saved = t.frames, t.block, t.top_node
        from ctypes_ import TD
        this = t.make_obj(TD('obj', cls=cls, cfg=cfg or self.cfg), prefix)
        from translate import Frame
        fr = Frame('%s.%s' % (cls, method), this, None, t.fresh('end_' + method))
        ps = cxxast.params_of(m)
        seedmap = {}
        pre = []
        for p, a in zip(ps, args):
            a = E.const(a)
            loc = t.new_scalar(prefix + p['name'], a.ty)
            pre.append(Assign(loc.lv(), a))
            fr.scopes[0][p['name']] = loc
            if seeds is not None and p['name'] in seeds:
                seedmap[loc.name] = E.const(seeds[p['name']])
        fr.ret_type = m['type']['qualType'].split('(')[0].strip()
        t.frames = [fr]
        t.block = []
        t.top_node = m
        t.inline_depth = 0
        t.dead = False
        try:
            t.run_body(m, fr)
            if fr.used_goto:
                t.emit(Label(fr.end_label))
            body_stmts = list(t.block)
            stmts = pre + body_stmts
        finally:
            t.frames, t.block, t.top_node = saved
        self.body += stmts
        ret = fr.ret_slot
        res = t.rd(ret) if isinstance(ret, ScalarVar) else ret
        dres = None
        if seeds is not None:
            tan = ad.tangent(body_stmts, seedmap, t.recips)
            if isinstance(ret, ScalarVar):
                dres = tan.get(ret.name, E.const(Fraction(0)))
        return res, dres

    def finish(self):
        fn = TranslatedFunction()
        fn.key = 'script.' + self.name
        fn.cls = None
        fn.cfg = dict(self.cfg)
        fn.this = None
        fn.params = {}
        fn.body = self.body + [Label('fn_end')]
        fn.ret = None
        fn.ns = {}
        fn.globals_s = self.t.globals_s
        fn.globals_a = self.t.globals_a
        fn.notes = list(self.t.notes)
        fn.pins = {}
        fn.locals = {}
        fn.recips = dict(self.t.recips)
        fn.node = {'inner': []}
        return fn


class EmptyContract(object):
    key = 'script'

    def select(self, *a):
        return self

    def spec(self, S):
        S.assigns()
