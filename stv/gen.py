"""Harness generator: function IR + contracts -> loop-free C for CBMC, with a list of named obligations.

Proof rules implemented here (goto-instrument cannot be used: it takes addresses of rationals and crashes):
  function : assume requires; run body; assert each ensures                     (havoc = --nondet-static)
  loop     : assert inv (base); havoc write set; assume inv; if (guard) { body; step; assert inv (step); assume(0); }
  call     : assert callee requires; snapshot; havoc callee assigns; assume callee ensures
  forall   : asserted -> a pre-declared skolem constant; assumed -> instantiated at every term of the function's term
             list (all skolems, pre-drawn loop-havoc values +-1, user terms).  Instantiation only weakens hypotheses.
"""
from fractions import Fraction

from expr import E, INT, REAL, BOOL, Printer, implies, conj, mk_not, ite, to_real, free_vars
import ir
from ir import LV, Assign, If, Loop, Goto, Label, Assert, Assume, Havoc, ArrCopy, MapAssign, CallContract, Comment, Ghost, AssumeForall
from values import *

CTYPE = {REAL: 'real', INT: 'int', BOOL: '_Bool'}


class Quant(object):
    """forall k in [lo, hi): body(k)"""

    def __init__(self, lo, hi, body, inst=None, name='k'):
        self.lo = E.const(lo)
        self.hi = E.const(hi)
        self.body = body
        self.inst = inst      # optional explicit list of terms (E) replacing the global term list
        self.name = name
        self.is_inner = False

    def at(self, t, rest=()):
        """instance at term t; a nested Quant in the body takes its terms from `rest` (skolemisation) """
        t = E.const(t)
        b = self.body(t)
        return implies((self.lo <= t) & (t < self.hi), _inst_body(b, rest))

    def instances(self, terms):
        """all instances over the term list (nested quantifiers: all tuples)"""
        out = []
        probe = self.body(E.var('sk0', INT))
        nested = isinstance(probe, Quant) or (isinstance(probe, (list, tuple)) and any(isinstance(x, Quant) for x in probe))
        for t in terms:
            t = E.const(t)
            g = (self.lo <= t) & (t < self.hi)
            for x in _all_instances(self.body(t), terms):
                out.append(implies(g, x))
        return out

    def depth(self):
        return 1


def _inst_body(b, rest):
    if isinstance(b, Quant):
        if not rest:
            raise ValueError('nested quantifier needs another skolem')
        return b.at(rest[0], rest[1:])
    if isinstance(b, (list, tuple)):
        return conj([_inst_body(x, rest) for x in b])
    return E.const(b)


def _all_instances(b, terms):
    if isinstance(b, Quant):
        b.is_inner = True
        return b.instances(b.inst if b.inst is not None else terms)
    if isinstance(b, (list, tuple)):
        out = []
        plain = []
        for x in b:
            if isinstance(x, Quant):
                x.is_inner = True
                out += x.instances(x.inst if x.inst is not None else terms)
            else:
                plain.append(x)
        if plain:
            out.append(conj_all(plain))
        return out
    return [E.const(b)]


def conj_all(x):
    if isinstance(x, (list, tuple)):
        return conj([conj_all(y) for y in x])
    return E.const(x)


class OldView(object):
    """namespace over the entry snapshot: storage names are prefixed"""

    def __init__(self, spec, prefix):
        self._spec = spec
        self._prefix = prefix
        self._cache = {}

    def __getattr__(self, name):
        return self._spec.wrap(self.get(name))

    def get(self, name):
        if name not in self._cache:
            v = self._spec.ns[name]
            self._cache[name] = self._spec.gen.snapshot_value(v, self._prefix)
        return self._cache[name]


class Spec(object):
    """what a contract's spec() method talks to"""

    def __init__(self, gen, ns, cfg, mode, tag):
        self.gen = gen
        self.ns = ns
        self.cfg = cfg
        self.mode = mode          # 'verify' | 'call'
        self.tag = tag
        self.reqs = []            # (label, E|Quant)
        self.enss = []
        self.assigned = []        # values
        self.loops = {}           # ord -> dict(inv=fn, variant=fn, terms=fn)
        self.user_terms = []
        self.ghosts = {}          # anchor -> fn(G)
        self.old = OldView(self, 'old%s__' % tag)
        self.pins = {}
        self.definitions = []
        self.assumed_nonzero = []

    def wrap(self, v):
        if isinstance(v, ScalarVar) and v.name in self.gen.fn.pins:
            return E.const(self.gen.fn.pins[v.name])
        if isinstance(v, (ScalarVar, CellRef)):
            return v.rd()
        if isinstance(v, EnumV):
            return v.e
        return v

    def __getattr__(self, name):
        ns = self.__dict__.get('ns', {})
        if name in ns:
            return self.wrap(ns[name])
        raise AttributeError(name)

    def v(self, name):
        return self.ns[name]

    def has(self, name):
        return name in self.ns

    def requires(self, e, label=None):
        self.reqs.append((label or 'requires%d' % len(self.reqs), e))

    def ensures(self, e, label=None):
        self.enss.append((label or 'ensures%d' % len(self.enss), e))

    def assigns(self, *vals):
        for v in vals:
            self.assigned.append(v)

    def forall(self, lo, hi, body, inst=None):
        return Quant(lo, hi, body, inst)

    def loop(self, ordinal, inv, variant=None, terms=None, repl=None, local=None):
        self.loops[(ordinal, repl)] = dict(inv=inv, variant=variant, terms=terms, local=local)

    def body_lemma(self, pre, post):
        """loop-free function: (pre ==> post after the body) proved on scalarised memory in an array-free harness; in context
        pre is asserted at entry and post assumed at exit"""
        self.body_lemmas = getattr(self, 'body_lemmas', []) + [(pre, post)]

    def assume_nonzero_divisors_in(self, *fnames):
        self.assumed_nonzero += list(fnames)

    def terms(self, *ts):
        self.user_terms += [E.const(t) for t in ts]

    def ghost(self, anchor, fn):
        self.ghosts.setdefault(anchor, []).append(fn)

    def sk(self, level=0):
        return self.gen.skolem(level)

    def spec_array(self, name, ty=REAL, shared=False):
        """a specification-only array (never assigned by code): returns its accessor.  shared: one array for the function
        and all its callees (a definitional extension over state none of them assigns -- checked for the function)"""
        full = 'SPEC_%s%s' % (name, '' if shared else self.tag)
        self.gen.globals_a[full] = ty
        return (lambda k: E.idx(full, k, ty)), full

    def define_prefix_sum(self, name, n, term):
        """A[0] = 0, A[k+1] = A[k] + term(k) for k in [0,n): a definitional extension (such an array exists for any state,
        provided term(k) only reads state the function does not assign -- checked).  Assumed when verifying the function,
        and handed to callers together with the postcondition that mentions A."""
        acc, full = self.spec_array(name)
        facts = [acc(0).eq(0), self.forall(0, n, lambda k: acc(k + 1).eq(acc(k) + term(k)))]
        self.definitions.append((full, facts))
        for j, f in enumerate(facts):
            if self.mode == 'call':
                self.ensures(f, 'def_%s_%d' % (name, j))
            else:
                self.requires(f, 'def_%s_%d' % (name, j))
        return acc

    def i2r_const(self, c):
        """the conversion of the integer constant c is c"""
        self.requires(E.idx('I2R', c, REAL).eq(Fraction(c)), 'i2r_const_%d' % c)
        self.terms(c)

    def i2r_axioms(self):
        """facts about the exact conversion int -> double (exact and strictly monotone for every 32-bit int)"""
        lo, hi = -(1 << 31), (1 << 31) - 1
        f = lambda k: E.idx('I2R', k, REAL)
        self.gen.globals_a['I2R'] = REAL
        # axioms about a never-written array: facts of the model, available on both sides of a call
        ax = self.ensures if self.mode == 'call' else self.requires
        ax(f(0).eq(0) & f(1).eq(1) & f(-1).eq(-1), 'i2r_0')
        ax(self.forall(lo, hi, lambda a: f(a + 1).eq(f(a) + 1)), 'i2r_succ')
        ax(self.forall(lo, hi + 1, lambda a: self.forall(lo, hi + 1, lambda b: implies(a < b, f(a) < f(b)) & implies(a.eq(b), f(a).eq(f(b))))), 'i2r_monotone')

    def local(self, name):
        """value of a top-level local variable of the function under verification (verify mode, exit ghosts only)"""
        return self.wrap(self.gen.fn.locals[name])

    def fresh_int(self, base='g'):
        return self.gen.fresh_global(base, INT)

    def fresh_real(self, base='g'):
        return self.gen.fresh_global(base, REAL)


class LoopCtx(object):
    def __init__(self, spec, loop):
        self.S = spec
        self.loop = loop
        self.ns = loop.ns
        self.i = E.var(loop.var, INT)

    def __getattr__(self, name):
        ns = self.__dict__.get('ns', {})
        if name in ns:
            return self.S.wrap(ns[name])
        raise AttributeError(name)


class NsCtx(object):
    """names visible at a ghost anchor"""

    def __init__(self, spec, ns):
        self.S = spec
        self.ns = ns

    def __getattr__(self, name):
        ns = self.__dict__.get('ns', {})
        if name in ns:
            return self.S.wrap(ns[name])
        raise AttributeError(name)

    def v(self, name):
        return self.ns[name]


class Obligation(object):
    def __init__(self, oid, kind, label):
        self.oid = oid
        self.kind = kind
        self.label = label
        self.index = None     # 1-based index among __CPROVER_assert calls in the file


class Harness(object):
    def __init__(self):
        self.text = ''
        self.obligations = []
        self.name = ''
        self.assumptions = []
        self.reach_index = None


class GenError(Exception):
    pass


def cstr_short(e):
    from expr import cstr
    t = cstr(e)
    return t if len(t) < 80 else t[:77] + '...'


class Generator(object):
    def __init__(self, fn, contract, contracts, prop, cfgname='', options=None):
        self.fn = fn
        self.contract = contract
        self.contracts = contracts
        self.prop = prop
        self.cfgname = cfgname
        self.opt = options or {}
        self.pr = Printer('real', i2r=self.print_i2r)
        self.uses_i2r = False
        self.reset()

    def reset(self):
        self.lines = []
        self.ind = 1
        self.globals_s = dict(self.fn.globals_s)
        self.globals_a = dict(self.fn.globals_a)
        self.uid = 0
        self.obls = []
        self.skolems = []
        self.terms = []
        self.term_keys = set()
        self.known_terms = getattr(self, 'known_terms', [])
        self.snap_done = set()
        self.assumption_notes = []
        self.dup_guard = {}
        self.section = 0
        self.range_seen_here = set()
        self.assumed_notes = set()
        self.loop_elem = {}
        self.used_lemmas = getattr(self, 'used_lemmas', set())
        self.side_harnesses = []

    # ---------------------------------------------------------------------------------------- low level
    def fresh_global(self, base, ty, array=False):
        self.uid += 1
        name = '%s_g%d' % (base, self.uid)
        if array:
            self.globals_a[name] = ty
        else:
            self.globals_s[name] = ty
        return E.var(name, ty) if not array else name

    def print_i2r(self, e, printer):
        """int -> double conversion of a symbolic int: CBMC cannot convert int variables to rationals, so the conversion
        is the (never assigned) array I2R with the axioms stated by i2r_axioms()"""
        self.uses_i2r = True
        self.globals_a['I2R'] = REAL
        return 'I2R[%s]' % printer.p(e)

    def out(self, s):
        self.lines.append('  ' * self.ind + s)

    def p(self, e):
        return self.pr.p(E.const(e))

    def add_term(self, t):
        t = E.const(t)
        k = t.key()
        if k not in self.term_keys:
            self.term_keys.add(k)
            self.terms.append(t)

    def skolem(self, level=0):
        """one shared skolem constant per quantifier nesting level: every obligation is a separate query and the
        constants are never assigned, so sharing is sound; hypotheses are instantiated at them"""
        name = 'sk%d' % level
        if name not in self.globals_s:
            self.globals_s[name] = INT
        v = E.var(name, INT)
        self.add_term(v)
        return v

    def all_terms(self):
        # pass 2 uses the complete list collected in pass 1
        return self.known_terms if self.known_terms else self.terms

    def emit_assert(self, e, oid, kind, label=''):
        e = E.const(e)
        if e.is_const() and e.cval():
            # trivially true after constant folding: still recorded as discharged-by-construction? no: skip silently
            return
        ob = Obligation(oid, kind, label)
        self.obls.append(ob)
        ob.index = len(self.obls)
        txt = self.p(e)
        if kind in ('post', 'inv_step', 'lemma'):
            # two differently named obligations with the same text at the same place mean a contract bug
            # (typically a late-bound loop variable in a python closure): refuse to count one check twice
            key = (kind, len(self.lines) // 1000000, txt)
            prev = self.dup_guard.get(key)
            import re as _re
            if prev is not None and prev[0] != oid and prev[1] == self.section and _re.sub(r'\d+', '#', prev[0].split('[')[0]) == _re.sub(r'\d+', '#', oid.split('[')[0]):
                raise GenError('obligations %s and %s have identical text: contract bug (closure capture?)' % (prev[0], oid))
            self.dup_guard[key] = (oid, self.section)
        self.out('__CPROVER_assert(%s, "%s");' % (txt, oid.replace('"', "'")))

    def emit_assume(self, e, why=''):
        e = E.const(e)
        if e.is_const() and e.cval():
            return
        self.out('__CPROVER_assume(%s);%s' % (self.p(e), (' /* %s */' % why) if why else ''))

    def assert_prop(self, prop, oid, kind):
        """prop: E or Quant"""
        if isinstance(prop, Quant):
            sk = self.skolem(0)
            b = prop.body(sk)
            if isinstance(b, (list, tuple)) and len(b) > 1 and not any(isinstance(x, Quant) for x in b):
                # one obligation per conjunct of the quantified body: small queries decide, big conjunctions time out
                g = (prop.lo <= sk) & (sk < prop.hi)
                for j, x in enumerate(b):
                    self.emit_assert(implies(g, conj_all(x)), '%s#%d' % (oid, j), kind)
            else:
                self.emit_assert(prop.at(sk, (self.skolem(1), self.skolem(2))), oid, kind)
        elif isinstance(prop, (list, tuple)):
            for j, x in enumerate(prop):
                self.assert_prop(x, '%s.%d' % (oid, j), kind)
        else:
            self.emit_assert(prop, oid, kind)

    def assume_quants_over(self, prop, terms, why):
        if isinstance(prop, Quant):
            seen = set()
            if prop.inst is not None:
                extra = [t for t in terms if t.key() not in set(x.key() for x in self.all_terms())]
                terms = list(prop.inst) + extra
            for inst in prop.instances(terms):
                k = inst.key()
                if k not in seen:
                    seen.add(k)
                    self.emit_assume(inst, why)
        elif isinstance(prop, (list, tuple)):
            for x in prop:
                self.assume_quants_over(x, terms, why)

    def compute_stable_quants(self, spec):
        """quantified requires whose free variables and arrays are never written by the function stay valid everywhere"""
        sc, ar = ir.write_set(self.fn.body)
        assigned = set(sc) | set('@' + a for a in ar)

        def f(st):
            if isinstance(st, CallContract):
                fs, fa = self.call_frame(st)
                assigned.update(fs)
                assigned.update('@' + a for a in fa)
        ir.walk(self.fn.body, f)
        out = []
        for label, prop in spec.reqs:
            for q in _quants_of(prop):
                try:
                    sample = q.at(E.var('sk0', INT), (E.var('sk1', INT), E.var('sk2', INT)))
                except Exception:
                    continue
                fv = free_vars(sample) - {'sk0', 'sk1', 'sk2'}
                if not (fv & assigned):
                    out.append((label, q))
        return out

    def assume_prop(self, prop, why=''):
        if isinstance(prop, Quant):
            ts = prop.inst if prop.inst is not None else self.all_terms()
            seen = set()
            for inst in prop.instances(ts):
                key = inst.key()
                if key in seen:
                    continue
                seen.add(key)
                self.emit_assume(inst, why)
        elif isinstance(prop, (list, tuple)):
            for x in prop:
                self.assume_prop(x, why)
        else:
            self.emit_assume(prop, why)

    # ---------------------------------------------------------------------------------------- snapshots / havoc
    def snapshot_value(self, v, prefix):
        """returns a value of the same shape over storage names prefixed with `prefix` (declared here);
        the copy statements are emitted by do_snapshot"""
        if isinstance(v, Obj):
            o = Obj(v.cls, v.cfg, prefix + v.prefix, {k: self.snapshot_value(x, prefix) for k, x in v.fields.items()})
            return o
        if hasattr(v, 'renamed') and hasattr(v, 'name'):
            nv = v.renamed(prefix + v.name)
            st = nv.storage()
            for n, t in st[0]:
                self.globals_s[n] = t
            for n, t in st[1]:
                self.globals_a[n] = t
            return nv
        return v

    def do_snapshot(self, vals, prefix):
        for v in vals:
            st = storage_of(v)
            if not st:
                continue
            for n, t in st[0]:
                self.globals_s[prefix + n] = t
                self.out('%s = %s;' % (prefix + n, n))
            for n, t in st[1]:
                self.globals_a[prefix + n] = t
                self.out('__CPROVER_array_copy(%s, %s);' % (prefix + n, n))

    def havoc_names(self, scalars, arrays, loopvar=None, loopvar_h=None, record=None):
        for n, t in scalars:
            if n == loopvar and loopvar_h is not None:
                self.out('%s = %s;' % (n, self.p(loopvar_h)))
                continue
            h = self.fresh_global('hv', t)
            if record is not None:
                record[n] = h
            self.out('%s = %s;' % (n, self.p(h)))
        for n, t in arrays:
            h = self.fresh_global('HA', t, array=True)
            self.out('__CPROVER_array_copy(%s, %s);' % (n, h))

    # ---------------------------------------------------------------------------------------- statements
    def stmts(self, block, spec):
        for s in block:
            self.stmt(s, spec)

    def lv_c(self, lv):
        if lv.index is None:
            return lv.name
        return '%s[%s]' % (lv.name, self.p(lv.index))

    # ---- absence of int overflow in the extracted code (what makes the Int reading of C ints exact)
    def long_expr(self, e):
        """C text computing the int expression e in 64-bit arithmetic (exact for 32-bit operands)"""
        if e.op == 'const':
            return '%dL' % int(e.args[0]) if int(e.args[0]) >= 0 else '(%dL)' % int(e.args[0])
        if e.op in ('var', 'idx'):
            return '((long)%s)' % self.p(e)
        if e.op == 'neg':
            return '(-%s)' % self.long_expr(e.args[0])
        if e.op in ('+', '-', '*'):
            return '(%s %s %s)' % (self.long_expr(e.args[0]), e.op, self.long_expr(e.args[1]))
        if e.op == 'ite':
            return '(%s ? %s : %s)' % (self.p(e.args[0]), self.long_expr(e.args[1]), self.long_expr(e.args[2]))
        return '((long)%s)' % self.p(e)

    def int_ranges(self, e, guard_txt=None):
        """one obligation per maximal int arithmetic subexpression of a code expression"""
        if not isinstance(e, E) or self.opt.get('skip_int_range'):
            return
        def walk(x, top):
            if x.op in ('const', 'var'):
                return
            if x.ty == INT and x.op in ('+', '-', '*', 'neg'):
                if top:
                    self.emit_int_range(x)
                for a in x.args:
                    walk(a, False)
                # sub-terms of an in-range sum need their own check (a*b+c in range does not bound a*b)
                for a in x.args:
                    if isinstance(a, E) and a.ty == INT and a.op in ('+', '-', '*', 'neg'):
                        self.emit_int_range(a)
                return
            for a in x.args:
                if isinstance(a, E):
                    walk(a, True)
        walk(e, True)

    def emit_int_range(self, x):
        txt = self.long_expr(x)
        key = (len(self.lines), txt)
        if txt in self.range_seen_here:
            return
        self.range_seen_here.add(txt)
        ob = Obligation('%s/%s/int_range.%d[%s]' % (self.prop, self.fn.key, len(self.obls) + 1, self.cfgname), 'int_range', 'no signed overflow in ' + cstr_short(x))
        self.obls.append(ob)
        ob.index = len(self.obls)
        self.out('__CPROVER_assert((%s >= (-2147483648L)) && (%s <= 2147483647L), "int_range");' % (txt, txt))

    def stmt(self, s, spec):
        self.range_seen_here = set()
        if isinstance(s, Assign):
            self.int_ranges(s.e)
            if s.lv.index is not None:
                self.int_ranges(s.lv.index)
            self.out('%s = %s;' % (self.lv_c(s.lv), self.p(s.e)))
        elif isinstance(s, If):
            self.int_ranges(s.c)
            self.out('if (%s) {' % self.p(s.c))
            self.ind += 1
            self.stmts(s.then, spec)
            self.ind -= 1
            if s.els:
                self.out('} else {')
                self.ind += 1
                self.stmts(s.els, spec)
                self.ind -= 1
            self.out('}')
        elif isinstance(s, Goto):
            self.out('goto %s;' % s.label)
        elif isinstance(s, Label):
            self.out('%s: ;' % s.label)
        elif isinstance(s, Assert):
            if s.kind == 'bounds' and self.opt.get('skip_bounds'):
                return
            if s.kind == 'div' and any(getattr(s, 'fname', '').endswith(x) for x in spec.assumed_nonzero):
                # stated assumption (DESIGN s4.3): the pivot blocks of the MINCO system are non-singular
                self.emit_assume(s.e, 'ASSUMED non-singular pivot (%s)' % s.label)
                self.assumed_notes.add('non-singular pivot blocks: divisions in %s assumed well-defined' % getattr(s, 'fname', '?'))
                return
            if s.kind == 'check':
                oid = '%s/%s/%s[%s]' % (self.prop, self.fn.key, s.label, self.cfgname)
            else:
                oid = '%s/%s/%s.%d[%s]' % (self.prop, self.fn.key, s.kind, len(self.obls) + 1, self.cfgname)
            self.emit_assert(s.e, oid, s.kind, s.label)
        elif isinstance(s, Assume):
            self.emit_assume(s.e, s.why)
        elif isinstance(s, AssumeForall):
            self.assume_prop(Quant(s.lo, s.hi, s.body), s.why)
        elif isinstance(s, Havoc):
            self.havoc_names(s.scalars, s.arrays)
        elif isinstance(s, ArrCopy):
            self.out('__CPROVER_array_copy(%s, %s);' % (s.dst, s.src))
            if self.opt.get('finite_ghosts') and s.ty == REAL:
                self.globals_a[s.dst + '__fin'] = BOOL
                self.globals_a[s.src + '__fin'] = BOOL
                self.out('__CPROVER_array_copy(%s__fin, %s__fin);' % (s.dst, s.src))
        elif isinstance(s, MapAssign):
            self.map_assign(s)
        elif isinstance(s, Loop):
            self.loop(s, spec)
        elif isinstance(s, CallContract):
            self.call(s, spec)
        elif isinstance(s, Ghost) and (s.name.endswith('.body_begin') or s.name.endswith('.body_end')):
            cl = getattr(self, 'cur_loop', None)
            if cl is not None and s.name.startswith('loop%s.' % cl[1].key[1]):
                for fnc in cl[0].ghosts.get(s.name, []):
                    fnc(GhostCtx(self, cl[2]))
        elif isinstance(s, Ghost):
            if (s.name.endswith('.after') or s.name.endswith('.before') or getattr(s, 'custom', False)) and getattr(s, 'fname', None) == self.fn.key:
                for fnc in spec.ghosts.get(s.name, []):
                    fnc(GhostCtx(self, NsCtx(spec, s.ns)))
        elif isinstance(s, Comment):
            self.out('/* %s */' % s.text)
        else:
            raise GenError('no emission rule for %s' % type(s).__name__)

    def map_assign(self, s):
        """cells[j][off_j + r] = rhs_j(r) for r in [lo,hi): snapshot, havoc, instantiate the defining fact at every term"""
        olds = {}
        for arr, ty, off in s.cells:
            if arr not in olds:
                o = self.fresh_global('MO', ty, array=True)
                olds[arr] = o
                self.out('__CPROVER_array_copy(%s, %s);' % (o, arr))
        for arr in olds:
            h = self.fresh_global('HA', self.globals_a.get(arr, REAL), array=True)
            self.out('__CPROVER_array_copy(%s, %s);' % (arr, h))
        from expr import subst
        ren = {'@' + a: o for a, o in olds.items()} if not getattr(s, 'recurrence', False) else {}
        for t in self.all_terms():
            # t as row index r
            inr = (s.lo <= t) & (t < s.hi)
            for (arr, ty, off), f in zip(s.cells, s.rhs):
                val = subst(E.const(f(t)), ren)
                cell = E.idx(arr, off + t, ty)
                self.emit_assume(implies(inr, cell.eq(val)), 'bulk assignment row')
            # t as absolute cell index: untouched cells keep their value
            for arr, ty, off in s.cells:
                outside = mk_not((off + s.lo <= t) & (t < off + s.hi))
                self.emit_assume(implies(outside, E.idx(arr, t, ty).eq(E.idx(olds[arr], t, ty))), 'bulk assignment frame')

    # ---------------------------------------------------------------------------------------- loops
    def loop_spec(self, lp, spec):
        fname, ordinal, repl = lp.key
        owner = spec
        if fname != self.fn.key:
            c = self.contracts.get(fname)
            if c is None:
                raise GenError('loop %s of inlined function %s has no contract' % (ordinal, fname))
            owner = Spec(self, lp.ns, spec.cfg, 'loop', '')
            c = c.select(lp.fn_node, len(lp.fn_params)) if hasattr(lp, 'fn_node') else c
            c.spec(owner)
        for k in ((ordinal, repl), (ordinal, None)):
            if k in owner.loops:
                return owner.loops[k], owner
        raise GenError('no loop contract for loop %s (replication %s) of %s at %s' % (ordinal, repl, fname, lp.src))

    def loop(self, lp, spec):
        ls, owner = self.loop_spec(lp, spec)
        L = LoopCtx(owner, lp)
        lid = 'loop%s%s' % (lp.key[1], ''.join('_%s' % (r[1],) for r in lp.key[2] if r[1] != 'sym'))
        base_id = '%s/%s/%s' % (self.prop, lp.key[0], lid)
        # pre-drawn havoc value of the loop variable, usable as an instantiation term everywhere
        h = self.fresh_global('h_' + lp.var, INT)
        self.add_term(h)
        invs = ls['inv'](L)
        if ls.get('terms'):
            late0 = [E.const(t) for t in ls['terms'](L)]
            pool0 = list(self.all_terms()) + late0
            for label, prop in self.stable_quants:
                self.assume_quants_over(prop, pool0, 'requires %s (loop terms, entry)' % label)
        self.out('/* ---- loop %s (%s) : base */' % (lid, lp.src))
        for j, (label, prop) in enumerate(invs):
            boid = '%s.base.%s[%s]' % (base_id, label, self.cfgname)
            if isinstance(prop, Quant) and getattr(lp, 'init', None) is not None and not _is_nested(prop):
                # a range that is empty or a single element on entry is stated for that element itself (with the loop variable
                # replaced by its initial value, so that index terms match the code before the loop syntactically)
                from expr import subst as _subst
                m = {lp.var: E.const(lp.init)}
                lo0, hi0 = _subst(prop.lo, m), _subst(prop.hi, m)
                width = hi0 - lo0
                if width.is_const() and int(width.cval()) <= 1:
                    if int(width.cval()) == 1:
                        b0 = prop.body(lo0)
                        items = b0 if isinstance(b0, (list, tuple)) else [b0]
                        for jj, x in enumerate(items):
                            self.emit_assert(_subst(conj_all(x), m), '%s.single#%d' % (boid, jj), 'inv_base')
                    continue
            self.assert_prop(prop, boid, 'inv_base')
        sc, ar = ir.write_set([lp])
        sc, ar = self.expand_frames(lp, sc, ar)
        self.out('/* ---- loop %s : havoc write set */' % lid)
        self.havoc_names(sorted(sc.items()), sorted(ar.items()), loopvar=lp.var, loopvar_h=h)
        for label, prop in invs:
            self.assume_prop(prop, 'inv ' + label)
        if ls.get('terms'):
            # late terms of this loop: meaningful from the loop head on (they may mention locals assigned before the loop)
            late = [E.const(t) for t in ls['terms'](L)]
            pool = list(self.all_terms()) + late
            for label, prop in invs:
                self.assume_quants_over(prop, pool, 'inv %s (loop terms)' % label)
            for label, prop in self.stable_quants:
                self.assume_quants_over(prop, pool, 'requires %s (loop terms)' % label)
        variant0 = None
        self.range_seen_here = set()
        self.int_ranges(lp.cond)
        self.out('if (%s) {' % self.p(lp.cond))
        self.ind += 1
        if ls.get('variant'):
            variant0 = self.fresh_global('var0', INT)
            self.out('%s = %s;' % (self.p(variant0), self.p(ls['variant'](L))))
        # bounds of the quantified invariants before the iteration (to separate old elements from the new one at the step)
        old_bounds = {}
        old_shapes = {}
        for label, prop in invs:
            if isinstance(prop, Quant):
                lo_o = self.fresh_global('lo_old', INT)
                hi_o = self.fresh_global('hi_old', INT)
                self.out('%s = %s; %s = %s;' % (self.p(lo_o), self.p(prop.lo), self.p(hi_o), self.p(prop.hi)))
                old_bounds[label] = (lo_o, hi_o)
                iv = E.var(lp.var, INT)
                shape = ('i+1' if prop.lo.key() == (iv + 1).key() else None, 'i' if prop.hi.key() == iv.key() else None)
                old_shapes[label] = shape
        self.cur_loop = (owner, lp, L)
        if ls.get('local'):
            # names for values at the start of the iteration (fresh, never-assigned spec scalars; this point is passed once per path)
            for nvar, nval in ls['local'].get('names', lambda LL: [])(L):
                self.emit_assume(nvar.eq(nval), 'name for the value at the start of the iteration')
            # the hypotheses of the local iteration lemma must hold here, at the start of the iteration, in context
            for lab, pfact in ls['local']['pre'](L):
                self.emit_assert(pfact, '%s.local_pre.%s[%s]' % (base_id, lab, self.cfgname), 'inv_step')
            if ls['local'].get('cases'):
                from expr import disj
                self.emit_assert(disj([c(L) for _, c in ls['local']['cases']]), '%s.local_cases_cover[%s]' % (base_id, self.cfgname), 'inv_step')
        self.stmts(lp.body, spec)
        if ls.get('local'):
            pre = ls['local']['pre'](L)
            # in the array-free harness the names are hypotheses (they are definitions of fresh scalars, assumed in context above)
            pre = list(pre) + [('name_%d' % jn, nvar.eq(nval)) for jn, (nvar, nval) in enumerate(ls['local'].get('names', lambda LL: [])(L))]
            Lend = LoopCtx(owner, lp)
            Lend.ns = getattr(lp, 'ns_end', lp.ns)
            post = ls['local']['post'](Lend)
            cases = ls['local'].get('cases')
            if cases:
                # case analysis: one array-free harness per case (case condition added to the hypotheses, optional calc steps first);
                # the cases must cover: asserted in context at the start of the iteration
                conds = [c(L) for _, c in cases]
                for (cname, cfn) in cases:
                    steps = ls['local'].get('steps', lambda LL, cn: [])(Lend, cname)
                    lh = local_iteration_harness(self, lp, L, pre + [('case_' + cname, cfn(L))], list(steps) + list(post), self.prop, self.cfgname + ',' + cname)
                    if not any(x.name == lh.name for x in self.side_harnesses):
                        self.side_harnesses.append(lh)
                self.pending_case_cover = (base_id, conds)
            else:
                lh = local_iteration_harness(self, lp, L, pre, post, self.prop, self.cfgname)
                if not any(x.name == lh.name for x in self.side_harnesses):
                    self.side_harnesses.append(lh)
            # the facts are stated about a ghost copy of the loop variable, so that the step obligations for the new element
            # can mention the very same terms
            elem = self.fresh_global('elem', INT)
            self.out('%s = %s;' % (self.p(elem), lp.var))
            self.loop_elem[lp.var] = elem
            from expr import subst as _subst
            for lab, pfact in post:
                self.emit_assume(_subst(E.const(pfact), {lp.var: elem}), 'local iteration lemma ' + lab)
        self.stmts(lp.step, spec)
        invs2 = ls['inv'](L)
        self.section += 1
        for label, prop in invs2:
            oid = '%s.step.%s[%s]' % (base_id, label, self.cfgname)
            if isinstance(prop, Quant) and label in old_bounds and not _is_nested(prop):
                self.cur_loop_var = lp.var
                self.cur_pre_bounds = {id(prop): old_shapes.get(label)}
                self.assert_quant_step(prop, old_bounds[label], oid)
            else:
                self.assert_prop(prop, oid, 'inv_step')
        if variant0 is not None:
            v1 = ls['variant'](L)
            self.emit_assert((variant0 >= 0) & (E.const(v1) < variant0), '%s.decreases[%s]' % (base_id, self.cfgname), 'variant')
        self.out('__CPROVER_assume(0);')
        self.ind -= 1
        self.out('}')
        self.out('/* ---- loop %s : exit */' % lid)

    def assert_quant_step(self, q, old, oid):
        """forall k in [lo',hi'): B(k)  split into: elements that were already in the old range (skolem), the new top element,
        the new bottom element, and the (integer-only) coverage fact.  The new elements are stated without a skolem, so they
        match the facts established by the body syntactically."""
        lo_o, hi_o = old
        elem = self.loop_elem.get(getattr(self, 'cur_loop_var', None))
        top_e, bot_e = hi_o, lo_o - 1
        if elem is not None:
            # when the range is [.., i) or (i, ..] in the pre-step loop variable, the new element is the ghost copy of i
            pre = getattr(self, 'cur_pre_bounds', {}).get(id(q))
            if pre is not None:
                if pre[1] == 'i':
                    top_e = elem
                if pre[0] == 'i+1':
                    bot_e = elem
        sk = self.skolem(0)
        in_new = lambda t: (q.lo <= t) & (t < q.hi)
        in_old = lambda t: (lo_o <= t) & (t < hi_o)

        def each(guard, t, tag):
            b = q.body(t)
            items = b if isinstance(b, (list, tuple)) else [b]
            for j, x in enumerate(items):
                self.emit_assert(implies(guard, conj_all(x)), '%s.%s#%d' % (oid, tag, j), 'inv_step')
        each(in_new(sk) & in_old(sk), sk, 'kept')
        each(in_new(top_e) & mk_not(in_old(top_e)), top_e, 'new_top')
        each(in_new(bot_e) & mk_not(in_old(bot_e)), bot_e, 'new_bottom')
        self.emit_assert(implies(in_new(sk), in_old(sk) | sk.eq(top_e) | sk.eq(bot_e)), '%s.coverage' % oid, 'inv_step')

    def run_ghosts(self, owner, lp, anchor, L):
        for key in ('loop%s.%s' % (lp.key[1], anchor),):
            for fn in owner.ghosts.get(key, []):
                fn(GhostCtx(self, L))

    def expand_frames(self, lp, sc, ar):
        """add the frames of contract calls inside the loop"""
        def f(s):
            if isinstance(s, CallContract):
                fs, fa = self.call_frame(s)
                sc.update(fs)
                ar.update(fa)
        ir.walk([lp], f)
        return sc, ar

    # ---------------------------------------------------------------------------------------- calls
    def call_spec(self, cc):
        self.uid += 1
        cs = Spec(self, cc.binding, cc.cfg, 'call', '_c%d' % self.uid)
        cc.contract.spec(cs)
        return cs

    def call_frame(self, cc):
        cs = Spec(self, cc.binding, cc.cfg, 'call', '_cf')
        cc.contract.spec(cs)
        sc, ar = {}, {}
        vals = list(cs.assigned)
        if cc.ret is not None:
            vals.append(cc.ret)
        for v in vals:
            st = storage_of(v)
            if st:
                sc.update(dict(st[0]))
                ar.update(dict(st[1]))
        return sc, ar

    def call(self, cc, spec):
        cs = self.call_spec(cc)
        site = cc.site
        self.out('/* ---- call by contract: %s */' % site)
        g = cc.guard
        for label, prop in cs.reqs:
            oid = '%s/%s/call(%s).pre.%s[%s]' % (self.prop, self.fn.key, site, label, self.cfgname)
            if isinstance(prop, Quant):
                self.emit_assert(implies(g, prop.at(self.skolem(0), (self.skolem(1), self.skolem(2)))), oid, 'call_pre')
            else:
                self.emit_assert(implies(g, conj_all(prop)), oid, 'call_pre')
        vals = list(cs.assigned)
        self.do_snapshot(vals, cs.old._prefix)
        if cc.ret is not None:
            vals.append(cc.ret)
        sc, ar = {}, {}
        for v in vals:
            st = storage_of(v)
            if st:
                sc.update(dict(st[0]))
                ar.update(dict(st[1]))
        drawn = {}
        self.havoc_names(sorted(sc.items()), sorted(ar.items()), record=drawn)
        for label, prop in cs.enss:
            self.assume_prop(prop, 'callee ensures ' + label)
        # terms named by the callee in call mode are *late* terms: they are meaningful from here on.  The callee's
        # quantified ensures and every frame-stable quantified hypothesis of the function are instantiated at them now.
        late = list(cs.user_terms)
        if late:
            pool = list(self.all_terms()) + late
            for label, prop in cs.enss:
                self.assume_quants_over(prop, pool, 'callee ensures %s (late terms)' % label)
            for label, prop in self.stable_quants:
                self.assume_quants_over(prop, pool, 'requires %s (late terms)' % label)

    # ---------------------------------------------------------------------------------------- top level
    def generate(self):
        """two passes: the first collects the instantiation terms, the second emits with the complete list"""
        self.known_terms = []
        self._generate()
        self.known_terms = list(self.terms)
        self.reset()
        return self._generate()

    def _generate(self):
        fn = self.fn
        spec = Spec(self, fn.ns, fn.cfg, 'verify', '')
        self.contract.spec(spec)
        self.last_spec = spec
        for t in spec.user_terms:
            self.add_term(t)
        self.stable_quants = self.compute_stable_quants(spec)
        self.ind = 1
        # requires
        self.out('/* ---- configuration pins (finite enumeration of a runtime parameter) */')
        for n, val in sorted(fn.pins.items()):
            if n not in self.globals_s:
                continue        # pinned at translation time (e.g. nullness of a pointer parameter): no storage
            ty = self.globals_s.get(n, INT)
            self.emit_assume(E.var(n, ty).eq(val), 'pin')
        self.out('/* ---- requires */')
        for label, prop in spec.reqs:
            self.assume_prop(prop, 'requires ' + label)
        # entry snapshot of everything the function may assign (for old())
        self.do_snapshot(spec.assigned, spec.old._prefix)
        for fnc in spec.ghosts.get('entry', []):
            fnc(GhostCtx(self, spec))
        self.emit_reach = True
        body_lemmas = getattr(spec, 'body_lemmas', [])
        for jl, (bpre, bpost) in enumerate(body_lemmas):
            for lab, pf in bpre:
                self.emit_assert(pf, '%s/%s/body_lemma%d.pre.%s[%s]' % (self.prop, fn.key, jl, lab, self.cfgname), 'lemma')
        self.out('/* ---- body of %s */' % fn.key)
        self.stmts(fn.body, spec)
        for jl, (bpre, bpost) in enumerate(body_lemmas):
            # the whole (loop-free) body on scalarised memory
            flags = []

            def bad(st):
                if isinstance(st, (Loop, CallContract)):
                    flags.append(st)
            ir.walk(fn.body, bad)
            if flags:
                # the body is no longer straight-line (e.g. it now calls other functions): the postconditions are left to the
                # in-context obligations, without the help of the array-free lemma
                self.out('/* body lemma not applicable: the body contains loops or calls */')
                continue
            fake = Loop((fn.key, 'body%d' % jl, ()), '__nobody__', E.const(True), [], fn.body, src='whole body of ' + fn.key)
            fake.whole_body = True
            fake.ns = fn.ns
            lh = local_iteration_harness(self, fake, None, list(bpre), list(bpost), self.prop, self.cfgname)
            if not any(x.name == lh.name for x in self.side_harnesses):
                self.side_harnesses.append(lh)
            for lab, pf in bpost:
                self.emit_assume(pf, 'body lemma ' + lab)
        for fnc in spec.ghosts.get('exit', []):
            fnc(GhostCtx(self, spec))
        self.section += 1
        self.out('/* ---- ensures */')
        for label, prop in spec.enss:
            self.assert_prop(prop, '%s/%s/post.%s[%s]' % (self.prop, fn.key, label, self.cfgname), 'post')
        # reachability (vacuity guard): must be REFUTED
        self.obls.append(Obligation('%s/%s/reach[%s]' % (self.prop, fn.key, self.cfgname), 'reach', 'end of function reachable'))
        self.obls[-1].index = len(self.obls)
        self.out('__CPROVER_assert(0, "reach");')
        frame_problems = self.check_frame(spec)
        self.check_terms()
        self.check_definitions(spec)
        h = Harness()
        h.obligations = self.obls
        h.text = self.render()
        h.frame_problems = frame_problems
        h.assumed = sorted(self.assumed_notes)
        h.used_lemmas = sorted(self.used_lemmas)
        h.side_harnesses = list(self.side_harnesses)
        h.name = '%s[%s]' % (fn.key, self.cfgname)
        return h

    def check_frame(self, spec):
        """syntactic frame: every member/parameter storage written by the body must be covered by assigns"""
        allowed_s, allowed_a = set(), set()
        for v in spec.assigned:
            st = storage_of(v)
            if st:
                allowed_s.update(n for n, _ in st[0])
                allowed_a.update(n for n, _ in st[1])
        owned_s, owned_a = set(), set()
        for name, v in self.fn.ns.items():
            if name == 'result':
                continue
            st = storage_of(v)
            if st:
                owned_s.update(n for n, _ in st[0])
                owned_a.update(n for n, _ in st[1])
        sc, ar = ir.write_set(self.fn.body)

        def f(s):
            if isinstance(s, CallContract):
                fs, fa = self.call_frame(s)
                sc.update(fs)
                ar.update(fa)
        ir.walk(self.fn.body, f)
        bad = [n for n in sc if n in owned_s and n not in allowed_s] + [n for n in ar if n in owned_a and n not in allowed_a]
        return sorted(bad)

    def check_definitions(self, spec):
        sc, ar = ir.write_set(self.fn.body)
        assigned = set(sc) | set('@' + a for a in ar)

        def f(st):
            if isinstance(st, CallContract):
                fs, fa = self.call_frame(st)
                assigned.update(fs)
                assigned.update('@' + a for a in fa)
        ir.walk(self.fn.body, f)
        for full, facts in spec.definitions:
            for q in facts:
                sample = q.at(E.var('sk0', INT), (E.var('sk1', INT),)) if isinstance(q, Quant) else E.const(q)
                fv = free_vars(sample) - {'sk0', 'sk1', '@' + full}
                bad = fv & assigned
                if bad:
                    raise GenError('specification array %s is defined over state the function assigns: %s' % (full, sorted(bad)))

    def check_terms(self):
        """instantiation terms must denote the same value at every program point: no assigned scalar may occur"""
        sc, _ = ir.write_set(self.fn.body)
        assigned = set(sc)
        def f(st):
            if isinstance(st, CallContract):
                fs, _fa = self.call_frame(st)
                assigned.update(fs)
        ir.walk(self.fn.body, f)
        for t in self.terms:
            bad = [v for v in free_vars(t) if v in assigned]
            if bad:
                raise GenError('instantiation term %s mentions assigned variable(s) %s' % (self.p(t), bad))

    def render(self):
        import re as _re
        body_txt = '\n'.join(self.lines)
        for m in _re.finditer(r'\b(\w+__fin)\b(\[)?', body_txt):
            n = m.group(1)
            if m.group(2):
                if n not in self.globals_a:
                    self.globals_a[n] = BOOL
            elif n not in self.globals_s and n not in self.globals_a:
                self.globals_s[n] = BOOL
        L = []
        L.append('/* generated by /verif/stv/gen.py -- do not edit.  harness for %s [%s] */' % (self.fn.key, self.cfgname))
        L.append('typedef __CPROVER_rational real;')
        for n in sorted(self.pr.consts):
            L.append('real %s;' % n)
        for n, t in sorted(self.globals_s.items()):
            L.append('%s %s;' % (CTYPE[t], n))
        for n, t in sorted(self.globals_a.items()):
            L.append('%s %s[__CPROVER_constant_infinity_uint];' % (CTYPE[t], n))
        L.append('int main(void) {')
        for n, fr in sorted(self.pr.consts.items()):
            L.append('  __CPROVER_assume(%s * %d == %d);' % (n, fr.denominator, fr.numerator))
        L += self.lines
        L.append('  return 0;')
        L.append('}')
        return '\n'.join(L) + '\n'


def _is_nested(q):
    try:
        b = q.body(E.var('sk0', INT))
    except Exception:
        return True
    return isinstance(b, Quant) or (isinstance(b, (list, tuple)) and any(isinstance(x, Quant) for x in b))


def _quants_of(prop):
    if isinstance(prop, Quant):
        return [prop]
    if isinstance(prop, (list, tuple)):
        out = []
        for x in prop:
            out += _quants_of(x)
        return out
    return []


def lemma_harness(lemma, prop):
    """stand-alone harness of a pure lemma"""
    pr = Printer('real')
    names = ['a%d' % i for i in range(lemma.nparams)]
    args = [E.var(n, REAL) for n in names]
    hyp = pr.p(E.const(lemma.hyp(*args)))
    con = pr.p(E.const(lemma.concl(*args)))
    L = ['/* pure lemma %s */' % lemma.name, 'typedef __CPROVER_rational real;']
    for n in sorted(pr.consts):
        L.append('real %s;' % n)
    for n in names:
        L.append('real %s;' % n)
    L.append('int main(void) {')
    for n, fr in sorted(pr.consts.items()):
        L.append('  __CPROVER_assume(%s * %d == %d);' % (n, fr.denominator, fr.numerator))
    L.append('  __CPROVER_assume(%s);' % hyp)
    L.append('  __CPROVER_assert(%s, "lemma");' % con)
    L.append('  __CPROVER_assert(0, "reach");')
    L.append('  return 0;\n}')
    h = Harness()
    h.text = '\n'.join(L) + '\n'
    h.name = 'lemma.%s' % lemma.name
    o1 = Obligation('%s/lemma/%s' % (prop, lemma.name), 'lemma', 'pure lemma')
    o1.index = 1
    o2 = Obligation('%s/lemma/%s/reach' % (prop, lemma.name), 'reach', 'hypotheses satisfiable')
    o2.index = 2
    h.obligations = [o1, o2]
    h.frame_problems = []
    return h


class GhostCtx(object):
    """ghost code helper: assign ghost variables / snapshot arrays / assert-then-assume lemma steps"""

    def __init__(self, gen, ctx):
        self.gen = gen
        self.ctx = ctx

    def set(self, lv, e):
        self.gen.out('%s = %s;' % (self.gen.lv_c(lv), self.gen.p(e)))

    def copy_array(self, dst, src):
        self.gen.out('__CPROVER_array_copy(%s, %s);' % (dst, src))

    def lemma(self, e, name):
        oid = '%s/%s/lemma.%s[%s]' % (self.gen.prop, self.gen.fn.key, name, self.gen.cfgname)
        self.gen.emit_assert(e, oid, 'lemma')
        self.gen.emit_assume(e, 'lemma ' + name)

    def assume_fact(self, prop, why):
        self.gen.assume_prop(prop, why)

    def havoc(self, scalars=(), arrays=()):
        """forget the values of program variables / arrays (abstraction step; what is re-assumed afterwards must have been proved)"""
        self.gen.havoc_names(list(scalars), list(arrays))

    def induction(self, lo, hi, P, name):
        """mathematical induction at one program point: P(lo);  lo <= k < hi-1 and P(k) ==> P(k+1);  hence forall k in [lo,hi): P(k),
        which is then available as a quantified fact"""
        g = self.gen
        sk = g.skolem(0)
        lo, hi = E.const(lo), E.const(hi)
        base = '%s/%s/induction.%s' % (g.prop, g.fn.key, name)
        g.emit_assert(implies(lo < hi, conj_all(P(lo))), '%s.base[%s]' % (base, g.cfgname), 'lemma')
        g.emit_assert(implies((lo <= sk) & (sk + 1 < hi) & conj_all(P(sk)), conj_all(P(sk + 1))), '%s.step[%s]' % (base, g.cfgname), 'lemma')
        g.assume_prop(Quant(lo, hi, P), 'induction ' + name)

    def abstract_lemma(self, name, hyps, concls):
        """(hyps ==> concls) proved in an array-free harness in which every distinct array-cell term is an independent scalar
        (a generalisation: cells that may coincide are treated as unrelated, which only weakens the hypotheses).  In context
        the hypotheses are asserted (they match the instantiated invariants syntactically) and the conclusions assumed."""
        g = self.gen
        hyps = [E.const(h) for h in hyps]
        concls = [E.const(c) for c in concls]
        lh = abstract_lemma_harness(g, name, hyps, concls)
        if not any(x.name == lh.name for x in g.side_harnesses):
            g.side_harnesses.append(lh)
        base = '%s/%s/lemma.%s' % (g.prop, g.fn.key, name)
        for j, h in enumerate(hyps):
            g.emit_assert(h, '%s.hyp%d[%s]' % (base, j, g.cfgname), 'lemma')
        for c in concls:
            g.emit_assume(c, 'abstract lemma ' + name)

    def use_under(self, guard, lemma, *args):
        args = [E.const(a) for a in args]
        self.gen.used_lemmas.add(lemma.name)
        self.gen.emit_assume(implies(E.const(guard) & lemma.hyp(*args), lemma.concl(*args)), 'lemma ' + lemma.name)

    def use(self, lemma, *args):
        """instance of a pure lemma (proved separately for all reals)"""
        args = [E.const(a) for a in args]
        self.gen.used_lemmas.add(lemma.name)
        self.gen.emit_assume(implies(lemma.hyp(*args), lemma.concl(*args)), 'lemma ' + lemma.name)


# =====================================================================================================================
# Local iteration lemmas: one loop iteration executed on scalarised memory (array-free), so that the per-segment algebra
# is decided by a complete NRA procedure (nlsat) in isolation.  The lemma's conclusion is then assumed at the end of the
# loop body of the in-context harness.  Faithfulness of the scalarisation: every array cell touched by the iteration is
# named by (array, linear form of its index over the iteration's input ints); two cells of one array are distinct iff
# their linear forms differ by a non-zero constant; anything else aborts (GenError).
# =====================================================================================================================

class LinForm(object):
    def __init__(self, coef=None, const=0):
        self.coef = dict(coef or {})
        self.const = const

    def key(self):
        return (tuple(sorted((k, v) for k, v in self.coef.items() if v != 0)), self.const)

    def vars_key(self):
        return tuple(sorted((k, v) for k, v in self.coef.items() if v != 0))


def linform(e, env):
    """linear form of an int expression over base variables; env: int scalar -> LinForm (forward substitution)"""
    if e.op == 'const':
        return LinForm({}, int(e.args[0]))
    if e.op == 'var':
        n = e.args[0]
        if n in env:
            return env[n]
        return LinForm({n: 1}, 0)
    if e.op in ('+', '-'):
        a, b = linform(e.args[0], env), linform(e.args[1], env)
        sgn = 1 if e.op == '+' else -1
        c = dict(a.coef)
        for k, v in b.coef.items():
            c[k] = c.get(k, 0) + sgn * v
        return LinForm(c, a.const + sgn * b.const)
    if e.op == 'neg':
        a = linform(e.args[0], env)
        return LinForm({k: -v for k, v in a.coef.items()}, -a.const)
    if e.op == '*':
        a, b = linform(e.args[0], env), linform(e.args[1], env)
        if not any(a.coef.values()):
            return LinForm({k: v * a.const for k, v in b.coef.items()}, a.const * b.const)
        if not any(b.coef.values()):
            return LinForm({k: v * b.const for k, v in a.coef.items()}, a.const * b.const)
    raise GenError('index expression is not linear: %s' % cstr_short(e))


class Scalariser(object):
    def __init__(self, read_only=()):
        self.cells = {}       # (arr, linform key) -> (scalar name, ty)
        self.by_arr = {}      # arr -> [LinForm]
        self.int_env = {}
        self.n = 0
        # arrays the scalarised statements never write: cells with unrelated index forms may coincide, and are then
        # represented by independent scalars -- a generalisation (the real state is the special case where they are equal)
        self.read_only = set(read_only)

    def cell(self, arr, idx, ty):
        lf = linform(idx, self.int_env)
        k = (arr, lf.key())
        if k not in self.cells:
            for other in self.by_arr.get(arr, []):
                if other.vars_key() != lf.vars_key() and arr not in self.read_only:
                    raise GenError('cannot scalarise: cells %s[...] with unrelated index forms' % arr)
            self.by_arr.setdefault(arr, []).append(lf)
            self.n += 1
            self.cells[k] = ('c%d_%s' % (self.n, arr[-24:]), ty)
        return E.var(self.cells[k][0], ty)

    def ex(self, e):
        if not isinstance(e, E):
            return e
        if e.op == 'const' or e.op == 'var':
            return e
        if e.op == 'idx':
            return self.cell(e.args[0], e.args[1], e.ty)
        if e.op == 'i2r':
            # exact int -> double conversion: the never-written model array I2R (only its value at this index matters here)
            self.read_only.add('I2R')
            return self.cell('I2R', e.args[0], REAL)
        from expr import rebuild
        return rebuild(e.op, [self.ex(a) for a in e.args], e.ty)


def scalar_stmts(stmts, sc, out, pr, ind=1):
    pad = '  ' * ind
    for s in stmts:
        if isinstance(s, Assign):
            rhs = sc.ex(s.e)
            if s.lv.index is None:
                out.append('%s%s = %s;' % (pad, s.lv.name, pr.p(rhs)))
                if s.lv.ty == INT:
                    try:
                        sc.int_env[s.lv.name] = linform(s.e, sc.int_env)
                    except GenError:
                        sc.int_env.pop(s.lv.name, None)
            else:
                tgt = sc.cell(s.lv.name, s.lv.index, s.lv.ty)
                out.append('%s%s = %s;' % (pad, pr.p(tgt), pr.p(rhs)))
        elif isinstance(s, If):
            out.append('%sif (%s) {' % (pad, pr.p(sc.ex(s.c))))
            scalar_stmts(s.then, sc, out, pr, ind + 1)
            if s.els:
                out.append('%s} else {' % pad)
                scalar_stmts(s.els, sc, out, pr, ind + 1)
            out.append('%s}' % pad)
        elif isinstance(s, (Ghost, Comment)):
            continue
        elif isinstance(s, Assert):
            if s.kind == 'div' and any(getattr(s, 'fname', '').endswith(x) for x in getattr(sc, 'assumed_nonzero', [])):
                out.append('%s__CPROVER_assume(%s);' % (pad, pr.p(sc.ex(s.e))))      # stated assumption: non-singular pivot
            continue          # structural obligations are discharged in the in-context harness
        elif isinstance(s, Assume):
            out.append('%s__CPROVER_assume(%s);' % (pad, pr.p(sc.ex(s.e))))
        elif isinstance(s, Havoc):
            if s.arrays:
                raise GenError('cannot scalarise an iteration that havocs arrays')
            for n, t in s.scalars:
                out.append('%s%s = nd_%s;' % (pad, n, n))
        elif isinstance(s, Label):
            out.append('%s%s: ;' % (pad, s.label))
        elif isinstance(s, Goto):
            out.append('%sgoto %s;' % (pad, s.label))
        else:
            raise GenError('cannot scalarise statement %s' % type(s).__name__)


def abstract_lemma_harness(gen, name, hyps, concls):
    pr = Printer('real')
    cells = {}
    names = {}

    def ab(e):
        if not isinstance(e, E) or e.op == 'const':
            return e
        if e.op == 'var':
            names[e.args[0]] = e.ty
            return e
        if e.op == 'idx':
            k = (e.args[0], e.args[1].key())
            if k not in cells:
                cells[k] = 'a%d_%s' % (len(cells) + 1, e.args[0][-20:])
                names[cells[k]] = e.ty
            return E.var(cells[k], e.ty)
        from expr import rebuild
        return rebuild(e.op, [ab(a) for a in e.args], e.ty)
    ht = [pr.p(ab(h)) for h in hyps]
    ct = [pr.p(ab(c)) for c in concls]
    Lc = ['/* abstract lemma %s: array cells as independent scalars */' % name, 'typedef __CPROVER_rational real;']
    for n in sorted(pr.consts):
        Lc.append('real %s;' % n)
    for n, t in sorted(names.items()):
        Lc.append('%s %s;' % (CTYPE[t], n))
    Lc.append('int main(void) {')
    for n, fr in sorted(pr.consts.items()):
        Lc.append('  __CPROVER_assume(%s * %d == %d);' % (n, fr.denominator, fr.numerator))
    for t in ht:
        Lc.append('  __CPROVER_assume(%s);' % t)
    obls = []
    for j, t in enumerate(ct):
        o = Obligation('%s/%s/abstract.%s#%d[%s]' % (gen.prop, gen.fn.key, name, j, gen.cfgname), 'local', 'abstract lemma')
        obls.append(o)
        o.index = len(obls)
        Lc.append('  __CPROVER_assert(%s, "c%d");' % (t, j))
    o = Obligation('%s/%s/abstract.%s.reach[%s]' % (gen.prop, gen.fn.key, name, gen.cfgname), 'reach', 'hypotheses satisfiable')
    obls.append(o)
    o.index = len(obls)
    Lc.append('  __CPROVER_assert(0, "reach");')
    Lc.append('  return 0;\n}')
    h = Harness()
    h.text = '\n'.join(Lc) + '\n'
    h.name = 'abstract.%s.%s[%s]' % (gen.fn.key, name, gen.cfgname)
    h.obligations = obls
    h.frame_problems = []
    return h


def local_iteration_harness(gen, lp, L, pre, post, prop, tag):
    """array-free harness of one iteration: assume pre, run the body, assert each post fact"""
    pr = Printer('real')
    _, written = ir.write_set(lp.body)
    ro = set(gen.globals_a) - set(written) if getattr(lp, 'whole_body', False) else ()
    sc = Scalariser(read_only=ro)
    sc.assumed_nonzero = list(getattr(L.S, 'assumed_nonzero', [])) if L is not None else []
    body = []
    pre_txt = [pr.p(sc.ex(E.const(p))) for _, p in pre]
    scalar_stmts(lp.body, sc, body, pr)
    post_txt = [(lab, pr.p(sc.ex(E.const(p)))) for lab, p in post]
    # declarations: every scalar mentioned
    names = {}
    for (arr, k), (n, t) in sc.cells.items():
        names[n] = t
    import re as _re
    text = '\n'.join(pre_txt + body + [t for _, t in post_txt])
    for n, t in gen.globals_s.items():
        if _re.search(r'\b%s\b' % _re.escape(n), text):
            names[n] = t
    for m in _re.finditer(r'\bnd_(\w+)\b', text):
        names['nd_' + m.group(1)] = gen.globals_s.get(m.group(1), REAL)
    Lc = ['/* local iteration lemma: one iteration of %s on scalarised memory */' % (lp.src,), 'typedef __CPROVER_rational real;']
    for n in sorted(pr.consts):
        Lc.append('real %s;' % n)
    for n, t in sorted(names.items()):
        Lc.append('%s %s;' % (CTYPE[t], n))
    Lc.append('int main(void) {')
    for n, fr in sorted(pr.consts.items()):
        Lc.append('  __CPROVER_assume(%s * %d == %d);' % (n, fr.denominator, fr.numerator))
    for t in pre_txt:
        Lc.append('  __CPROVER_assume(%s);' % t)
    Lc += body
    obls = []
    for lab, t in post_txt:
        o = Obligation('%s/%s/local.%s[%s]' % (prop, lp.key[0], lab, tag), 'local', 'iteration lemma')
        obls.append(o)
        o.index = len(obls)
        Lc.append('  __CPROVER_assert(%s, "%s");' % (t, lab))
        Lc.append('  __CPROVER_assume(%s);' % t)     # later facts may use earlier ones (each is proved given the previous ones)
    o = Obligation('%s/%s/local.reach[%s]' % (prop, lp.key[0], tag), 'reach', 'iteration reachable')
    obls.append(o)
    o.index = len(obls)
    Lc.append('  __CPROVER_assert(0, "reach");')
    Lc.append('  return 0;\n}')
    h = Harness()
    h.text = '\n'.join(Lc) + '\n'
    h.name = 'local.%s.loop%s[%s]' % (lp.key[0], lp.key[1], tag)
    h.obligations = obls
    h.frame_problems = []
    return h
