"""The translator assembled from its rule sets."""
from translate import TranslatorBase, Frame
from translate_expr import ExprMixin
from translate_call import CallMixin, AbstractObj
from translate_stmt import StmtMixin, TranslatedFunction
from cxxast import ExtractionError


class Translator(TranslatorBase, ExprMixin, CallMixin, StmtMixin):
    top_key = None
    top_node = None
