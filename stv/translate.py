"""AST -> scalar IR.  An abstract interpreter over the clang JSON of the uninstantiated templates.

Template parameters are python constants (one translation per configuration), `if constexpr` is evaluated,
loops with constant trip count are unrolled, Eigen expressions are expanded element by element, member functions
without a contract are inlined, member functions with a contract become CallContract statements.
Every AST construct without a rule raises ExtractionError (exit 2 at the top level) naming the source range.
"""
from fractions import Fraction
import re

from expr import E, INT, REAL, BOOL, to_real, ite, conj, disj, esum, implies, mk_not, imod
from ir import (LV, Assign, If, Loop, Goto, Label, Assert, Assume, Havoc, ArrCopy, MapAssign, CallContract, Comment,
                Ghost)
from values import *
from cxxast import ExtractionError, get_class, src_text, where, params_of, body_of
import ctypes_
from ctypes_ import TD, TypeEnv, resolve, MAXV

TRANSPARENT = ('ImplicitCastExpr', 'ParenExpr', 'MaterializeTemporaryExpr', 'ExprWithCleanups', 'CXXBindTemporaryExpr',
               'ConstantExpr', 'FullExpr')

DERIV_ENUM = {'Pos': 0, 'Vel': 1, 'Acc': 2, 'Jerk': 3, 'Snap': 4, 'Crackle': 5, 'Pop': 6}


def fail(node, msg):
    raise ExtractionError('%s at %s: %s' % (msg, where(node), (src_text(node) or '')[:160].replace('\n', ' ')))


class ReturnSignal(Exception):
    pass


class Frame(object):
    """one function activation (top-level or inlined)"""

    def __init__(self, fname, this, ret_slot, end_label):
        self.fname = fname
        self.this = this
        self.ret_slot = ret_slot     # value receiving the return value (or None)
        self.end_label = end_label
        self.scopes = [{}]
        self.loop_ord = 0
        self.returned_always = False
        self.used_goto = False
        self.continue_label = None


class TranslatorBase(object):
    def __init__(self, options=None):
        self.opt = options or {}
        self.globals_s = {}      # scalar globals name -> ty
        self.globals_a = {}      # array globals name -> ty
        self.uid = 0
        self.block = []          # current statement list
        self.frames = []
        self.guard = E.const(True)   # path condition inside ?: operands
        self.contracts = self.opt.get('contracts', {})   # key 'Class.method' -> contract object
        self.inline_depth = 0
        self.loop_keys = []
        self.pins = {}           # storage name -> python const (requires-pinned scalars)
        self.notes = []
        self.dead = False
        self.top_locals = {}
        self.recips = {}

    # ------------------------------------------------------------------------------------------- infrastructure
    def fresh(self, base):
        self.uid += 1
        return '%s_%d' % (re.sub(r'\W', '_', base), self.uid)

    def emit(self, s):
        self.block.append(s)

    def declare(self, value):
        st = storage_of(value)
        if st:
            for n, t in st[0]:
                self.globals_s[n] = t
            for n, t in st[1]:
                self.globals_a[n] = t
        return value

    def new_scalar(self, base, ty, unique=True):
        name = self.fresh(base) if unique else base
        self.globals_s[name] = ty
        return ScalarVar(name, ty)

    @property
    def frame(self):
        return self.frames[-1]

    def lookup(self, name):
        for fr in (self.frames[-1],):
            for sc in reversed(fr.scopes):
                if name in sc:
                    return sc[name]
        return None

    def bind(self, name, value):
        self.frame.scopes[-1][name] = value
        if len(self.frames) == 1:
            self.top_locals[name] = value

    def assign(self, lv, e):
        e = E.const(e)
        if lv.ty == REAL and e.ty != REAL:
            e = to_real(e)
        if lv.ty == INT and e.ty == REAL:
            raise ExtractionError('implicit real->int assignment to %s' % lv.name)
        if lv.index is None and lv.name in self.pins:
            raise ExtractionError('assignment to pinned scalar %s' % lv.name)
        self.emit(Assign(lv, e))
        if self.opt.get('finite_ghosts') and lv.ty == REAL and e.op in ('var', 'idx'):
            # a copied double keeps its finiteness bit
            src = E.var(e.args[0] + '__fin', BOOL) if e.op == 'var' else E.idx(e.args[0] + '__fin', e.args[1], BOOL)
            dst = LV(lv.name + '__fin', BOOL, lv.index)
            (self.globals_s if e.op == 'var' else self.globals_a)[e.args[0] + '__fin'] = BOOL
            (self.globals_s if lv.index is None else self.globals_a)[lv.name + '__fin'] = BOOL
            self.emit(Assign(dst, src))

    def anchor(self, name, ns=None):
        """named ghost anchor (contracts attach ghost code with S.ghost(name, ...))"""
        from ir import Ghost
        g = Ghost(name)
        g.ns = ns if ns is not None else self.namespace()
        g.fname = self.frame.fname
        g.custom = True
        self.emit(g)

    def obligation(self, cond, label, kind):
        cond = implies(self.guard, cond)
        if cond.is_const() and cond.cval():
            return
        a = Assert(cond, label, kind)
        a.fname = self.frames[-1].fname if self.frames else ''
        self.emit(a)

    # ------------------------------------------------------------------------------------------- types / objects
    def static_eval(self, cls, cfg, name):
        """value of a static constexpr member as python constant"""
        key = (cls.name, tuple(sorted((k, str(v)) for k, v in cfg.items())), name)
        cache = self.__dict__.setdefault('_static_cache', {})
        if key in cache:
            return cache[key]
        ty, init = cls.statics[name]
        if init is None:
            raise ExtractionError('static %s::%s has no initializer' % (cls.name, name))
        # evaluate in a throw-away frame with `this` = typeless object
        saved = (self.block, self.frames)
        self.block, self.frames = [], [Frame('static', Obj(cls, cfg, '__static__', {}), None, None)]
        try:
            v = self.ev(init)
            static_block = self.block
        finally:
            self.block, self.frames = saved
        if isinstance(v, EnumV):
            v = v.e
        if isE(v) and v.is_const():
            pv = v.cval()
            if isinstance(pv, Fraction) and v.ty != REAL:
                pv = int(pv)
            cache[key] = pv
            return pv
        if isinstance(v, Mat):
            v = self.const_fold_mat(v, static_block, cls, name)
            cache[key] = v
            return v
        raise ExtractionError('static %s::%s is not a compile-time constant' % (cls.name, name))

    def const_fold_mat(self, m, block, cls, name):
        """execute a straight-line block of constant assignments and return m as a matrix of constants"""
        from expr import subst
        env = {}
        for st in block:
            if isinstance(st, Assign) and st.lv.index is None:
                val = subst(st.e, env)
                if not val.is_const():
                    raise ExtractionError('static %s::%s: non-constant initialisation' % (cls.name, name))
                env[st.lv.name] = val
            elif isinstance(st, (Label, Goto, Comment, Ghost)):
                continue
            else:
                raise ExtractionError('static %s::%s: initialiser is not straight-line constant code (%s)' % (cls.name, name, type(st).__name__))
        R, C = self.dims_const(m)
        vals = [[subst(m.at(r, c), env) for c in range(C)] for r in range(R)]
        for row in vals:
            for x in row:
                if not x.is_const():
                    raise ExtractionError('static %s::%s: element is not constant' % (cls.name, name))
        return ExprMat(R, C, lambda r, c: self._sel_const(vals, r, c))

    def _sel_const(self, vals, r, c):
        rr, cc = cint(r), cint(c)
        if rr is not None and cc is not None:
            return vals[rr][cc]
        res = None
        for i in range(len(vals) - 1, -1, -1):
            for j in range(len(vals[0]) - 1, -1, -1):
                if rr is not None and rr != i: continue
                if cc is not None and cc != j: continue
                if res is None:
                    res = vals[i][j]
                else:
                    cond = conj([E.const(r).eq(i) if rr is None else True, E.const(c).eq(j) if cc is None else True])
                    res = ite(cond, vals[i][j], res)
        return res

    def tenv(self, cls, cfg):
        return TypeEnv(cls, cfg, self.static_eval)

    def make_value(self, td, name, unique=False):
        """allocate storage for a value of type td under C name `name`"""
        k = td.kind
        if k in ('real', 'int', 'bool'):
            return self.declare(ScalarVar(name, {'real': REAL, 'int': INT, 'bool': BOOL}[k]))
        if k == 'enum':
            return self.declare(ScalarVar(name, INT))
        if k == 'mat':
            if td.R is None and td.C is None:
                return self.declare(DynSmallMat(name, MAXV))
            if td.R is None:
                return self.declare(StoreMat(name, td.C))
            if td.C is None:
                raise ExtractionError('matrix with dynamic columns only: %s' % name)
            return self.declare(SmallMat(name, td.R, td.C))
        if k == 'stdvec':
            return self.declare(StdVec(name, REAL if td.elem == 'real' else INT))
        if k == 'matvec':
            return self.declare(MatVec(name, MAXV, td.C))
        if k == 'countvec':
            return self.declare(CountVec(name))
        if k == 'string':
            return self.declare(StrV(name))
        if k == 'mutex':
            return MutexV(name)
        if k == 'structvec':
            cls = self.class_of(td)
            fields = []
            for fname, ftype, _ in cls.fields:
                ft = resolve(ftype, self.tenv(cls, td.cfg))
                if ft.kind not in ('real', 'int', 'bool'):
                    raise ExtractionError('vector of struct with non-scalar field %s' % fname)
                fields.append((fname, {'real': REAL, 'int': INT, 'bool': BOOL}[ft.kind]))
            return self.declare(StructVec(name, fields))
        if k == 'obj':
            return self.make_obj(td, name + '__')
        if k == 'ptr':
            # pointer member: null flag + provenance tag (int); target resolved by the harness
            v = PtrSlot(name, td.to)
            return self.declare(v)
        if k == 'uptr':
            v = self.declare(PtrSlot(name, td.to))
            return v
        raise ExtractionError('no storage rule for type %r (%s)' % (td, name))

    def class_of(self, td):
        if getattr(td, 'nested', None) is not None:
            return td.nested
        cname = td.cls
        if '::' in cname:
            outer, inner = cname.split('::')
            oc = get_class(outer)
            nc = oc.nested[inner]
            nc.outer = oc
            return nc
        return get_class(cname)

    def make_obj(self, td, prefix):
        cls = self.class_of(td)
        if not hasattr(cls, 'outer') and '::' in td.cls:
            cls.outer = get_class(td.cls.split('::')[0])
        obj = Obj(cls, dict(td.cfg), prefix, {})
        obj.td = td
        tenv = self.tenv(cls, obj.cfg)
        for fname, ftype, init in cls.fields:
            ft = resolve(ftype, tenv)
            obj.fields[fname] = self.make_value(ft, prefix + fname)
        return obj

    # ------------------------------------------------------------------------------------------- helpers on values
    def rd(self, v):
        """r-value conversion for scalar-like things"""
        if isinstance(v, (ScalarVar, CellRef)):
            if isinstance(v, ScalarVar) and v.name in self.pins:
                return E.const(self.pins[v.name])
            return v.rd()
        if isinstance(v, EnumV):
            return v.e
        return v

    def scalar(self, v, node=None):
        v = self.rd(v)
        if isinstance(v, Mat) and cint(v.R) == 1 and cint(v.C) == 1:
            return v.at(0, 0)
        if not isE(v):
            if node is not None:
                fail(node, 'expected a scalar, got %s' % type(v).__name__)
            raise ExtractionError('expected scalar, got %r' % (v,))
        return v

    def recip(self, b, node=None):
        """1/b for a symbolic real b: obligation b != 0, fresh r with b*r == 1"""
        b = to_real(b)
        if b.is_const():
            return E.const(1 / Fraction(b.cval()))
        self.obligation(b.ne(0), 'division by zero: %s' % (where(node) if node else ''), 'div')
        r = self.new_scalar('recip', REAL)
        self.recips[r.name] = b
        self.emit(Havoc(scalars=[(r.name, REAL)]))
        self.emit(Assume(implies(b.ne(0), (b * r.rd()).eq(1)), 'reciprocal'))
        return r.rd()

    def sqrt(self, x, node=None):
        x = to_real(x)
        self.obligation(x >= 0, 'sqrt of negative: %s' % (where(node) if node else ''), 'sqrt')
        r = self.new_scalar('sqrt', REAL)
        self.emit(Havoc(scalars=[(r.name, REAL)]))
        self.emit(Assume((r.rd() >= 0) & implies(x >= 0, (r.rd() * r.rd()).eq(x)), 'sqrt'))
        return r.rd()

    def div(self, a, b, node=None):
        a, b = E.const(a), E.const(b)
        if a.ty == INT and b.ty == INT:
            if b.is_const():
                return a / b
            fail(node, 'integer division by a variable')
        if b.is_const():
            return to_real(a) / to_real(b)
        return to_real(a) * self.recip(b, node)

    def bounds(self, idx, size, what, node=None):
        if self.opt.get('no_bounds'):
            return
        idx = E.const(idx)
        c = (idx >= 0) & (idx < size)
        self.obligation(c, 'index in range: %s %s' % (what, where(node) if node else ''), 'bounds')

    def checked_at(self, m, r, c, node=None, what=''):
        if isinstance(m, (StoreMat,)):
            self.bounds(r, m.R, what or m.name, node)
        return m.at(r, c)

    # matrix helpers ------------------------------------------------------------------------------------------
    def dims_const(self, m, node=None):
        R, C = cint(m.R), cint(m.C)
        if R is None or C is None:
            if node is not None:
                fail(node, 'matrix with symbolic dimensions used element-wise')
            raise ExtractionError('matrix with symbolic dimensions used element-wise')
        return R, C

    def materialize(self, m, base='tmp'):
        """copy an (expression) matrix with constant dims into fresh small storage; returns SmallMat"""
        R, C = self.dims_const(m)
        sm = self.declare(SmallMat(self.fresh(base), R, C))
        for r in range(R):
            for c in range(C):
                self.assign(sm.lv(r, c), m.at(r, c))
        return sm

    def same_shape(self, a, b, node=None):
        ra, ca, rb, cb = cint(a.R), cint(a.C), cint(b.R), cint(b.C)
        if None not in (ra, ca, rb, cb):
            if (ra, ca) == (rb, cb):
                return b
            if (ra, ca) == (cb, rb) and (ra == 1 or ca == 1):
                return transpose(b)      # Eigen's implicit vector transposition on assignment
            if node is not None:
                fail(node, 'shape mismatch %dx%d vs %dx%d' % (ra, ca, rb, cb))
            raise ExtractionError('shape mismatch')
        return b

    def mat_assign(self, dst, src, op='=', node=None):
        """dst op= src element-wise; handles whole dynamic matrices"""
        if isE(src) or isinstance(src, (ScalarVar, CellRef)):
            s = self.scalar(src)
            if op in ('*=', '/='):
                src = None
                R, C = self.dims_const(dst, node)
                for r in range(R):
                    for c in range(C):
                        old = dst.at(r, c)
                        self.assign(dst.lv(r, c), old * s if op == '*=' else self.div(old, s, node))
                return
            if cint(dst.R) == 1 and cint(dst.C) == 1:
                src = ExprMat(1, 1, lambda r, c: s)
            else:
                fail(node, 'scalar assigned to matrix')
        if not isinstance(src, Mat):
            fail(node, 'matrix assignment from %s' % type(src).__name__)
        if not dst.writable:
            fail(node, 'assignment to a read-only matrix expression')
        Rd, Cd = cint(dst.R), cint(dst.C)
        Rs, Cs = cint(src.R), cint(src.C)
        if Rd is not None and Cd is not None and (Rs is None or Cs is None):
            # fixed-size destination, dynamically sized source (x.segment(off, dof) = fixed vector etc.)
            src = ExprMat(Rd, Cd, src.at) if (Cs == Cd or Rs == Rd or True) else src
            Rs, Cs = Rd, Cd
        if Rd is None or Cd is None:
            return self.dyn_assign(dst, src, op, node)
        src = self.same_shape(dst, src, node)
        # evaluate all right-hand sides first when the source may alias the destination
        vals = []
        for r in range(Rd):
            for c in range(Cd):
                v = src.at(r, c)
                if op == '+=':
                    v = dst.at(r, c) + v
                elif op == '-=':
                    v = dst.at(r, c) - v
                vals.append((r, c, v))
        if len(vals) > 1 and self.may_alias(dst, vals):
            tmp = []
            for r, c, v in vals:
                t = self.new_scalar('alias', REAL)
                self.assign(t.lv(), v)
                tmp.append((r, c, t.rd()))
            vals = tmp
        for r, c, v in vals:
            self.assign(dst.lv(r, c), v)

    def may_alias(self, dst, vals):
        from expr import free_vars
        written = set()
        for r, c, _ in vals:
            lv = dst.lv(r, c)
            written.add(('@' + lv.name) if lv.index is not None else lv.name)
        for i, (r, c, v) in enumerate(vals):
            fv = free_vars(v)
            lv = dst.lv(r, c)
            own = ('@' + lv.name) if lv.index is not None else lv.name
            others = written - {own} if lv.index is None else written
            # arrays: any read of a written array at a possibly different index is a potential alias
            if lv.index is None:
                if fv & others:
                    return True
            else:
                if fv & written:
                    # same array read: safe only if it is the very cell being written (op= forms)
                    return self._reads_other_cells(v, dst, vals)
        return False

    def _reads_other_cells(self, v, dst, vals):
        cells = set()
        for r, c, _ in vals:
            lv = dst.lv(r, c)
            cells.add((lv.name, lv.index.key() if lv.index is not None else None))
        names = set(n for n, _ in cells)
        found = []

        def walk(e):
            if e.op == 'idx':
                if e.args[0] in names:
                    found.append((e.args[0], e.args[1].key()))
                walk(e.args[1])
            elif e.op not in ('const', 'var'):
                for a in e.args:
                    if isE(a):
                        walk(a)
        walk(v)
        # conservative: reading any cell of the written arrays other than cells being written at the same position
        return len(cells) > 1 and any(True for f in found)

    def dyn_assign(self, dst, src, op, node):
        """assignment whose row count is symbolic"""
        if isinstance(dst, StoreMat) and isinstance(src, StoreMat) and op == '=':
            if dst.C != src.C:
                fail(node, 'column mismatch in whole-matrix copy')
            if dst.name == src.name:
                return
            self.assign(dst.rows_lv(), src.R)
            for j in range(dst.C):
                self.emit(ArrCopy(dst.col(j), src.col(j), dst.ty))
            return
        # general: unit-stride map over rows
        C = cint(dst.C)
        if C is None:
            fail(node, 'dynamic columns in assignment')
        if isinstance(dst, StoreMat):
            if op != '=':
                # compound assignment keeps the size
                self.obligation(E.const(src.R).eq(dst.R), 'size match in compound assignment %s' % where(node), 'bounds')
                nrows = dst.R
            else:
                self.assign(dst.rows_lv(), src.R)
                nrows = src.R
            base_lv = [dst.lv(0, j) for j in range(C)]
        else:
            nrows = dst.R
            self.obligation(E.const(src.R).eq(dst.R), 'size match in block assignment %s' % where(node), 'bounds')
            base_lv = [dst.lv(0, j) for j in range(C)]
        cells = [(lv.name, lv.ty, lv.index) for lv in base_lv]
        rhs = []
        for j in range(C):
            def f(r, j=j):
                v = src.at(r, j)
                if op == '+=':
                    v = dst.at(r, j) + v
                elif op == '-=':
                    v = dst.at(r, j) - v
                return v
            rhs.append(f)
        self.emit(MapAssign(0, nrows, cells, rhs))

    def set_zero(self, m, node=None):
        R, C = cint(m.R), cint(m.C)
        if R is not None and C is not None:
            for r in range(R):
                for c in range(C):
                    self.assign(m.lv(r, c), Fraction(0))
            return
        self.dyn_assign(m, ExprMat(m.R, m.C, lambda r, c: E.const(Fraction(0))), ':=0', node) if False else \
            self.emit(MapAssign(0, m.R, [(m.lv(0, j).name, REAL, m.lv(0, j).index) for j in range(cint(m.C))],
                                [(lambda r: E.const(Fraction(0))) for _ in range(cint(m.C))]))

    def resize(self, m, rows, cols=None, node=None):
        if isinstance(m, StoreMat):
            self.assign(m.rows_lv(), rows)
            if not self.opt.get('resize_keeps', False):
                self.emit(Havoc(arrays=[(m.col(j), m.ty) for j in range(m.C)]))
            return
        if isinstance(m, DynSmallMat):
            self.assign(m.rows_var, rows)
            self.assign(m.cols_var, cols if cols is not None else 1)
            st = SmallMat.storage(m)
            self.emit(Havoc(scalars=st[0]))
            return
        if isinstance(m, SmallMat):
            return
        fail(node, 'resize of %s' % type(m).__name__)
