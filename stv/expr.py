"""Symbolic scalar expressions that print as C (for CBMC over __CPROVER_rational, or as native double C).

E objects are immutable trees.  Types: 'int', 'real', 'bool'.  Constants are python int / Fraction / bool and are
folded eagerly, so template parameters (DIM, ORDER, COEFF_NUM) that are python ints disappear at generation time.
"""
from fractions import Fraction

INT, REAL, BOOL = 'int', 'real', 'bool'


class E(object):
    __slots__ = ('op', 'args', 'ty')

    def __init__(self, op, args, ty):
        self.op = op
        self.args = tuple(args)
        self.ty = ty

    # ---- construction helpers -------------------------------------------------------------------
    @staticmethod
    def const(v):
        if isinstance(v, E):
            return v
        if isinstance(v, bool):
            return E('const', (v,), BOOL)
        if isinstance(v, int):
            return E('const', (v,), INT)
        if isinstance(v, Fraction):
            if v.denominator == 1:
                return E('const', (Fraction(v),), REAL)
            return E('const', (v,), REAL)
        if isinstance(v, float):
            return E('const', (Fraction(repr(v)),), REAL)
        raise TypeError('cannot make constant from %r' % (v,))

    @staticmethod
    def var(name, ty):
        return E('var', (name,), ty)

    @staticmethod
    def idx(arr, index, ty):
        return E('idx', (arr, E.const(index)), ty)

    def is_const(self):
        return self.op == 'const'

    def cval(self):
        assert self.op == 'const', self
        return self.args[0]

    # ---- arithmetic ----------------------------------------------------------------------------
    def _bin(self, other, op, rev=False):
        other = E.const(other)
        a, b = (other, self) if rev else (self, other)
        return mk_arith(op, a, b)

    def __add__(self, o): return self._bin(o, '+')
    def __radd__(self, o): return self._bin(o, '+', True)
    def __sub__(self, o): return self._bin(o, '-')
    def __rsub__(self, o): return self._bin(o, '-', True)
    def __mul__(self, o): return self._bin(o, '*')
    def __rmul__(self, o): return self._bin(o, '*', True)
    def __truediv__(self, o): return self._bin(o, '/')
    def __rtruediv__(self, o): return self._bin(o, '/', True)
    def __neg__(self): return mk_neg(self)
    def __pos__(self): return self

    def __pow__(self, n):
        assert isinstance(n, int) and n >= 0
        r = E.const(1) if self.ty == INT else E.const(Fraction(1))
        for _ in range(n):
            r = r * self
        return r

    # comparisons build bool expressions (so E cannot be used as dict key by value; use .key())
    def __lt__(self, o): return mk_cmp('<', self, E.const(o))
    def __le__(self, o): return mk_cmp('<=', self, E.const(o))
    def __gt__(self, o): return mk_cmp('>', self, E.const(o))
    def __ge__(self, o): return mk_cmp('>=', self, E.const(o))
    def eq(self, o): return mk_cmp('==', self, E.const(o))
    def ne(self, o): return mk_cmp('!=', self, E.const(o))
    __eq__ = eq
    __ne__ = ne
    __hash__ = None

    def __and__(self, o): return mk_and(self, E.const(o))
    def __rand__(self, o): return mk_and(E.const(o), self)
    def __or__(self, o): return mk_or(self, E.const(o))
    def __ror__(self, o): return mk_or(E.const(o), self)
    def __invert__(self): return mk_not(self)

    def __bool__(self):
        if self.op == 'const':
            return bool(self.args[0])
        raise TypeError('symbolic expression used as python bool: %s' % cstr(self))

    def key(self):
        if self.op in ('const', 'var'):
            return (self.op, self.args[0], self.ty)
        if self.op == 'idx':
            return ('idx', self.args[0], self.args[1].key())
        return (self.op,) + tuple(a.key() if isinstance(a, E) else a for a in self.args)

    def __repr__(self):
        return 'E<%s>' % cstr(self)


def _num(a):
    return a.ty in (INT, REAL)


def _arith_ty(a, b):
    if a.ty == BOOL or b.ty == BOOL:
        # C semantics: bool promotes to int
        pass
    return REAL if (a.ty == REAL or b.ty == REAL) else INT


def to_real(e):
    """int -> real conversion.  Constants convert exactly; symbolic ints are wrapped in an 'i2r' node that the
    emitter must be told how to print (CBMC cannot convert int variables to rationals)."""
    e = E.const(e)
    if e.ty == REAL:
        return e
    if e.op == 'const':
        return E.const(Fraction(int(e.args[0])))
    return E('i2r', (e,), REAL)


def _lin(e, acc, sign):
    """accumulate the linear form of an int expression: acc = {key: [term, coef]}, returns the constant part"""
    if e.op == 'const':
        return sign * int(e.args[0])
    if e.op == '+' and e.ty == INT:
        return _lin(e.args[0], acc, sign) + _lin(e.args[1], acc, sign)
    if e.op == '-' and e.ty == INT:
        return _lin(e.args[0], acc, sign) + _lin(e.args[1], acc, -sign)
    if e.op == 'neg' and e.ty == INT:
        return _lin(e.args[0], acc, -sign)
    if e.op == '*' and e.ty == INT:
        a, b = e.args
        if a.op == 'const':
            return _lin(b, acc, sign * int(a.args[0]))
        if b.op == 'const':
            return _lin(a, acc, sign * int(b.args[0]))
    k = repr(e.key())
    if k in acc:
        acc[k][1] += sign
    else:
        acc[k] = [e, sign]
    return 0


def int_normal(e):
    """canonical form of linear int expressions:  c1*t1 + c2*t2 + ... + c0  (terms ordered), so that equal index
    expressions are syntactically equal"""
    acc = {}
    c0 = _lin(e, acc, 1)
    res = None
    for k in sorted(acc):
        t, c = acc[k]
        if c == 0:
            continue
        term = t if c == 1 else E('*', (t, E.const(c)), INT) if c > 0 else E('*', (t, E.const(c)), INT)
        if res is None:
            res = term if c > 0 else (E('neg', (t,), INT) if c == -1 else term)
        elif c > 0:
            res = E('+', (res, term), INT)
        else:
            res = E('-', (res, t if c == -1 else E('*', (t, E.const(-c)), INT)), INT)
    if res is None:
        return E.const(c0)
    if c0 > 0:
        res = E('+', (res, E.const(c0)), INT)
    elif c0 < 0:
        res = E('-', (res, E.const(-c0)), INT)
    return res


def mk_arith(op, a, b):
    ty = _arith_ty(a, b)
    if ty == INT and op in ('+', '-', '*') and not (a.op == 'const' and b.op == 'const'):
        if op != '*' or a.op == 'const' or b.op == 'const':
            return int_normal(E(op, (a, b), INT))
    if a.op == 'const' and b.op == 'const':
        x, y = a.args[0], b.args[0]
        if ty == REAL:
            x, y = Fraction(x), Fraction(y)
            if op == '+': return E.const(x + y)
            if op == '-': return E.const(x - y)
            if op == '*': return E.const(x * y)
            if op == '/':
                if y != 0:
                    return E.const(x / y)
        else:
            x, y = int(x), int(y)
            if op == '+': return E.const(x + y)
            if op == '-': return E.const(x - y)
            if op == '*': return E.const(x * y)
            if op == '/':
                if y != 0:
                    q = abs(x) // abs(y)
                    return E.const(q if (x >= 0) == (y >= 0) else -q)
            if op == '%':
                if y != 0:
                    q = abs(x) // abs(y)
                    q = q if (x >= 0) == (y >= 0) else -q
                    return E.const(x - q * y)
    if ty == REAL:
        if a.ty != REAL: a = to_real(a)
        if b.ty != REAL: b = to_real(b)
    # light simplification
    if op == '+':
        if a.op == 'const' and a.args[0] == 0: return b
        if b.op == 'const' and b.args[0] == 0: return a
    if op == '-':
        if b.op == 'const' and b.args[0] == 0: return a
    if op == '*':
        if a.op == 'const' and a.args[0] == 1: return b
        if b.op == 'const' and b.args[0] == 1: return a
        if (a.op == 'const' and a.args[0] == 0) or (b.op == 'const' and b.args[0] == 0):
            return E.const(Fraction(0)) if ty == REAL else E.const(0)
    if op == '/':
        if b.op == 'const' and b.args[0] == 1: return a
        if ty == REAL and b.op == 'const' and b.args[0] != 0:
            return mk_arith('*', a, E.const(1 / Fraction(b.args[0])))
    return E(op, (a, b), ty)


def mk_neg(a):
    if a.op == 'const':
        return E.const(-a.args[0])
    return E('neg', (a,), a.ty)


_CMP = {'<': lambda x, y: x < y, '<=': lambda x, y: x <= y, '>': lambda x, y: x > y, '>=': lambda x, y: x >= y,
        '==': lambda x, y: x == y, '!=': lambda x, y: x != y}


def mk_cmp(op, a, b):
    if a.op == 'const' and b.op == 'const':
        return E.const(bool(_CMP[op](a.args[0], b.args[0])))
    if a.ty == REAL or b.ty == REAL:
        if a.ty != REAL: a = to_real(a)
        if b.ty != REAL: b = to_real(b)
    return E(op, (a, b), BOOL)


def mk_and(a, b):
    if a.op == 'const': return b if a.args[0] else E.const(False)
    if b.op == 'const': return a if b.args[0] else E.const(False)
    return E('&&', (a, b), BOOL)


def mk_or(a, b):
    if a.op == 'const': return E.const(True) if a.args[0] else b
    if b.op == 'const': return E.const(True) if b.args[0] else a
    return E('||', (a, b), BOOL)


def mk_not(a):
    if a.op == 'const': return E.const(not a.args[0])
    if a.op == '!': return a.args[0]
    return E('!', (a,), BOOL)


def implies(a, b):
    return mk_or(mk_not(E.const(a)), E.const(b))


def ite(c, a, b):
    c, a, b = E.const(c), E.const(a), E.const(b)
    if c.op == 'const':
        return a if c.args[0] else b
    ty = a.ty
    if a.ty != b.ty:
        if REAL in (a.ty, b.ty):
            a, b, ty = to_real(a), to_real(b), REAL
    return E('ite', (c, a, b), ty)


def conj(xs):
    r = E.const(True)
    for x in xs:
        r = mk_and(r, E.const(x))
    return r


def disj(xs):
    r = E.const(False)
    for x in xs:
        r = mk_or(r, E.const(x))
    return r


def esum(xs, real=True):
    r = E.const(Fraction(0)) if real else E.const(0)
    for x in xs:
        r = r + x
    return r


def imod(a, b):
    return mk_arith('%', E.const(a), E.const(b))


# ---- printing -------------------------------------------------------------------------------------

class Printer(object):
    """mode 'real': CBMC rational C; non-integer constants become named globals K_p_q (collected in .consts).
       mode 'double': native C with double literals."""

    def __init__(self, mode='real', i2r=None):
        self.mode = mode
        self.consts = {}
        self.i2r = i2r    # callable E(int) -> C string, for symbolic int->real conversions

    def const_name(self, fr):
        fr = Fraction(fr)
        neg = fr < 0
        a = abs(fr)
        name = 'K_%s%d_%d' % ('m' if neg else '', a.numerator, a.denominator)
        self.consts[name] = fr
        return name

    def p(self, e):
        op = e.op
        if op == 'const':
            v = e.args[0]
            if e.ty == BOOL:
                return '1' if v else '0'
            if e.ty == INT:
                return str(int(v)) if v >= 0 else '(%d)' % int(v)
            fr = Fraction(v)
            if self.mode == 'double':
                if fr.denominator == 1:
                    return '%d.0' % fr.numerator if fr >= 0 else '(%d.0)' % fr.numerator
                return '(%d.0/%d.0)' % (fr.numerator, fr.denominator)
            if fr.denominator == 1:
                return str(fr.numerator) if fr >= 0 else '(%d)' % fr.numerator
            return self.const_name(fr)
        if op == 'var':
            return e.args[0]
        if op == 'idx':
            return '%s[%s]' % (e.args[0], self.p(e.args[1]))
        if op == 'i2r':
            if self.mode == 'double':
                return '((double)%s)' % self.p(e.args[0])
            if self.i2r is None:
                raise ValueError('symbolic int->real conversion of %s needs an i2r model' % self.p(e.args[0]))
            return self.i2r(e.args[0], self)
        if op == 'neg':
            return '(-%s)' % self.p(e.args[0])
        if op == '!':
            return '(!%s)' % self.p(e.args[0])
        if op == 'ite':
            return '(%s ? %s : %s)' % tuple(self.p(a) for a in e.args)
        if op == '*' and self.mode == 'real' and e.ty == REAL:
            a, b = e.args
            # x * (p/q) -> (x*p)/q keeps constants as integers (no cast to rational is available)
            for x, c in ((a, b), (b, a)):
                if c.op == 'const' and Fraction(c.args[0]).denominator != 1:
                    fr = Fraction(c.args[0])
                    num = '(%s*%s)' % (self.p(x), self.p(E.const(Fraction(fr.numerator)))) if fr.numerator != 1 else self.p(x)
                    return '(%s/%d)' % (num, fr.denominator)
        if op in ('==', '!=') and e.args[0].ty == BOOL and e.args[1].ty == BOOL:
            # compare truth values, not representations (a nondet _Bool need not be canonical)
            return '((!!%s) %s (!!%s))' % (self.p(e.args[0]), op, self.p(e.args[1]))
        if op in ('|', '&', '^', '<<', '>>'):
            return '(%s %s %s)' % (self.p(e.args[0]), op, self.p(e.args[1]))
        if op in ('+', '-', '*', '/', '%', '<', '<=', '>', '>=', '==', '!=', '&&', '||'):
            return '(%s %s %s)' % (self.p(e.args[0]), op, self.p(e.args[1]))
        raise ValueError('cannot print op %r' % op)


_default_printer = Printer('double')


def cstr(e):
    try:
        return _default_printer.p(E.const(e))
    except Exception as ex:  # pragma: no cover
        return '<unprintable %s>' % ex


def subst(e, mapping):
    """substitute variables (by name) with expressions"""
    if not isinstance(e, E):
        return e
    if e.op == 'var':
        return mapping.get(e.args[0], e)
    if e.op == 'const':
        return e
    if e.op == 'idx':
        arr = mapping.get('@' + e.args[0], e.args[0])
        return E('idx', (arr, subst(e.args[1], mapping)), e.ty)
    args = [subst(a, mapping) for a in e.args]
    return rebuild(e.op, args, e.ty)


def mk_bitop(op, a, b):
    a, b = E.const(a), E.const(b)
    if a.op == 'const' and b.op == 'const':
        x, y = int(a.args[0]), int(b.args[0])
        return E.const({'|': x | y, '&': x & y, '^': x ^ y, '<<': x << y, '>>': x >> y}[op])
    if op == '<<' and b.op == 'const' and int(b.args[0]) == 0:
        return a
    return E(op, (a, b), INT)


def rebuild(op, args, ty):
    if op in ('|', '&', '^', '<<', '>>'):
        return mk_bitop(op, args[0], args[1])
    if op in ('+', '-', '*', '/', '%'):
        return mk_arith(op, args[0], args[1])
    if op in _CMP:
        return mk_cmp(op, args[0], args[1])
    if op == '&&': return mk_and(*args)
    if op == '||': return mk_or(*args)
    if op == '!': return mk_not(args[0])
    if op == 'neg': return mk_neg(args[0])
    if op == 'ite': return ite(*args)
    if op == 'i2r': return to_real(args[0])
    return E(op, args, ty)


def free_vars(e, acc=None):
    if acc is None:
        acc = set()
    if e.op == 'var':
        acc.add(e.args[0])
    elif e.op == 'idx':
        acc.add('@' + e.args[0])
        free_vars(e.args[1], acc)
    elif e.op != 'const':
        for a in e.args:
            free_vars(a, acc)
    return acc
