"""Abstract values manipulated by the translator: scalars are expr.E; everything else is defined here.

Storage model (flat, because CBMC cannot take the address of a rational):
  * a matrix with a dynamic number of rows and C columns  -> C unbounded arrays  <name>_c<j>[row]  + int <name>_rows
  * a small fixed matrix (R x C python ints)               -> R*C scalar variables <name>_<r>_<c>
  * std::vector<double>                                     -> array <name>_d[] + int <name>_size
  * std::vector<struct of doubles/ints>                     -> one array per field <name>_f_<field>[] + int <name>_size
  * std::vector<MatrixType> (PPolyND derivative cache)      -> MAXV matrices <name>_v<k>_... + int <name>_size
  * class-typed members                                     -> same rules under the prefix <member>__
"""
from expr import E, INT, REAL, BOOL, to_real, ite, conj, esum
from ir import LV


def isE(x):
    return isinstance(x, E)


def cint(x):
    """python int if x is a constant, else None"""
    if isinstance(x, int) and not isinstance(x, bool):
        return x
    if isE(x) and x.op == 'const' and x.ty == INT:
        return int(x.args[0])
    return None


class Mat(object):
    """R x C matrix value. R, C: python int or E(int).  at(r,c) -> E ; lv(r,c) -> LV or None"""
    R = None
    C = None
    writable = False

    def at(self, r, c):
        raise NotImplementedError

    def lv(self, r, c):
        return None

    def is_vector(self):
        return cint(self.R) == 1 or cint(self.C) == 1

    def vlen(self):
        return self.C if cint(self.R) == 1 else self.R

    def vat(self, i):
        return self.at(0, i) if cint(self.R) == 1 else self.at(i, 0)

    def vlv(self, i):
        return self.lv(0, i) if cint(self.R) == 1 else self.lv(i, 0)

    def storage(self):
        """(scalars [(name,ty)], arrays [(name,ty)]) backing this value, if it is whole storage"""
        return None


class StoreMat(Mat):
    """dynamic rows x fixed python-int columns, backed by arrays name_c<j> and ghost int name_rows"""
    writable = True

    def __init__(self, name, cols, ty=REAL):
        self.name = name
        self.C = cols
        self.ty = ty
        self.R = E.var(name + '_rows', INT)

    def col(self, c):
        return '%s_c%d' % (self.name, c)

    def at(self, r, c):
        cc = cint(c)
        if cc is None:
            # symbolic column: select
            res = E.idx(self.col(self.C - 1), r, self.ty)
            for j in range(self.C - 2, -1, -1):
                res = ite(E.const(c).eq(j), E.idx(self.col(j), r, self.ty), res)
            return res
        assert 0 <= cc < self.C, (self.name, cc, self.C)
        return E.idx(self.col(cc), r, self.ty)

    def lv(self, r, c):
        cc = cint(c)
        if cc is None:
            raise ValueError('write to symbolic column of %s' % self.name)
        assert 0 <= cc < self.C, (self.name, cc, self.C)
        return LV(self.col(cc), self.ty, E.const(r))

    def rows_lv(self):
        return LV(self.name + '_rows', INT)

    def storage(self):
        return ([(self.name + '_rows', INT)], [(self.col(j), self.ty) for j in range(self.C)])

    def renamed(self, newname):
        return StoreMat(newname, self.C, self.ty)


class SmallMat(Mat):
    writable = True

    def __init__(self, name, R, C, ty=REAL):
        self.name = name
        self.R = R
        self.C = C
        self.ty = ty

    def vn(self, r, c):
        return '%s_%d_%d' % (self.name, r, c)

    def at(self, r, c):
        rr, cc = cint(r), cint(c)
        if rr is not None and cc is not None:
            assert 0 <= rr < self.R and 0 <= cc < self.C, (self.name, rr, cc, self.R, self.C)
            return E.var(self.vn(rr, cc), self.ty)
        # symbolic index into a small matrix: select chain
        res = None
        for i in range(self.R - 1, -1, -1):
            for j in range(self.C - 1, -1, -1):
                if rr is not None and rr != i: continue
                if cc is not None and cc != j: continue
                cell = E.var(self.vn(i, j), self.ty)
                if res is None:
                    res = cell
                else:
                    cond = conj([E.const(r).eq(i) if rr is None else True, E.const(c).eq(j) if cc is None else True])
                    res = ite(cond, cell, res)
        return res

    def lv(self, r, c):
        rr, cc = cint(r), cint(c)
        if rr is None or cc is None:
            raise ValueError('write to symbolic cell of small matrix %s' % self.name)
        assert 0 <= rr < self.R and 0 <= cc < self.C, (self.name, rr, cc)
        return LV(self.vn(rr, cc), self.ty)

    def storage(self):
        return ([(self.vn(r, c), self.ty) for r in range(self.R) for c in range(self.C)], [])

    def renamed(self, newname):
        return SmallMat(newname, self.R, self.C, self.ty)


class DynSmallMat(SmallMat):
    """Eigen::MatrixXd whose dimensions are bounded by a configuration constant (PPolyND factor table):
    stored as a MAX x MAX small matrix plus ghost dimension variables."""

    def __init__(self, name, maxdim):
        SmallMat.__init__(self, name, maxdim, maxdim)
        self.rows_var = LV(name + '_nrows', INT)
        self.cols_var = LV(name + '_ncols', INT)

    def storage(self):
        s, a = SmallMat.storage(self)
        return (s + [(self.name + '_nrows', INT), (self.name + '_ncols', INT)], a)

    def renamed(self, newname):
        return DynSmallMat(newname, self.R)


class ExprMat(Mat):
    def __init__(self, R, C, fn, lvfn=None):
        self.R = R
        self.C = C
        self.fn = fn
        self.lvfn = lvfn
        self.writable = lvfn is not None

    def at(self, r, c):
        return self.fn(r, c)

    def lv(self, r, c):
        return self.lvfn(r, c) if self.lvfn else None


def view(base, r0, c0, R, C):
    r0e, c0e = E.const(r0), E.const(c0)

    def off(a, b):
        ca, cb = cint(a), cint(b)
        if ca is not None and cb is not None:
            return ca + cb
        return E.const(a) + E.const(b)
    return ExprMat(R, C, lambda r, c: base.at(off(r0e, r), off(c0e, c)),
                   (lambda r, c: base.lv(off(r0e, r), off(c0e, c))) if base.writable else None)


def transpose(m):
    return ExprMat(m.C, m.R, lambda r, c: m.at(c, r), (lambda r, c: m.lv(c, r)) if m.writable else None)


def const_mat(R, C, v):
    return ExprMat(R, C, lambda r, c: E.const(v))


class StdVec(object):
    """std::vector<double|int>"""

    def __init__(self, name, ty=REAL):
        self.name = name
        self.ty = ty

    @property
    def arr(self):
        return self.name + '_d'

    def size(self):
        return E.var(self.name + '_size', INT)

    def size_lv(self):
        return LV(self.name + '_size', INT)

    def at(self, i):
        return E.idx(self.arr, i, self.ty)

    def lv(self, i):
        return LV(self.arr, self.ty, E.const(i))

    def storage(self):
        return ([(self.name + '_size', INT)], [(self.arr, self.ty)])

    def renamed(self, newname):
        return StdVec(newname, self.ty)


class StructVec(object):
    """std::vector<struct>; fields: [(name, ty)]"""

    def __init__(self, name, fields):
        self.name = name
        self.fields = list(fields)

    def size(self):
        return E.var(self.name + '_size', INT)

    def size_lv(self):
        return LV(self.name + '_size', INT)

    def farr(self, f):
        return '%s_f_%s' % (self.name, f)

    def elem(self, i):
        return StructElem(self, E.const(i))

    def storage(self):
        return ([(self.name + '_size', INT)], [(self.farr(f), t) for f, t in self.fields])

    def renamed(self, newname):
        return StructVec(newname, self.fields)


class StructElem(object):
    def __init__(self, vec, i):
        self.vec = vec
        self.i = i

    def field(self, f):
        for n, t in self.vec.fields:
            if n == f:
                return LV(self.vec.farr(f), t, self.i)
        raise KeyError(f)


class MatVec(object):
    """std::vector<MatrixType> with at most maxn entries"""

    def __init__(self, name, maxn, cols):
        self.name = name
        self.maxn = maxn
        self.mats = [StoreMat('%s_v%d' % (name, k), cols) for k in range(maxn)]

    def size(self):
        return E.var(self.name + '_size', INT)

    def size_lv(self):
        return LV(self.name + '_size', INT)

    def at(self, k):
        ck = cint(k)
        if ck is not None:
            if not (0 <= ck < self.maxn):
                raise IndexError('%s[%d] beyond configured maximum %d' % (self.name, ck, self.maxn))
            return self.mats[ck]
        ke = E.const(k)
        mats = self.mats

        def fn(r, c):
            res = mats[-1].at(r, c)
            for j in range(len(mats) - 2, -1, -1):
                res = ite(ke.eq(j), mats[j].at(r, c), res)
            return res
        rows = mats[-1].R
        for j in range(len(mats) - 2, -1, -1):
            rows = ite(ke.eq(j), mats[j].R, rows)
        em = ExprMat(rows, mats[0].C, fn)
        em.is_whole = True      # designates one whole element of the vector (an l-value of matrix type)
        return em

    def storage(self):
        s, a = [(self.name + '_size', INT)], []
        for m in self.mats:
            ss, aa = m.storage()
            s += ss
            a += aa
        return (s, a)

    def renamed(self, newname):
        return MatVec(newname, self.maxn, self.mats[0].C)


class Obj(object):
    """instance of a class: fields name -> value"""

    def __init__(self, cls, cfg, prefix, fields):
        self.cls = cls          # cxxast.ClassInfo
        self.cfg = cfg          # template configuration of this object
        self.prefix = prefix
        self.fields = fields    # dict

    def storage(self):
        s, a = [], []
        for v in self.fields.values():
            st = storage_of(v)
            if st:
                s += st[0]
                a += st[1]
        return (s, a)


class ScalarVar(object):
    """a named scalar variable (member or local) -- reading gives E.var, writing an Assign"""

    def __init__(self, name, ty):
        self.name = name
        self.ty = ty

    def rd(self):
        return E.var(self.name, self.ty)

    def lv(self):
        return LV(self.name, self.ty)

    def storage(self):
        return ([(self.name, self.ty)], [])

    def renamed(self, newname):
        return ScalarVar(newname, self.ty)


class CellRef(object):
    """an l-value designating one scalar cell (array element or field); behaves like ScalarVar"""

    def __init__(self, lv):
        self._lv = lv
        self.ty = lv.ty

    def rd(self):
        return self._lv.rd()

    def lv(self):
        return self._lv


class PtrV(object):
    """pointer value. kind 'int*' : (null: E bool, target: ScalarVar)   kind 'obj*': (null, obj) ; tag identifies provenance"""

    def __init__(self, null, target, tag=None):
        self.null = E.const(null)
        self.target = target
        self.tag = tag


class EnumV(object):
    def __init__(self, enum, e):
        self.enum = enum
        self.e = E.const(e)


class StrV(object):
    """std::string reduced to its emptiness bit"""

    def __init__(self, name):
        self.name = name

    def empty(self):
        return E.var(self.name + '_empty', BOOL)

    def empty_lv(self):
        return LV(self.name + '_empty', BOOL)

    def storage(self):
        return ([(self.name + '_empty', BOOL)], [])

    def renamed(self, newname):
        return StrV(newname)


class StrTmp(object):
    """string rvalue: only emptiness is tracked"""

    def __init__(self, empty):
        self.is_empty = E.const(empty)


class CountVec(object):
    """std::vector<std::string>: only the element count is tracked"""

    def __init__(self, name):
        self.name = name

    def size(self):
        return E.var(self.name + '_size', INT)

    def size_lv(self):
        return LV(self.name + '_size', INT)

    def storage(self):
        return ([(self.name + '_size', INT)], [])

    def renamed(self, newname):
        return CountVec(newname)


class IterV(object):
    def __init__(self, vec, pos):
        self.vec = vec
        self.pos = E.const(pos)


class LambdaV(object):
    def __init__(self, node, env, this):
        self.node = node
        self.env = env
        self.this = this


class BoundMethod(object):
    def __init__(self, obj, name, node=None, targs=None):
        self.obj = obj
        self.name = name
        self.node = node
        self.targs = targs


class TypeV(object):
    """a type used as a value (T::Zero(), static calls)"""

    def __init__(self, desc):
        self.desc = desc


class Void(object):
    pass


VOID = Void()


def storage_of(v):
    if hasattr(v, 'storage'):
        return v.storage()
    return None


class PtrSlot(object):
    """pointer-typed member or variable.  C-level state: <name>_null (bool) and <name>_tag (int, identity of pointee).
    The python-level `target` is the abstract object the pointer designates when non-null (set by the harness)."""

    def __init__(self, name, to):
        self.name = name
        self.to = to
        self.target = None

    def null(self):
        return E.var(self.name + '_null', BOOL)

    def null_lv(self):
        return LV(self.name + '_null', BOOL)

    def tag(self):
        return E.var(self.name + '_tag', INT)

    def tag_lv(self):
        return LV(self.name + '_tag', INT)

    def storage(self):
        return ([(self.name + '_null', BOOL), (self.name + '_tag', INT)], [])

    def renamed(self, newname):
        p = PtrSlot(newname, self.to)
        p.target = self.target
        return p


class MutexV(object):
    """std::mutex member: no data; only named by scoped locks"""

    def __init__(self, name):
        self.name = name

    def storage(self):
        return ([], [])

    def renamed(self, newname):
        return MutexV(newname)
