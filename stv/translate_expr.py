"""Expression rules of the translator (mixin)."""
from fractions import Fraction
import re

from expr import E, INT, REAL, BOOL, to_real, ite, conj, disj, esum, implies, mk_not, imod
from ir import LV, Assign, If, Assert, Assume, Havoc, ArrCopy, MapAssign, AssumeForall
from values import *
from cxxast import ExtractionError, get_class, src_text, where, params_of, body_of
from ctypes_ import TD, TypeEnv, resolve, MAXV

TRANSPARENT = ('ImplicitCastExpr', 'ParenExpr', 'MaterializeTemporaryExpr', 'ExprWithCleanups', 'CXXBindTemporaryExpr',
               'ConstantExpr', 'FullExpr')
DERIV_ENUM = {'Pos': 0, 'Vel': 1, 'Acc': 2, 'Jerk': 3, 'Snap': 4, 'Crackle': 5, 'Pop': 6}


def fail(node, msg):
    raise ExtractionError('%s at %s: %s' % (msg, where(node), (src_text(node) or '')[:160].replace('\n', ' ')))


def kids(n):
    return [c for c in (n.get('inner') or []) if c.get('kind') is not None] if n.get('inner') else []


class ExprMixin(object):

    # ---------------------------------------------------------------------------------------------- dispatcher
    def ev(self, n):
        k = n.get('kind')
        if k in TRANSPARENT:
            inner = kids(n)
            if k == 'ImplicitCastExpr':
                return self.cast(n, self.ev(inner[0]))
            return self.ev(inner[0])
        m = getattr(self, 'ev_' + k, None)
        if m is None:
            fail(n, 'no expression rule for AST node kind %s' % k)
        return m(n)

    def cast(self, n, v):
        ck = n.get('castKind')
        if ck in ('IntegralToFloating',):
            return to_real(self.scalar(v, n))
        if ck == 'FloatingToIntegral':
            return self.real_to_int(v, n)
        if ck == 'IntegralToBoolean':
            return self.scalar(v, n).ne(0)
        if ck == 'PointerToBoolean':
            if isinstance(v, PtrV):
                return mk_not(v.null)
            if isinstance(v, PtrSlot):
                return mk_not(v.null())
            fail(n, 'pointer to boolean of %s' % type(v).__name__)
        if ck == 'FloatingCast':
            return v
        if ck == 'IntegralCast':
            return v
        return v

    def to_type(self, v, tstr, n):
        """explicit casts: static_cast<T>, (T)x, T(x)"""
        t = tstr.strip()
        if t in ('double', 'float'):
            return to_real(self.scalar(v, n))
        if t in ('int', 'long', 'size_t', 'std::size_t', 'unsigned long', 'unsigned int', 'unsigned', 'unsigned char', 'uint32_t', 'uint8_t', 'std::uint32_t', 'std::uint8_t'):
            if isinstance(v, EnumV):
                return v.e
            s = self.scalar(v, n)
            if s.ty == REAL:
                fail(n, 'cast real -> int')
            if s.ty == BOOL:
                return ite(s, 1, 0)
            return s
        if t == 'bool':
            s = self.scalar(v, n)
            return s if s.ty == BOOL else s.ne(0)
        return v

    # ---------------------------------------------------------------------------------------------- literals
    def ev_IntegerLiteral(self, n):
        return E.const(int(n['value']))

    def ev_FloatingLiteral(self, n):
        txt = src_text(n)
        if txt is None:
            txt = n['value']
        txt = txt.strip().rstrip('fFlL')
        try:
            return E.const(Fraction(txt))
        except Exception:
            fail(n, 'cannot read floating literal %r' % txt)

    def ev_CXXBoolLiteralExpr(self, n):
        return E.const(bool(n['value']))

    def ev_CXXNullPtrLiteralExpr(self, n):
        return PtrV(True, None, 'nullptr')

    def ev_GNUNullExpr(self, n):
        return PtrV(True, None, 'nullptr')

    def ev_StringLiteral(self, n):
        return StrTmp(len(src_text(n) or '""') <= 2)

    def ev_CXXThisExpr(self, n):
        return self.frame.this

    def ev_CXXDefaultArgExpr(self, n):
        fail(n, 'default argument expression must be resolved at the call site')

    # ---------------------------------------------------------------------------------------------- names
    def ev_DeclRefExpr(self, n):
        rd = n.get('referencedDecl', {})
        name = rd.get('name')
        kind = rd.get('kind')
        v = self.lookup(name)
        if v is not None:
            return v
        this = self.frame.this
        cfg = this.cfg if isinstance(this, Obj) else {}
        if kind in ('NonTypeTemplateParmDecl',):
            if name in cfg:
                c = cfg[name]
                if c is None:
                    return E.const(-1)     # Eigen::Dynamic
                return E.const(c)
            fail(n, 'unbound template parameter %s' % name)
        if kind == 'EnumConstantDecl':
            if name in DERIV_ENUM:
                return EnumV('Deriv', DERIV_ENUM[name])
            if name in ('ColMajor', 'RowMajor', 'Dynamic'):
                return E.const({'ColMajor': 0, 'RowMajor': 1, 'Dynamic': -1}[name])
            fail(n, 'unknown enumerator %s' % name)
        if kind == 'VarDecl':
            cls = this.cls if isinstance(this, Obj) else None
            c = cls
            while c is not None:
                if name in c.statics:
                    v = self.static_eval(c, cfg, name)
                    return v if isinstance(v, Mat) else E.const(v)
                c = getattr(c, 'outer', None)
            if name == 'Dynamic':
                return E.const(-1)
            fail(n, 'unknown variable %s' % name)
        if kind in ('FunctionDecl', 'CXXMethodDecl', 'FunctionTemplateDecl'):
            return BoundMethod(None, name, n)
        fail(n, 'unresolved name %s (%s)' % (name, kind))

    def ev_DependentScopeDeclRefExpr(self, n):
        txt = (src_text(n) or '').replace(' ', '')
        return self.qualified_name(txt, n)

    def qualified_name(self, txt, n):
        this = self.frame.this
        cfg = this.cfg if isinstance(this, Obj) else {}
        m = re.fullmatch(r'(?:typename)?(\w+)::(\w+)', txt)
        if m:
            owner, name = m.group(1), m.group(2)
            if owner in cfg and isinstance(cfg[owner], dict):
                sub = cfg[owner]
                cls = get_class(sub['cls'])
                if name in cls.statics:
                    return E.const(self.static_eval(cls, sub['cfg'], name))
                if name in cls.methods:
                    return BoundMethod(TypeV(TD('obj', cls=sub['cls'], cfg=sub['cfg'])), name, n)
            if name == 'Zero':
                c = this.cls
                while owner not in c.aliases and getattr(c, 'outer', None) is not None:
                    c = c.outer
                td = resolve(owner, self.tenv(c, cfg))
                return BoundMethod(TypeV(td), 'Zero', n)
            if owner == 'Eigen' and name == 'Dynamic':
                return E.const(-1)
        if re.fullmatch(r'TypeTraits::Has\w+Interface<.*>::value', txt):
            # compile-time protocol checks of user functor types (static_assert'ed by the code): the abstract functors conform
            return E.const(True)
        m = re.fullmatch(r'(?:!)?std::is_same_v<(\w+),(\w+)>', txt)
        if m:
            ta = self.opt.get('type_aliases', {})
            a, b = (ta.get(x, x) for x in m.groups())
            return E.const(a == b)
        fail(n, 'no rule for qualified name %s' % txt)

    def field_of(self, base, name, n):
        if isinstance(base, PtrV):
            base = base.target
        if isinstance(base, PtrSlot):
            if base.target is None:
                fail(n, 'dereference of pointer %s with unknown target' % base.name)
            base = base.target
        if isinstance(base, Obj):
            if name in base.fields:
                return base.fields[name]
            c = base.cls
            if name in c.methods:
                return BoundMethod(base, name, n)
            if name in c.statics:
                return E.const(self.static_eval(c, base.cfg, name))
            fail(n, 'class %s has no member %s' % (c.name, name))
        if isinstance(base, StructElem):
            return CellRef(base.field(name))
        if isinstance(base, dict):
            if name in base:
                return base[name]
        return BoundMethod(base, name, n)

    def ev_MemberExpr(self, n):
        inner = kids(n)
        base = self.ev(inner[0]) if inner else self.frame.this
        name = n['name']
        if name.startswith('template '):
            name = name[len('template '):].strip()
        if isinstance(base, PtrSlot) and not n.get('isArrow') and name in ('reset', 'get', 'release'):
            bm = BoundMethod(base, name, n)
            bm.smart = True          # member of the smart pointer itself, not of the pointee
            return bm
        v = self.field_of(base, name, n)
        if isinstance(v, BoundMethod) and v.targs is None and re.search(r'<[^<>]*>\s*$', src_text(n) or ''):
            v.targs = self.template_args(n)
        return v

    def ev_CXXDependentScopeMemberExpr(self, n):
        inner = kids(n)
        if not inner:
            txt = (src_text(n) or '').replace(' ', '')
            txt = re.sub(r'<[^<>]*>$', '', txt)
            if '::' in txt:
                return self.qualified_name(txt, n)
        base = self.ev(inner[0]) if inner else self.frame.this
        if isinstance(base, PtrSlot) and not n.get('isArrow') and n['member'] in ('reset', 'get', 'release'):
            bm = BoundMethod(base, n['member'], n)
            bm.smart = True
            return bm
        v = self.field_of(base, n['member'], n)
        if isinstance(v, BoundMethod) and n.get('explicitTemplateArgs') is not None:
            v.targs = self.template_args(n)
        return v

    def template_args(self, n):
        """explicit template arguments of a member call, read from the source text: middleRows<2>, block<R, C>, segment<DIM>"""
        txt = src_text(n) or ''
        m = re.search(r'<([^<>]*)>\s*$', txt)
        if not m:
            return None
        this = self.frame.this
        te = self.tenv(this.cls, this.cfg)
        out = []
        for a in m.group(1).split(','):
            a = a.strip()
            v = self.lookup(a)
            if v is not None and isE(self.rd(v)) and self.rd(v).is_const():
                out.append(int(self.rd(v).cval()))
            else:
                out.append(te.const(a))
        return out

    def ev_UnresolvedMemberExpr(self, n):
        inner = kids(n)
        base = self.ev(inner[0]) if inner else self.frame.this
        txt = src_text(n) or ''
        name = re.split(r'->|\.', txt)[-1].strip()
        name = re.sub(r'<.*$', '', name)
        name = re.sub(r'^template\s+', '', name)
        bm = BoundMethod(base, name, n)
        if re.search(r'<[^<>]*>\s*$', txt):
            bm.targs = self.template_args(n)
        return bm

    def ev_UnresolvedLookupExpr(self, n):
        name = n.get('name')
        if name == 'is_same_v':
            txt = (src_text(n) or '').replace(' ', '')
            m = re.search(r'is_same_v<(\w+),(\w+)>', txt)
            if m:
                # functor types of a function template: given by the task (type_aliases), e.g. WCF -> VoidWaypointsCost
                ta = self.opt.get('type_aliases', {})
                a, b = (ta.get(x, x) for x in m.groups())
                return E.const(a == b)
        v = self.lookup(name)
        if v is not None:
            return v
        return BoundMethod(None, name, n)

    # ---------------------------------------------------------------------------------------------- operators
    def ev_UnaryOperator(self, n):
        op = n['opcode']
        sub = kids(n)[0]
        if op in ('++', '--'):
            tgt = self.ev(sub)
            if isinstance(tgt, IterV):
                fail(n, 'iterator increment')
            lv = self.lvalue_scalar(tgt, n)
            old = lv.rd()
            new = old + 1 if op == '++' else old - 1
            if n.get('isPostfix'):
                t = self.new_scalar('post', lv.ty)
                self.assign(t.lv(), old)
                self.assign(lv, new)
                return t.rd()
            self.assign(lv, new)
            return tgt
        v = self.ev(sub)
        if op == '-':
            if isinstance(v, Mat):
                return ExprMat(v.R, v.C, lambda r, c: -v.at(r, c))
            return -self.scalar(v, n)
        if op == '+':
            return v
        if op == '!':
            s = self.rd(v)
            if isinstance(s, PtrV):
                return s.null
            if isinstance(s, PtrSlot):
                return s.null()
            s = self.scalar(s, n)
            return mk_not(s if s.ty == BOOL else s.ne(0))
        if op == '*':
            if isinstance(v, PtrV):
                self.obligation(mk_not(v.null), 'null dereference %s' % where(n), 'bounds')
                return v.target
            if isinstance(v, PtrSlot):
                self.obligation(mk_not(v.null()), 'null dereference %s' % where(n), 'bounds')
                return v.target
            if isinstance(v, Obj):
                return v           # *this
            if isinstance(v, IterV):
                return CellRef(v.vec.lv(v.pos))
            fail(n, 'dereference of %s' % type(v).__name__)
        if op == '&':
            return PtrV(False, v, 'addr')
        fail(n, 'no rule for unary operator %s' % op)

    def lvalue_scalar(self, v, n):
        if isinstance(v, (ScalarVar, CellRef)):
            return v.lv()
        if isinstance(v, Mat) and cint(v.R) == 1 and cint(v.C) == 1 and v.writable:
            return v.lv(0, 0)
        fail(n, 'not a scalar l-value (%s)' % type(v).__name__)

    def ev_BinaryOperator(self, n):
        op = n['opcode']
        a, b = kids(n)
        if op == '=':
            return self.do_assign(a, b, '=', n)
        if op == ',':
            x = self.ev(a)
            if isinstance(x, CommaInit):
                x.push(self, self.rd(self.ev(b)), n)      # Eigen comma initialiser:  m << a, b, c
                return x
            return self.ev(b)
        if op in ('&&', '||'):
            x = self.truth(self.ev(a), a)
            saved = self.guard
            self.guard = self.guard & (x if op == '&&' else mk_not(x))
            try:
                y = self.truth(self.ev(b), b)
            finally:
                self.guard = saved
            return (x & y) if op == '&&' else (x | y)
        x = self.ev(a)
        y = self.ev(b)
        if op == '-' and 'unsigned' in n.get('type', {}).get('qualType', '') or (op == '-' and n.get('type', {}).get('qualType', '') in ('size_t', 'std::size_t', 'std::vector::size_type', 'unsigned long')):
            xs, ys = self.rd(x), self.rd(y)
            if isE(xs) and isE(ys) and xs.ty == INT and ys.ty == INT:
                self.obligation(xs >= ys, 'no unsigned wrap-around in %s' % where(n), 'bounds')
        return self.binop(op, x, y, n)

    def truth(self, v, n):
        v = self.rd(v)
        if isinstance(v, PtrV):
            return mk_not(v.null)
        if isinstance(v, PtrSlot):
            return mk_not(v.null())
        s = self.scalar(v, n)
        return s if s.ty == BOOL else s.ne(0)

    def binop(self, op, x, y, n):
        x, y = self.rd(x), self.rd(y)
        if op in ('|', '&', '^', '<<', '>>') and isE(x) and isE(y) and x.ty in (INT, BOOL) and y.ty in (INT, BOOL):
            from expr import mk_bitop
            ci = lambda v: ite(v, 1, 0) if v.ty == BOOL else v
            return mk_bitop(op, ci(x), ci(y))
        if op == '<<':
            return self.comma_init(x, y, n)
        if isinstance(x, StrTmp) or isinstance(y, StrTmp) or isinstance(x, StrV) or isinstance(y, StrV):
            if op == '+':
                def em(s):
                    if isinstance(s, StrTmp): return s.is_empty
                    if isinstance(s, StrV): return s.empty()
                    return E.const(False)
                return StrTmp(em(x) & em(y))
            fail(n, 'string operator %s' % op)
        if isinstance(x, StdVec) and isinstance(y, StdVec) and op in ('==', '!='):
            # std::vector equality: same size and element-wise equal (witness index for the negative case)
            b = self.new_scalar('veq', BOOL)
            w = self.new_scalar('veq_w', INT)
            self.emit(Havoc(scalars=[(b.name, BOOL), (w.name, INT)]))
            self.emit(Assume(implies(b.rd(), x.size().eq(y.size())), 'vector ==: sizes'))
            self.emit(AssumeForall(0, x.size(), lambda k, x=x, y=y, b=b: implies(b.rd(), x.at(k).eq(y.at(k))), 'vector ==: elements'))
            self.emit(Assume(implies(mk_not(b.rd()), x.size().ne(y.size()) | ((w.rd() >= 0) & (w.rd() < x.size()) & x.at(w.rd()).ne(y.at(w.rd())))), 'vector !=: witness'))
            self.notes.append('std::vector operator== modelled by size and element-wise equality')
            return b.rd() if op == '==' else mk_not(b.rd())
        if isinstance(x, (PtrV, PtrSlot)) or isinstance(y, (PtrV, PtrSlot)):
            return self.ptr_cmp(op, x, y, n)
        if isinstance(x, IterV) and isinstance(y, IterV):
            if op == '-':
                return x.pos - y.pos
            if op in ('==', '!='):
                return x.pos.eq(y.pos) if op == '==' else x.pos.ne(y.pos)
        if isinstance(x, IterV) and op in ('+', '-'):
            return IterV(x.vec, x.pos + self.scalar(y, n) if op == '+' else x.pos - self.scalar(y, n))
        xm, ym = isinstance(x, Mat), isinstance(y, Mat)
        if xm and cint(x.R) == 1 and cint(x.C) == 1 and not ym:
            x, xm = x.at(0, 0), False
        if ym and cint(y.R) == 1 and cint(y.C) == 1 and not xm:
            y, ym = y.at(0, 0), False
        if xm or ym:
            return self.mat_binop(op, x, y, n)
        x, y = self.scalar(x, n), self.scalar(y, n)
        if op == '+': return x + y
        if op == '-': return x - y
        if op == '*': return x * y
        if op == '/': return self.div(x, y, n)
        if op == '%': return imod(x, y)
        if op == '<': return x < y
        if op == '<=': return x <= y
        if op == '>': return x > y
        if op == '>=': return x >= y
        if op == '==': return x.eq(y)
        if op == '!=': return x.ne(y)
        fail(n, 'no rule for binary operator %s' % op)

    def ptr_cmp(self, op, x, y, n):
        if op not in ('==', '!='):
            fail(n, 'pointer operator %s' % op)

        def desc(p):
            if isinstance(p, Obj):
                return E.const(False), p, None          # `this` / address of a known object
            if isinstance(p, PtrV):
                return p.null, p.target, None
            return p.null(), p.target, p
        nx, tx, sx = desc(x)
        ny, ty_, sy = desc(y)
        if isinstance(y, PtrV) and y.tag == 'nullptr':
            r = nx
        elif isinstance(x, PtrV) and x.tag == 'nullptr':
            r = ny
        elif sx is not None and sy is not None:
            r = (nx & ny) | (mk_not(nx) & mk_not(ny) & sx.tag().eq(sy.tag()))
        elif tx is not None and ty_ is not None and not (sx or sy):
            r = E.const(tx is ty_) & mk_not(nx) & mk_not(ny) | (nx & ny)
        else:
            # slot vs address-of known object: compare tags through the object's registered identity
            slot, other = (sx, y) if sx is not None else (sy, x)
            tagv = getattr(other.target, 'identity_tag', None)
            if tagv is None:
                fail(n, 'pointer comparison with object of unknown identity')
            r = mk_not(slot.null()) & slot.tag().eq(tagv)
        return r if op == '==' else mk_not(r)

    def mat_binop(self, op, x, y, n):
        xm, ym = isinstance(x, Mat), isinstance(y, Mat)
        if op in ('+', '-') and xm and ym:
            y = self.same_shape_rt(x, y, n)
            if op == '+':
                return ExprMat(x.R, x.C, lambda r, c: x.at(r, c) + y.at(r, c))
            return ExprMat(x.R, x.C, lambda r, c: x.at(r, c) - y.at(r, c))
        if op == '*':
            if xm and ym:
                K = cint(x.C)
                K2 = cint(y.R)
                if K is None or K2 is None or K != K2:
                    fail(n, 'matrix product with inner dimensions %s, %s' % (x.C, y.R))
                return ExprMat(x.R, y.C, lambda r, c: esum([x.at(r, k) * y.at(k, c) for k in range(K)]))
            if xm:
                s = to_real(self.scalar(y, n))
                return ExprMat(x.R, x.C, lambda r, c: x.at(r, c) * s)
            s = to_real(self.scalar(x, n))
            return ExprMat(y.R, y.C, lambda r, c: s * y.at(r, c))
        if op == '/' and xm and not ym:
            s = self.scalar(y, n)
            if s.is_const():
                inv = E.const(1 / Fraction(s.cval()))
            else:
                inv = self.recip(s, n)
            return ExprMat(x.R, x.C, lambda r, c: x.at(r, c) * inv)
        fail(n, 'no rule for matrix operator %s' % op)

    def same_shape_rt(self, a, b, n):
        ra, ca, rb, cb = cint(a.R), cint(a.C), cint(b.R), cint(b.C)
        if None not in (ra, ca, rb, cb) and (ra, ca) != (rb, cb):
            fail(n, 'shape mismatch %dx%d vs %dx%d' % (ra, ca, rb, cb))
        return b

    def comma_init(self, x, y, n):
        """Eigen comma initialiser: m << a, b, c ... ; also stringstream <<"""
        if isinstance(x, SStream):
            return x
        if isinstance(x, CommaInit):
            x.push(self, y, n)
            return x
        if isinstance(x, Mat) and x.writable:
            ci = CommaInit(x)
            ci.push(self, y, n)
            return ci
        fail(n, 'operator<< on %s' % type(x).__name__)

    def ev_CompoundAssignOperator(self, n):
        a, b = kids(n)
        return self.do_assign(a, b, n['opcode'], n)

    def do_assign(self, a, b, op, n):
        tgt = self.ev(a)
        return self.assign_value(tgt, b, op, n)

    def assign_value(self, tgt, bnode, op, n, bval=None):
        if isinstance(tgt, (ScalarVar, CellRef)) or (isinstance(tgt, Mat) and cint(tgt.R) == 1 and cint(tgt.C) == 1 and tgt.writable and False):
            val = bval if bval is not None else self.ev(bnode)
            lv = tgt.lv()
            if isinstance(val, EnumV):
                val = val.e
            s = self.scalar(val, n)
            if lv.ty == INT and s.ty == REAL:
                fail(n, 'real assigned to int')
            if lv.ty == BOOL and s.ty != BOOL:
                s = s.ne(0)
            old = lv.rd()
            if op == '=': new = s
            elif op == '+=': new = old + s
            elif op == '-=': new = old - s
            elif op == '*=': new = old * s
            elif op == '/=': new = self.div(old, s, n)
            elif op in ('|=', '&=', '^=', '<<=', '>>='):
                from expr import mk_bitop
                new = mk_bitop(op[:-1], old, ite(s, 1, 0) if s.ty == BOOL else s)
            else: fail(n, 'compound operator %s' % op)
            self.assign(lv, new)
            return tgt
        if isinstance(tgt, Mat):
            val = bval if bval is not None else self.ev(bnode)
            val = self.rd(val)
            if isinstance(val, BoundMethod):
                fail(n, 'unevaluated member function assigned')
            self.mat_assign(tgt, val, op, n)
            return tgt
        val = bval if bval is not None else self.ev(bnode)
        if op != '=':
            fail(n, 'compound assignment to %s' % type(tgt).__name__)
        self.copy_value(tgt, val, n)
        return tgt

    def copy_value(self, dst, src, n):
        """deep copy assignment between storage values of the same kind"""
        src0 = src
        if isinstance(dst, StdVec) and isinstance(src, StdVec):
            if dst.name != src.name:
                self.assign(dst.size_lv(), src.size())
                self.emit(ArrCopy(dst.arr, src.arr, dst.ty))
            return
        if isinstance(dst, StructVec) and isinstance(src, StructVec):
            self.assign(dst.size_lv(), src.size())
            for f, t in dst.fields:
                self.emit(ArrCopy(dst.farr(f), src.farr(f), t))
            return
        if isinstance(dst, MatVec) and isinstance(src, MatVec):
            self.assign(dst.size_lv(), src.size())
            for a, b in zip(dst.mats, src.mats):
                self.mat_assign(a, b, '=', n)
            return
        if isinstance(dst, Obj) and isinstance(src, Obj):
            if dst.cls.name != src.cls.name:
                fail(n, 'object assignment between %s and %s' % (dst.cls.name, src.cls.name))
            for f in dst.fields:
                self.copy_value(dst.fields[f], src.fields[f], n)
            return
        if isinstance(dst, (ScalarVar, CellRef)):
            self.assign(dst.lv(), self.scalar(src, n))
            return
        if isinstance(dst, Mat):
            self.mat_assign(dst, self.rd(src), '=', n)
            return
        if isinstance(dst, StrV):
            if isinstance(src, StrV):
                self.assign(dst.empty_lv(), src.empty())
            elif isinstance(src, StrTmp):
                self.assign(dst.empty_lv(), src.is_empty)
            else:
                fail(n, 'string assigned from %s' % type(src).__name__)
            return
        if isinstance(dst, MutexV):
            return       # mutexes are not copyable; only reached for by-reference returns of whole objects (no data)
        if isinstance(dst, CountVec) and isinstance(src, CountVec):
            self.assign(dst.size_lv(), src.size())
            return
        if isinstance(dst, PtrSlot) and isinstance(src, CondPtr):
            def parts(p):
                if isinstance(p, PtrSlot):
                    return p.null(), p.tag(), p.target
                tagv = getattr(p.target, 'identity_tag', None)
                return p.null, (E.const(tagv) if tagv is not None else E.const(-1)), p.target
            na, ta, oa = parts(src.a)
            nb, tb, ob = parts(src.b)
            self.assign(dst.null_lv(), ite(src.c, na, nb))
            self.assign(dst.tag_lv(), ite(src.c, ta, tb))
            if oa is ob:
                dst.target = oa
            return
        if isinstance(dst, PtrSlot) and isinstance(src, OwnedNew):
            # the slot now owns a fresh allocation: its identity is the slot's own allocation tag (distinct from every other
            # object's), its contents are those of the initialiser
            own = getattr(dst, 'owned_tag', None)
            if own is None or dst.target is None:
                fail(n, 'owning pointer without an allocation model (owned_tag/target not set by the harness)')
            self.assign(dst.null_lv(), False)
            self.assign(dst.tag_lv(), own)
            if src.init is not None:
                if not isinstance(src.init, Obj):
                    fail(n, 'allocation initialised from %s' % type(src.init).__name__)
                self.copy_value(dst.target, src.init, n)
            else:
                # make_unique<T>() / new T(): value-initialised by T's default member initialisers / default constructor
                self.default_construct(dst.target, n)
            return
        if isinstance(dst, PtrSlot):
            if isinstance(src, Obj):
                # `this` (or the address of a known object) stored in a pointer member
                self.assign(dst.null_lv(), False)
                tagv = getattr(src, 'identity_tag', None)
                if tagv is not None:
                    self.assign(dst.tag_lv(), tagv)
                dst.target = src
                return
            if isinstance(src, PtrSlot):
                self.assign(dst.null_lv(), src.null())
                self.assign(dst.tag_lv(), src.tag())
                dst.target = src.target
                return
            if isinstance(src, PtrV):
                self.assign(dst.null_lv(), src.null)
                tagv = getattr(src.target, 'identity_tag', None)
                if tagv is not None:
                    self.assign(dst.tag_lv(), tagv)
                elif not (src.null.is_const() and src.null.cval()):
                    fail(n, 'pointer assigned from object of unknown identity')
                dst.target = src.target
                return
        fail(n, 'no copy rule from %s to %s' % (type(src0).__name__, type(dst).__name__))

    def ev_ConditionalOperator(self, n):
        c, a, b = kids(n)
        cv = self.truth(self.ev(c), c)
        if cv.is_const():
            return self.ev(a if cv.cval() else b)
        saved = self.guard
        self.guard = saved & cv
        try:
            x = self.rd(self.ev(a))
        finally:
            self.guard = saved
        self.guard = saved & mk_not(cv)
        try:
            y = self.rd(self.ev(b))
        finally:
            self.guard = saved
        if isinstance(x, (PtrV, PtrSlot)) or isinstance(y, (PtrV, PtrSlot)):
            return CondPtr(cv, x, y)
        if isinstance(x, Obj) and isinstance(y, Obj):
            if x is y:
                return x
            return CondObj(cv, x, y)
        if isinstance(x, Mat) and isinstance(y, Mat):
            return ExprMat(x.R, x.C, lambda r, cc: ite(cv, x.at(r, cc), y.at(r, cc)))
        return ite(cv, self.scalar(x, n), self.scalar(y, n))

    def ev_ArraySubscriptExpr(self, n):
        a, b = kids(n)
        base = self.ev(a)
        idx = self.scalar(self.ev(b), n)
        return self.subscript(base, idx, n)

    def subscript(self, base, idx, n):
        if isinstance(base, StdVec):
            self.bounds(idx, base.size(), base.name, n)
            return CellRef(base.lv(idx))
        if isinstance(base, StructVec):
            self.bounds(idx, base.size(), base.name, n)
            return base.elem(idx)
        if isinstance(base, MatVec):
            self.bounds(idx, base.size(), base.name, n)
            return base.at(idx)
        if isinstance(base, Mat):
            if cint(base.R) is not None and cint(base.R) > 1 and cint(base.C) is not None and cint(base.C) > 1:
                # std::array<std::array<..>>: table[n] -> row
                return view(base, idx, 0, 1, base.C)
            if base.is_vector():
                if isinstance(base, StoreMat):
                    self.bounds(idx, base.R, base.name, n)
                if base.writable:
                    return CellRef(base.vlv(idx)) if cint(idx) is not None or isinstance(base, StoreMat) or True else None
                return base.vat(idx)
        if isinstance(base, VecList):
            return base.at(idx)
        if isinstance(base, CountVec):
            self.bounds(idx, base.size(), base.name, n)
            return StrTmp(False)
        fail(n, 'subscript of %s' % type(base).__name__)

    # ---------------------------------------------------------------------------------------------- casts
    def ev_CXXStaticCastExpr(self, n):
        v = self.ev(kids(n)[0])
        return self.to_type(v, n['type']['qualType'], n)

    ev_CStyleCastExpr = ev_CXXStaticCastExpr
    ev_CXXFunctionalCastExpr = ev_CXXStaticCastExpr

    def ev_CXXConstructExpr(self, n):
        args = kids(n)
        t = n['type']['qualType']
        if len(args) == 1:
            # copy/move/conversion construction: value semantics are applied by the declaration or call rule
            return self.ev(args[0])
        return self.construct(t, args, n)

    ev_CXXTemporaryObjectExpr = ev_CXXConstructExpr

    def ev_CXXUnresolvedConstructExpr(self, n):
        args = kids(n)
        t = n['type']['qualType']
        return self.construct(t, args, n)

    def ev_InitListExpr(self, n):
        return InitList([self.ev(c) for c in kids(n)], n)

    def ev_ParenListExpr(self, n):
        return InitList([self.ev(c) for c in kids(n)], n)

    def ev_LambdaExpr(self, n):
        lv = LambdaV(n, [dict(s) for s in self.frame.scopes], self.frame.this)
        lv.fname = self.frame.fname      # loops of the lambda body are numbered within (and specified by) the defining function
        return lv

    def ev_CXXThrowExpr(self, n):
        self.emit_throw(n)
        return VOID

    def ev_CXXNewExpr(self, n):
        # new T(args): a fresh allocation owned by whoever stores the pointer; the value it is initialised from (copy construction
        # from one object, or default construction) is carried along until the pointer is stored
        init = None
        for c in kids(n):
            if c.get('kind') in ('CXXConstructExpr', 'CXXUnresolvedConstructExpr', 'ParenListExpr', 'InitListExpr', 'CXXTemporaryObjectExpr'):
                args = kids(c)
                if len(args) == 1:
                    init = self.rd(self.ev(args[0]))
                elif len(args) > 1:
                    fail(n, 'operator new with several constructor arguments')
            elif c.get('kind') not in (None,):
                v = self.rd(self.ev(c))
                init = v
        return OwnedNew(init)

    def ev_SubstNonTypeTemplateParmExpr(self, n):
        return self.ev(kids(n)[0])

    def ev_UnaryExprOrTypeTraitExpr(self, n):
        fail(n, 'sizeof/alignof')


class OwnedNew(object):
    """result of `new T(src)` / make_unique<T>(): a fresh allocation; init is the object it is copy-constructed from (None: default)"""

    def __init__(self, init):
        self.init = init


class CommaInit(object):
    def __init__(self, m):
        self.m = m
        self.k = 0

    def push(self, tr, v, n):
        R, C = tr.dims_const(self.m, n)
        v = tr.rd(v)
        if isinstance(v, Mat):
            fail(n, 'matrix block inside comma initialiser')
        r, c = divmod(self.k, C)
        if r >= R:
            fail(n, 'too many coefficients in comma initialiser')
        tr.assign(self.m.lv(r, c), to_real(tr.scalar(v, n)))
        self.k += 1


class SStream(object):
    pass


class InitList(object):
    def __init__(self, items, node):
        self.items = items
        self.node = node


class CondPtr(object):
    def __init__(self, c, a, b):
        self.c, self.a, self.b = c, a, b


class CondObj(object):
    def __init__(self, c, a, b):
        self.c, self.a, self.b = c, a, b


class VecList(object):
    """SplineVector<VectorType> result of batch evaluate: symbolic length, element i given by a function"""

    def __init__(self, size, fn):
        self._size = size
        self.fn = fn

    def size(self):
        return self._size

    def at(self, i):
        return self.fn(i)
