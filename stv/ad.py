"""Forward-mode (tangent) differentiation of straight-line scalar IR.

d(x) for every real scalar assigned by the statements, given seed tangents for the inputs.  Rules: + - * constants,
if/else (tangent chosen by the same condition), reciprocals introduced by the translator (r with b*r == 1: dr = -r*r*db).
Used to state "this adjoint constant is the partial derivative of that forward statement" (C05-C07, C17)."""
from fractions import Fraction
from expr import E, REAL, INT, BOOL, ite, to_real
import ir


class ADError(Exception):
    pass


def d_expr(e, tan):
    """tangent of expression e; tan: name -> E (missing real variables have zero tangent); array cells: key '@arr[idxkey]'"""
    zero = E.const(Fraction(0))
    if e.ty != REAL:
        return zero
    if e.op == 'const':
        return zero
    if e.op == 'var':
        return tan.get(e.args[0], zero)
    if e.op == 'idx':
        return tan.get(('@', e.args[0], e.args[1].key()), zero)
    if e.op == 'i2r':
        return zero
    if e.op == '+':
        return d_expr(e.args[0], tan) + d_expr(e.args[1], tan)
    if e.op == '-':
        return d_expr(e.args[0], tan) - d_expr(e.args[1], tan)
    if e.op == 'neg':
        return -d_expr(e.args[0], tan)
    if e.op == '*':
        a, b = e.args
        return d_expr(a, tan) * b + a * d_expr(b, tan)
    if e.op == 'ite':
        return ite(e.args[0], d_expr(e.args[1], tan), d_expr(e.args[2], tan))
    raise ADError('no tangent rule for operator %s' % e.op)


def tangent(stmts, seeds, recips=None):
    """returns the tangent environment after executing stmts"""
    tan = dict(seeds)
    recips = recips or {}

    def run(block):
        for s in block:
            if isinstance(s, ir.Assign):
                if s.lv.ty != REAL:
                    continue
                key = s.lv.name if s.lv.index is None else ('@', s.lv.name, s.lv.index.key())
                tan[key] = d_expr(s.e, tan)
            elif isinstance(s, ir.Havoc):
                for n, t in s.scalars:
                    if n in recips:
                        r = E.var(n, REAL)
                        tan[n] = -(r * r) * d_expr(recips[n], tan)
            elif isinstance(s, ir.If):
                before = dict(tan)
                run(s.then)
                t_then = dict(tan)
                tan.clear()
                tan.update(before)
                run(s.els)
                t_else = dict(tan)
                keys = set(t_then) | set(t_else)
                zero = E.const(Fraction(0))
                for k in keys:
                    a, b = t_then.get(k, before.get(k, zero)), t_else.get(k, before.get(k, zero))
                    tan[k] = a if a is b else ite(s.c, a, b)
            elif isinstance(s, (ir.Assume, ir.Assert, ir.Goto, ir.Label, ir.Ghost, ir.Comment)):
                continue
            else:
                raise ADError('no tangent rule for statement %s' % type(s).__name__)
    run(stmts)
    return tan
