"""Call rules of the translator (mixin): Eigen members, std library, member functions (inline or by contract), lambdas."""
from fractions import Fraction
import re

from expr import E, INT, REAL, BOOL, to_real, ite, conj, disj, esum, implies, mk_not
from ir import LV, Assign, If, Assert, Assume, Havoc, ArrCopy, MapAssign, CallContract, Label, Goto, Comment
from values import *
from cxxast import ExtractionError, get_class, src_text, where, params_of, body_of
from ctypes_ import TD, TypeEnv, resolve, MAXV
from translate_expr import fail, kids, CommaInit, SStream, InitList, CondPtr, CondObj, VecList, TRANSPARENT
from translate import Frame


def strip(n):
    while n.get('kind') in TRANSPARENT:
        n = kids(n)[0]
    return n


class CallMixin(object):

    def ev_CallExpr(self, n):
        inner = kids(n)
        callee_n, arg_nodes = inner[0], inner[1:]
        callee = self.ev(callee_n)
        return self.call(callee, arg_nodes, n)

    ev_CXXMemberCallExpr = ev_CallExpr

    def ev_CXXOperatorCallExpr(self, n):
        inner = kids(n)
        callee_n = strip(inner[0])
        opname = callee_n.get('referencedDecl', {}).get('name') or callee_n.get('name') or ''
        args = inner[1:]
        op = opname.replace('operator', '')
        if op == '[]':
            base = self.ev(args[0])
            idx = self.scalar(self.ev(args[1]), n)
            return self.subscript(base, idx, n)
        if op == '()':
            base = self.ev(args[0])
            return self.call(base, args[1:], n)
        if op in ('=', '+=', '-=', '*=', '/='):
            return self.do_assign(args[0], args[1], op, n)
        if op == '*' and len(args) == 1:
            v = self.ev(args[0])
            if isinstance(v, PtrSlot):
                self.obligation(mk_not(v.null()), 'null dereference %s' % where(n), 'bounds')
                return v.target
            if isinstance(v, PtrV):
                return v.target
            if isinstance(v, IterV):
                return CellRef(v.vec.lv(v.pos))
            fail(n, 'operator* on %s' % type(v).__name__)
        if op == '->':
            v = self.ev(args[0])
            return v
        if op == '!' and len(args) == 1:
            return mk_not(self.truth(self.ev(args[0]), n))
        if op == '-' and len(args) == 1:
            v = self.rd(self.ev(args[0]))
            if isinstance(v, Mat):
                return ExprMat(v.R, v.C, lambda r, c: -v.at(r, c))
            return -self.scalar(v, n)
        if len(args) == 2 and op in ('+', '-', '*', '/', '<', '<=', '>', '>=', '==', '!=', '<<', ','):
            x = self.ev(args[0])
            y = self.ev(args[1])
            if op == ',':
                return self.comma_init(self.rd(x), self.rd(y), n)
            return self.binop(op, x, y, n)
        if op == ' bool' or opname.startswith('operator bool'):
            return self.truth(self.ev(args[0]), n)
        fail(n, 'no rule for overloaded operator %r' % opname)

    # ------------------------------------------------------------------------------------------------------
    def call(self, callee, arg_nodes, n):
        if isinstance(callee, LambdaV):
            return self.call_lambda(callee, [self.ev(a) for a in arg_nodes], n)
        if isinstance(callee, BoundMethod):
            base, name = callee.obj, callee.name
            if base is None:
                return self.call_free(name, arg_nodes, n)
            b = self.rd(base) if not isinstance(base, (ScalarVar, CellRef)) else base
            if isinstance(b, PtrV) and b.target is not None:
                b = b.target
            if isinstance(b, PtrSlot) and getattr(callee, 'smart', False):
                if name == 'reset' and not arg_nodes:
                    self.assign(b.null_lv(), True)
                    return VOID
                if name == 'get':
                    return b
                fail(n, 'smart pointer member %s' % name)
            if isinstance(b, PtrSlot):
                return self.call_through_pointer(b, name, arg_nodes, n)
            if isinstance(b, CondObj):
                fail(n, 'call on conditional object')
            if isinstance(b, Obj):
                return self.call_method(b, name, arg_nodes, n, callee)
            if isinstance(b, TypeV):
                return self.call_static(b, name, arg_nodes, n)
            if isinstance(b, Mat):
                return self.call_eigen(b, name, arg_nodes, n, callee)
            if isinstance(b, (StdVec, StructVec, MatVec, CountVec, VecList)):
                return self.call_vector(b, name, arg_nodes, n)
            if isinstance(b, (StrV, StrTmp)):
                return self.call_string(b, name, arg_nodes, n)
            if isinstance(b, SStream):
                if name == 'str':
                    return StrTmp(False)
            if isinstance(b, AbstractObj):
                return b.call(self, name, [self.ev(a) for a in arg_nodes], n)
            fail(n, 'call of member %s on %s' % (name, type(b).__name__))
        if isinstance(callee, Mat):
            # operator() on a matrix: coefficient access
            idx = [self.scalar(self.ev(a), n) for a in arg_nodes]
            return self.coeff(callee, idx, n)
        if isinstance(callee, AbstractObj):
            return callee.call(self, 'operator()', [self.ev(a) for a in arg_nodes], n)
        if isinstance(callee, Obj):
            return self.call_method(callee, 'operator()', arg_nodes, n, None)
        fail(n, 'call of %s' % type(callee).__name__)

    def coeff(self, m, idx, n):
        if len(idx) == 2:
            r, c = idx
            if isinstance(m, StoreMat):
                self.bounds(r, m.R, m.name, n)
            if cint(m.C) is not None and cint(c) is not None and not (0 <= cint(c) < cint(m.C)):
                fail(n, 'constant column index out of range')
            if m.writable and (cint(c) is not None) and (isinstance(m, StoreMat) or cint(r) is not None or not isinstance(m, SmallMat)):
                try:
                    return CellRef(m.lv(r, c))
                except ValueError:
                    pass
            return m.at(r, c)
        if len(idx) == 1:
            i = idx[0]
            if not m.is_vector():
                fail(n, 'single-index access to a non-vector')
            if isinstance(m, StoreMat):
                self.bounds(i, m.R, m.name, n)
            if m.writable:
                try:
                    return CellRef(m.vlv(i))
                except ValueError:
                    pass
            return m.vat(i)
        fail(n, 'coefficient access with %d indices' % len(idx))

    # ------------------------------------------------------------------------------------------------------ Eigen
    def call_eigen(self, m, name, arg_nodes, n, bm):
        a = lambda k: self.scalar(self.ev(arg_nodes[k]), n)
        targs = bm.targs if bm is not None else None
        if getattr(m, 'is_veclist', False):
            if name == 'reserve':
                self.ev(arg_nodes[0])
                return VOID
            if name == 'push_back':
                v = self.rd(self.ev(arg_nodes[0]))
                if not (isinstance(v, Mat) and v.is_vector() and cint(v.vlen()) == m.C):
                    fail(n, 'push_back of a non-vector')
                for c in range(m.C):
                    self.assign(m.lv(m.R, c), v.vat(c))
                self.assign(m.rows_lv(), m.R + 1)
                return VOID
            if name == 'size':
                return E.const(m.R)
            if name == 'clear':
                self.assign(m.rows_lv(), 0)
                return VOID
            if name == 'assign' and len(arg_nodes) == 2:
                # vector::assign(n, value): n copies of one vector
                cnt = self.scalar(self.ev(arg_nodes[0]), n)
                v = self.rd(self.ev(arg_nodes[1]))
                if not (isinstance(v, Mat) and v.is_vector() and cint(v.vlen()) == m.C):
                    fail(n, 'assign of a non-vector')
                vals = [self.scalar(v.vat(c), n) for c in range(m.C)]
                self.assign(m.rows_lv(), cnt)
                from ir import MapAssign
                self.emit(MapAssign(0, cnt, [(m.lv(0, j).name, REAL, m.lv(0, j).index) for j in range(m.C)], [(lambda r, x=x: x) for x in vals]))
                return VOID
            if name == 'resize' and len(arg_nodes) == 1:
                self.resize(m, self.scalar(self.ev(arg_nodes[0]), n), None, n)
                return VOID
        if name == 'row':
            i = a(0)
            if isinstance(m, StoreMat):
                self.bounds(i, m.R, m.name, n)
            return view(m, i, 0, 1, m.C)
        if name == 'col':
            return view(m, 0, a(0), m.R, 1)
        if name == 'transpose':
            return transpose(m)
        if name in ('noalias', 'array', 'matrix', 'eval', 'derived'):
            return m
        if name == 'block':
            if targs:
                r0, c0 = a(0), a(1)
                R, C = targs
            else:
                r0, c0, R, C = a(0), a(1), a(2), a(3)
                R = cint(R) if cint(R) is not None else R
                C = cint(C) if cint(C) is not None else C
            self.range_check(m, r0, R, n)
            return view(m, r0, c0, R, C)
        if name == 'middleRows':
            if targs:
                r0, R = a(0), targs[0]
            else:
                r0, R = a(0), a(1)
                R = cint(R) if cint(R) is not None else R
            self.range_check(m, r0, R, n)
            return view(m, r0, 0, R, m.C)
        if name == 'topRows':
            R = targs[0] if targs else a(0)
            R = cint(R) if cint(R) is not None else R
            self.range_check(m, 0, R, n)
            return view(m, 0, 0, R, m.C)
        if name == 'bottomRows':
            R = targs[0] if targs else a(0)
            R = cint(R) if cint(R) is not None else R
            self.range_check(m, E.const(m.R) - R, R, n)
            return view(m, E.const(m.R) - R, 0, R, m.C)
        if name in ('segment', 'head', 'tail'):
            if not m.is_vector():
                fail(n, '%s of a non-vector' % name)
            if name == 'segment':
                if targs:
                    s0, L = a(0), targs[0]
                else:
                    s0, L = a(0), a(1)
            elif name == 'head':
                s0, L = E.const(0), (targs[0] if targs else a(0))
            else:
                L = targs[0] if targs else a(0)
                s0 = E.const(m.vlen()) - L
            L = cint(L) if cint(L) is not None else L
            if cint(m.R) == 1:
                return view(m, 0, s0, 1, L)
            self.range_check(m, s0, L, n)
            return view(m, s0, 0, L, 1)
        if name == 'dot':
            o = self.rd(self.ev(arg_nodes[0]))
            if not (m.is_vector() and o.is_vector()):
                fail(n, 'dot of non-vectors')
            L = cint(m.vlen())
            if L is None or cint(o.vlen()) != L:
                fail(n, 'dot of vectors with symbolic or different length')
            return esum([m.vat(i) * o.vat(i) for i in range(L)])
        if name == 'squaredNorm':
            R, C = self.dims_const(m, n)
            return esum([m.at(r, c) * m.at(r, c) for r in range(R) for c in range(C)])
        if name == 'norm':
            if cint(m.R) is None or cint(m.C) is None:
                return self.dyn_norm(m, n)
            R, C = self.dims_const(m, n)
            return self.sqrt(esum([m.at(r, c) * m.at(r, c) for r in range(R) for c in range(C)]), n)
        if name == 'sum':
            R, C = self.dims_const(m, n)
            return esum([m.at(r, c) for r in range(R) for c in range(C)])
        if name == 'rows':
            if isinstance(m, DynSmallMat):
                return m.rows_var.rd()
            return E.const(m.R)
        if name == 'cols':
            if isinstance(m, DynSmallMat):
                return m.cols_var.rd()
            return E.const(m.C)
        if name == 'size':
            return E.const(m.R) * E.const(m.C)
        if name == 'setZero':
            if arg_nodes:
                self.resize(m, a(0), node=n)
            self.set_zero(m, n)
            return m
        if name == 'resize':
            if len(arg_nodes) == 2:
                self.resize(m, a(0), a(1), node=n)
            else:
                self.resize(m, a(0), node=n)
            return VOID
        if name == 'isFinite':
            return ExprMat(m.R, m.C, lambda r, c: self.is_finite(m.at(r, c)))
        if name == 'all':
            R, C = self.dims_const(m, n)
            return conj([m.at(r, c) for r in range(R) for c in range(C)])
        if name == 'coeff' or name == 'coeffRef' or name == 'operator()':
            return self.coeff(m, [a(k) for k in range(len(arg_nodes))], n)
        if name == 'data':
            fail(n, 'raw data pointer of a matrix')
        fail(n, 'no rule for Eigen member %s' % name)

    def range_check(self, m, r0, R, n):
        if isinstance(m, StoreMat):
            if self.opt.get('no_bounds'):
                return
            r0 = E.const(r0)
            self.obligation((r0 >= 0) & (E.const(R) >= 0) & (r0 + R <= m.R), 'block rows in range: %s %s' % (m.name, where(n)), 'bounds')

    def is_finite(self, e):
        """over the reals every value is finite.  With option finite_ghosts every stored double x carries a ghost bit
        x__fin (same index for array cells): isfinite reads it.  Only stored values may be tested."""
        hook = self.opt.get('is_finite')
        if hook:
            return hook(e)
        if self.opt.get('finite_ghosts'):
            if e.op == 'var':
                self.globals_s[e.args[0] + '__fin'] = BOOL
                return E.var(e.args[0] + '__fin', BOOL)
            if e.op == 'idx':
                self.globals_a[e.args[0] + '__fin'] = BOOL
                return E.idx(e.args[0] + '__fin', e.args[1], BOOL)
            raise ExtractionError('isfinite of a computed value has no finiteness ghost')
        return E.const(True)

    def dyn_norm(self, m, n):
        # Euclidean norm of a vector of symbolic length, by what the callers rely on: it is non-negative and dominates every
        # component (r^2 >= v_k^2); the exact sum of squares is not modelled
        from ir import AssumeForall, Havoc, Assume
        if not m.is_vector():
            fail(n, 'norm of a dynamically sized matrix')
        r = self.new_scalar('norm', REAL)
        self.emit(Havoc(scalars=[(r.name, REAL)]))
        self.emit(Assume(r.rd() >= 0, 'norm is non-negative'))
        self.emit(AssumeForall(0, m.vlen(), lambda k: (r.rd() * r.rd() >= m.vat(k) * m.vat(k)), 'norm dominates every component'))
        self.notes.append('Eigen norm() of a dynamic vector modelled by: non-negative, r^2 >= v_k^2 for every k')
        ns = self.namespace()
        ns['vec'], ns['ret'] = m, r
        self.anchor('norm', ns)
        return r.rd()

    # ------------------------------------------------------------------------------------------------------ std containers
    def call_vector(self, v, name, arg_nodes, n):
        a = lambda k: self.ev(arg_nodes[k])
        if name == 'size':
            return v.size()
        if name == 'empty':
            return v.size().eq(0)
        if name == 'clear':
            self.assign(v.size_lv(), 0)
            return VOID
        if name == 'reserve':
            self.ev(arg_nodes[0])
            return VOID
        if name == 'resize':
            newn = self.scalar(a(0), n)
            if isinstance(v, StdVec) and not self.opt.get('resize_keeps', False):
                # elements beyond the old size are value-initialised; contents below are kept.  Over-approximate: keep
                # the prefix (nothing to do), havoc nothing -- the new tail is zero in C++, which we do not rely on.
                pass
            self.assign(v.size_lv(), newn)
            return VOID
        if name == 'push_back':
            val = a(0)
            if isinstance(v, StdVec):
                self.assign(v.lv(v.size()), self.scalar(val, n))
            elif isinstance(v, StructVec):
                if not isinstance(val, InitList) and not isinstance(val, dict):
                    fail(n, 'push_back of %s' % type(val).__name__)
                items = val.items if isinstance(val, InitList) else None
                el = v.elem(v.size())
                for (f, t), x in zip(v.fields, items):
                    self.assign(el.field(f), self.scalar(x, n))
            elif isinstance(v, CountVec):
                pass
            else:
                fail(n, 'push_back on %s' % type(v).__name__)
            self.assign(v.size_lv(), v.size() + 1)
            return VOID
        if name == 'front':
            self.bounds(0, v.size(), v.name + '.front()', n)
            return CellRef(v.lv(0))
        if name == 'back':
            self.bounds(v.size() - 1, v.size(), v.name + '.back()', n)
            return CellRef(v.lv(v.size() - 1))
        if name == 'begin':
            return IterV(v, 0)
        if name == 'end':
            return IterV(v, v.size())
        if name == 'at' or name == 'operator[]':
            return self.subscript(v, self.scalar(a(0), n), n)
        fail(n, 'no rule for std::vector member %s' % name)

    def call_string(self, s, name, arg_nodes, n):
        if name == 'clear':
            if isinstance(s, StrV):
                self.assign(s.empty_lv(), True)
                return VOID
        if name == 'empty':
            return s.empty() if isinstance(s, StrV) else s.is_empty
        fail(n, 'no rule for std::string member %s' % name)

    # ------------------------------------------------------------------------------------------------------ free functions
    def call_free(self, name, arg_nodes, n):
        name = name.split('::')[-1]
        if name in ('move', 'forward'):
            return self.ev(arg_nodes[0])
        if name in ('max', 'min'):
            x = self.scalar(self.ev(arg_nodes[0]), n)
            y = self.scalar(self.ev(arg_nodes[1]), n)
            return ite(x < y, y, x) if name == 'max' else ite(y < x, y, x)
        if name in ('abs', 'fabs'):
            x = self.scalar(self.ev(arg_nodes[0]), n)
            return ite(x < 0, -x, x)
        if name == 'sqrt':
            return self.sqrt(self.scalar(self.ev(arg_nodes[0]), n), n)
        if name == 'isfinite':
            return self.is_finite(self.scalar(self.ev(arg_nodes[0]), n))
        if name == 'floor':
            return self.floor(self.scalar(self.ev(arg_nodes[0]), n), n)
        if name == 'upper_bound':
            b, e_, t = [self.ev(x) for x in arg_nodes]
            if not (isinstance(b, IterV) and isinstance(e_, IterV) and b.vec is e_.vec and cint(b.pos) == 0):
                fail(n, 'upper_bound on something other than v.begin(), v.end()')
            return self.upper_bound(b.vec, self.scalar(t, n), n)
        if name == 'distance':
            b, e_ = [self.ev(x) for x in arg_nodes]
            return e_.pos - b.pos
        if name == 'fill':
            b, e_, val = [self.ev(x) for x in arg_nodes]
            vec = b.vec
            self.emit(MapAssign(b.pos, e_.pos, [(vec.arr, vec.ty, E.const(0))], [lambda r, val=val: to_real(self.scalar(val, n))]))
            return VOID
        if name == 'partial_sum':
            b, e_, o = [self.ev(x) for x in arg_nodes]
            if not (isinstance(b, IterV) and isinstance(e_, IterV) and isinstance(o, IterV) and b.vec is e_.vec):
                fail(n, 'partial_sum on something other than vector iterators')
            src, dst = b.vec, o.vec
            cnt = e_.pos - b.pos
            self.obligation((o.pos >= 0) & (o.pos + cnt <= dst.size()), 'partial_sum output range %s' % where(n), 'bounds')
            def rhs(r, src=src, dst=dst, b=b, o=o):
                r = E.const(r)
                return ite(r.eq(0), src.at(b.pos), E.idx(dst.arr, o.pos + r - 1, dst.ty) + src.at(b.pos + r))
            self.emit(MapAssign(0, cnt, [(dst.arr, dst.ty, o.pos)], [rhs], recurrence=True))
            self.notes.append('std::partial_sum modelled by its defining recurrence')
            return IterV(dst, o.pos + cnt)
        if name == 'to_string':
            self.ev(arg_nodes[0])
            return StrTmp(False)
        if name in ('make_unique',):
            from translate_expr import OwnedNew
            if arg_nodes:
                fail(n, 'make_unique with constructor arguments')
            return OwnedNew(None)
        v = self.lookup(name)
        if v is not None:
            return self.call(v, arg_nodes, n)
        # unqualified call of a member function of `this` (template member functions appear this way)
        this = self.frame.this
        if isinstance(this, Obj) and name in this.cls.methods:
            return self.call_method(this, name, arg_nodes, n, None)
        fail(n, 'no rule for function %s' % name)

    def floor(self, x, n):
        hook = self.opt.get('floor')
        if hook:
            return hook(self, x, n)
        if self.opt.get('i2r'):
            return FloorV(to_real(x))
        fail(n, 'std::floor needs an int<->real model (option i2r)')

    def upper_bound(self, vec, t, n):
        pos = self.new_scalar('ub', INT)
        self.emit(Havoc(scalars=[(pos.name, INT)]))
        p = pos.rd()
        self.emit(Assume((p >= 0) & (p <= vec.size()), 'std::upper_bound result in [first,last]'))
        self.emit(Assume(implies(p > 0, vec.at(p - 1) <= t), 'std::upper_bound: elements before the result are <= value'))
        self.emit(Assume(implies(p < vec.size(), t < vec.at(p)), 'std::upper_bound: the result element is > value'))
        self.notes.append('std::upper_bound modelled by its postcondition on a sorted range')
        return IterV(vec, p)

    # ------------------------------------------------------------------------------------------------------ static / construction
    def call_static(self, tv, name, arg_nodes, n):
        td = tv.desc
        if td.kind == 'mat' and name == 'Zero':
            if arg_nodes:
                dims = [self.scalar(self.ev(a), n) for a in arg_nodes]
                R = cint(dims[0]) if cint(dims[0]) is not None else dims[0]
                C = td.C if len(dims) < 2 else (cint(dims[1]) if cint(dims[1]) is not None else dims[1])
                return const_mat(R, C, Fraction(0))
            return const_mat(td.R, td.C, Fraction(0))
        if td.kind == 'obj':
            cls = self.class_of(td)
            obj = Obj(cls, dict(td.cfg), '__static__', {})
            return self.call_method(obj, name, arg_nodes, n, None)
        fail(n, 'static call %s on %r' % (name, td))

    def construct(self, tstr, arg_nodes, n):
        this = self.frame.this
        td = resolve(tstr, self.tenv(this.cls, this.cfg))
        if td.kind == 'mat':
            if not arg_nodes:
                return self.make_value(td, self.fresh('tmpm'))
            dims = [self.scalar(self.ev(a), n) for a in arg_nodes]
            m = self.make_value(td, self.fresh('tmpm'))
            if isinstance(m, StoreMat):
                self.resize(m, dims[0], node=n)
            return m
        if td.kind == 'obj' and not self.class_of(td).ctors and len(arg_nodes) == 1 and strip(arg_nodes[0]).get('kind') == 'InitListExpr':
            return self.ev(strip(arg_nodes[0]))      # aggregate initialisation T{a, b, c}
        if td.kind == 'obj' and not self.class_of(td).ctors and len(arg_nodes) > 1:
            return InitList([self.ev(a) for a in arg_nodes], n)
        if td.kind == 'obj':
            obj = self.make_obj(td, self.fresh('tmpo') + '__')
            obj.is_temp = True
            self.run_ctor(obj, arg_nodes, n)
            return obj
        if td.kind in ('stdvec', 'structvec', 'matvec', 'countvec', 'string') and not arg_nodes:
            val = self.make_value(td, self.fresh('tmpv'))
            self.init_empty(val)
            return val
        if td.kind in ('real', 'int', 'bool') and len(arg_nodes) == 1:
            return self.to_type(self.ev(arg_nodes[0]), tstr, n)
        if td.kind == 'string':
            if not arg_nodes:
                return StrTmp(True)
            v = self.ev(arg_nodes[0])
            if isinstance(v, StrV):
                return StrTmp(v.empty())
            return v if isinstance(v, StrTmp) else StrTmp(False)
        if td.kind == 'uptr' and len(arg_nodes) == 1:
            from translate_expr import OwnedNew
            v = self.ev(arg_nodes[0])
            if isinstance(v, OwnedNew):
                return v
        fail(n, 'construction of %s' % tstr)

    # ------------------------------------------------------------------------------------------------------ member functions
    def pick_overload(self, cls, name, argvals, n):
        cands = cls.methods.get(name, [])
        if not cands:
            fail(n, 'class %s has no method %s' % (cls.name, name))
        best = []
        for m in cands:
            ps = params_of(m)
            nreq = sum(1 for p in ps if not self.has_default(p))
            if not (nreq <= len(argvals) <= len(ps)):
                continue
            score = 0
            ok = True
            for p, v in zip(ps, argvals):
                s = self.arg_match(p['type']['qualType'], v)
                if s < 0:
                    ok = False
                    break
                score += s
            if ok:
                best.append((score, m))
        if not best:
            fail(n, 'no viable overload of %s::%s for %d arguments' % (cls.name, name, len(argvals)))
        best.sort(key=lambda x: -x[0])
        if len(best) > 1 and best[0][0] == best[1][0]:
            fail(n, 'ambiguous overload of %s::%s' % (cls.name, name))
        return best[0][1]

    def has_default(self, p):
        return any(True for c in kids(p))

    def arg_match(self, tstr, v):
        t = tstr.replace('const ', '').replace('&', '').strip()
        v2 = v
        if isinstance(v2, (ScalarVar, CellRef)):
            vt = v2.ty
        elif isE(v2):
            vt = v2.ty
        else:
            vt = None
        if t in ('double', 'float'):
            return 2 if vt == REAL else (1 if vt == INT else -1)
        if t in ('int', 'long', 'size_t'):
            return 2 if vt == INT else -1
        if t == 'bool':
            return 2 if vt == BOOL else (1 if vt == INT else -1)
        if t == 'Deriv' or t.endswith('::Deriv'):
            return 2 if isinstance(v2, EnumV) else -1
        if t.endswith('*'):
            return 2 if isinstance(v2, (PtrV, PtrSlot, CondPtr)) else -1
        if 'vector<' in t:
            if isinstance(v2, InitList):
                return 1
            return 2 if isinstance(v2, (StdVec, StructVec, CountVec, MatVec)) else -1
        if isinstance(v2, EnumV):
            return -1
        if vt is not None:
            return -1 if ('Type' in t or 'Matrix' in t or 'Vector' in t) else 0
        return 1

    def call_method(self, obj, name, arg_nodes, n, bm):
        cls = obj.cls
        saved_this = None
        # arguments are evaluated in the caller's frame
        argvals = [self.ev(a) if a.get('kind') != 'CXXDefaultArgExpr' else None for a in arg_nodes]
        argvals = [a for a in argvals if a is not None]
        c = cls
        while name not in c.methods and getattr(c, 'outer', None) is not None:
            c = c.outer
        m = self.pick_overload(c, name, argvals, n)
        return self.invoke(obj, c, m, argvals, n)

    def method_key(self, cls, m):
        return '%s.%s' % (cls.name, m['name'])

    def invoke(self, obj, cls, m, argvals, n):
        key = self.method_key(cls, m)
        ps = params_of(m)
        contract = self.contracts.get(key)
        if contract is not None:
            contract = contract.select(m, len(ps))
        if contract is not None:
            if not (self.top_node is m):
                return self.call_by_contract(contract, obj, cls, m, argvals, n)
        return self.inline(obj, cls, m, argvals, n)

    def bind_params(self, fr, obj, cls, m, argvals, n):
        ps = params_of(m)
        tenv = self.tenv(cls, obj.cfg if isinstance(obj, Obj) else {})
        for i, p in enumerate(ps):
            pname = p.get('name')
            tstr = p['type']['qualType']
            if i < len(argvals):
                v = argvals[i]
            else:
                dn = kids(p)
                if not dn:
                    fail(n, 'missing argument %s' % pname)
                # default argument: evaluate in callee frame
                self.frames.append(fr)
                try:
                    v = self.ev(dn[0])
                finally:
                    self.frames.pop()
            if pname is None:
                continue
            fr.scopes[0][pname] = self.pass_arg(tstr, v, tenv, pname, n)

    def pass_arg(self, tstr, v, tenv, pname, n):
        is_ref = tstr.strip().endswith('&')
        if isinstance(v, InitList):
            td = resolve(tstr, tenv)
            if td.kind == 'countvec':
                cv = self.make_value(td, self.fresh('arg_' + pname))
                self.assign(cv.size_lv(), len(v.items))
                return cv
            if td.kind == 'stdvec':
                sv = self.make_value(td, self.fresh('arg_' + pname))
                self.assign(sv.size_lv(), len(v.items))
                for j, it in enumerate(v.items):
                    self.assign(sv.lv(j), self.scalar(it, n))
                return sv
            if td.kind == 'obj':
                obj = self.make_obj(td, self.fresh('arg_' + pname) + '__')
                self.frames_push_ctor(obj, v, n)
                return obj
        if is_ref:
            return v
        # by value
        if isinstance(v, (ScalarVar, CellRef)) or isE(v):
            s = self.scalar(v, n)
            if s.is_const():
                return s
            loc = self.new_scalar('p_' + pname, s.ty)
            self.assign(loc.lv(), s)
            return loc
        if isinstance(v, EnumV):
            return v
        if isinstance(v, Mat) and cint(v.R) is not None and cint(v.C) is not None:
            return self.materialize(v, 'p_' + pname)
        return v

    def inline(self, obj, cls, m, argvals, n):
        if self.inline_depth > 12:
            fail(n, 'inlining too deep (recursion?)')
        key = self.method_key(cls, m)
        rt = m['type']['qualType'].split('(')[0].strip()
        ret_slot = None
        fr = Frame(key, obj, None, self.fresh('end_' + m['name']))
        self.bind_params(fr, obj, cls, m, argvals, n)
        fr.ret_type = rt
        self.frames.append(fr)
        self.inline_depth += 1
        try:
            self.run_body(m, fr)
        finally:
            self.inline_depth -= 1
            self.frames.pop()
        if fr.used_goto:
            self.emit(Label(fr.end_label))
        self.dead = False
        return fr.ret_slot if fr.ret_slot is not None else VOID

    def call_lambda(self, lam, argvals, n):
        node = lam.node
        m = None
        for c in kids(node):
            if c.get('kind') == 'CXXRecordDecl':
                for x in kids(c):
                    if x.get('kind') == 'CXXMethodDecl' and x.get('name') == 'operator()':
                        m = x
                    if x.get('kind') == 'FunctionTemplateDecl' and x.get('name') == 'operator()':
                        for y in kids(x):
                            if y.get('kind') == 'CXXMethodDecl':
                                m = y
        if m is None:
            fail(node, 'lambda without call operator')
        fr = Frame(getattr(lam, 'fname', 'lambda'), lam.this, None, self.fresh('end_lambda'))
        fr.scopes = [dict(s) for s in lam.env] + [{}]
        fr.is_lambda = True
        # by-reference capture: the lambda sees the caller's *current* bindings of captured names
        ps = params_of(m)
        tenv = self.tenv(lam.this.cls, lam.this.cfg)
        for p, v in zip(ps, argvals):
            fr.scopes[-1][p['name']] = self.pass_arg(p['type']['qualType'], v, tenv, p['name'], n)
        fr.scopes.append({})
        fr.ret_type = 'auto'
        self.frames.append(fr)
        self.inline_depth += 1
        try:
            body = body_of(m)
            if body is None:
                for c in kids(node):
                    if c.get('kind') == 'CompoundStmt':
                        body = c
            self.stmt(body)
        finally:
            self.inline_depth -= 1
            self.frames.pop()
        if fr.used_goto:
            self.emit(Label(fr.end_label))
        self.dead = False
        return fr.ret_slot if fr.ret_slot is not None else VOID

    def run_ctor(self, obj, arg_nodes, n):
        argvals = [self.ev(a) for a in arg_nodes]
        cls = obj.cls
        cands = [c for c in cls.ctors if len(params_of(c)) >= len(argvals) and
                 sum(1 for p in params_of(c) if not self.has_default(p)) <= len(argvals)]
        if len(cands) > 1:
            scored = []
            for c in cands:
                s = 0
                okc = True
                for p, v in zip(params_of(c), argvals):
                    q = self.arg_match(p['type']['qualType'], v)
                    if q < 0:
                        okc = False
                        break
                    s += q
                if okc:
                    scored.append((s, c))
            scored.sort(key=lambda x: -x[0])
            cands = [scored[0][1]] if scored and (len(scored) == 1 or scored[0][0] > scored[1][0]) else [c for _, c in scored]
        if not cands and not argvals:
            self.default_init(obj, n)
            return
        if len(cands) != 1:
            fail(n, '%d candidate constructors of %s for %d arguments' % (len(cands), cls.name, len(argvals)))
        self.invoke_ctor(obj, cands[0], argvals, n)

    def default_init(self, obj, n):
        """default member initialisers of a class without a user-provided default constructor"""
        fr = Frame(obj.cls.name + '.default_init', obj, None, None)
        self.frames.append(fr)
        try:
            for fname, ftype, init in obj.cls.fields:
                fv = obj.fields[fname]
                if init is not None:
                    self.init_field(fv, init, n)
                elif isinstance(fv, Obj):
                    self.default_construct(fv, n)
                elif isinstance(fv, (StdVec, StructVec, MatVec, CountVec)):
                    self.assign(fv.size_lv(), 0)
                elif isinstance(fv, StoreMat):
                    self.assign(fv.rows_lv(), 0)
                elif isinstance(fv, StrV):
                    self.assign(fv.empty_lv(), True)
                elif isinstance(fv, PtrSlot):
                    self.assign(fv.null_lv(), True)
        finally:
            self.frames.pop()

    def default_construct(self, obj, n):
        dc = [c for c in obj.cls.ctors if len(params_of(c)) == 0 and body_of(c) is not None]
        if dc:
            self.invoke_ctor(obj, dc[0], [], n)
        else:
            self.default_init(obj, n)

    def init_field(self, fv, init_node, n):
        k = strip(init_node)
        if k.get('kind') == 'InitListExpr' and len(kids(k)) == 1:
            k = kids(k)[0]
        v = self.ev(k)
        if isinstance(v, InitList):
            if not v.items:
                return
            v = v.items[0]
        self.copy_value(fv, v, n)

    def invoke_ctor(self, obj, ctor, argvals, n):
        cls = obj.cls
        ckey = '%s.ctor%d' % (cls.name, len(params_of(ctor)))
        contract = self.contracts.get(ckey)
        if contract is not None and ctor is not self.top_node:
            contract = contract.select(ctor, len(params_of(ctor)))
            if contract is not None:
                self.call_by_contract(contract, obj, cls, ctor, argvals, n)
                return
        fr = Frame('%s.%s' % (cls.name, 'ctor%d' % len(params_of(ctor))), obj, None, self.fresh('end_ctor'))
        self.bind_params(fr, obj, cls, ctor, argvals, n)
        self.frames.append(fr)
        self.inline_depth += 1
        try:
            inited = set()
            for c in kids(ctor):
                if c.get('kind') == 'CXXCtorInitializer':
                    fld = c.get('anyInit', {}).get('name')
                    if fld is None:
                        fail(c, 'constructor initializer without a member')
                    inited.add(fld)
                    sub = kids(c)
                    fv = obj.fields[fld]
                    if not sub:
                        continue
                    v = self.ev(sub[0])
                    if isinstance(v, InitList):
                        if len(v.items) == 0:
                            if isinstance(fv, Obj):
                                self.default_construct(fv, n)
                            continue
                        v = v.items[0]
                    self.copy_value(fv, v, c)
            # members not mentioned: default member initialisers / default construction
            for fname, ftype, init in cls.fields:
                if fname in inited:
                    continue
                fv = obj.fields[fname]
                if init is not None:
                    self.init_field(fv, init, n)
                elif isinstance(fv, Obj):
                    self.default_construct(fv, n)
                elif isinstance(fv, (StdVec, StructVec, MatVec, CountVec)):
                    self.assign(fv.size_lv(), 0)
                elif isinstance(fv, StoreMat):
                    self.assign(fv.rows_lv(), 0)
                elif isinstance(fv, StrV):
                    self.assign(fv.empty_lv(), True)
                elif isinstance(fv, PtrSlot):
                    self.assign(fv.null_lv(), True)
            body = body_of(ctor)
            if body is not None:
                self.stmt(body)
        finally:
            self.inline_depth -= 1
            self.frames.pop()
        if fr.used_goto:
            self.emit(Label(fr.end_label))

    def call_through_pointer(self, slot, name, arg_nodes, n):
        if slot.target is None:
            fail(n, 'call through pointer %s with unknown target' % slot.name)
        self.obligation(mk_not(slot.null()), 'null dereference %s' % where(n), 'bounds')
        t = slot.target
        if isinstance(t, AbstractObj):
            return t.call(self, name, [self.ev(a) for a in arg_nodes], n)
        return self.call_method(t, name, arg_nodes, n, None)


class FloorV(object):
    """the double returned by std::floor(x), waiting to be converted to int"""

    def __init__(self, x):
        self.x = x


class AbstractObj(object):
    """object known only through contracts (user functors, user maps); subclasses implement call()"""

    def call(self, tr, name, args, n):
        raise ExtractionError('abstract object has no rule for %s' % name)
