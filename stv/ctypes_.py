"""Resolution of C++ type strings (as printed by clang for the uninstantiated templates) to storage descriptors."""
import re
from cxxast import ExtractionError, get_class

TPARAM_DEFAULTS = {'MatType': 'MatrixType'}
MAXV = 12   # maximum coefficient count modelled for PPolyND's per-order caches (property C03 states 1..12)

SCALAR_INT = {'int', 'long', 'size_t', 'std::size_t', 'unsigned long', 'unsigned int', 'unsigned', 'long long',
              'std::ptrdiff_t', 'ptrdiff_t', 'unsigned char', 'uint32_t', 'uint8_t', 'std::uint32_t', 'std::uint8_t', 'short', 'difference_type', 'std::vector::size_type', 'Eigen::Index', 'Index'}


class TD(object):
    """type descriptor: kind in real|int|bool|void|mat|stdvec|structvec|matvec|countvec|obj|ptr|string|auto|enum|uptr|functor"""

    def __init__(self, kind, **kw):
        self.kind = kind
        self.ref = False
        self.const = False
        self.__dict__.update(kw)

    def __repr__(self):
        d = dict(self.__dict__)
        k = d.pop('kind')
        return 'TD(%s %s)' % (k, d)


def split_targs(s):
    out, depth, cur = [], 0, ''
    for ch in s:
        if ch in '<(':
            depth += 1
        elif ch in '>)':
            depth -= 1
        if ch == ',' and depth == 0:
            out.append(cur.strip())
            cur = ''
        else:
            cur += ch
    if cur.strip():
        out.append(cur.strip())
    return out


class TypeEnv(object):
    """names visible for evaluating dimension expressions and aliases: cfg constants + class statics + aliases"""

    def __init__(self, cls, cfg, static_eval):
        self.cls = cls
        self.cfg = cfg
        self.static_eval = static_eval   # callable(cls, name) -> python value

    def const(self, name):
        name = name.strip()
        if name in ('Eigen::Dynamic', 'Dynamic', '-1'):
            return None
        if re.fullmatch(r'-?\d+', name):
            return int(name)
        if name in self.cfg and (self.cfg[name] is None or isinstance(self.cfg[name], int)):
            return self.cfg[name]
        m = re.fullmatch(r'(\w+)::(\w+)', name)
        if m and m.group(1) in self.cfg:
            # SplineType::COEFF_NUM
            sub = self.cfg[m.group(1)]
            return self.static_eval(get_class(sub['cls']), sub['cfg'], m.group(2))
        if self.cls is not None and name in self.cls.statics:
            return self.static_eval(self.cls, self.cfg, name)
        # arithmetic like "2 * DIM"
        toks = re.findall(r'[A-Za-z_][\w:]*|\d+|[-+*/()]', name)
        if len(toks) > 1 and ''.join(toks).replace(' ', '') == name.replace(' ', ''):
            vals = []
            for t in toks:
                if re.fullmatch(r'[-+*/()]|\d+', t):
                    vals.append(t)
                else:
                    v = self.const(t)
                    if v is None:
                        raise ExtractionError('cannot evaluate dimension %r' % name)
                    vals.append(str(v))
            return int(eval(''.join(vals)))
        raise ExtractionError('cannot evaluate dimension expression %r in class %s' % (name, self.cls.name if self.cls else '?'))


def resolve(tstr, tenv):
    s = tstr.strip()
    ref = False
    const = False
    # strip cv/ref
    while True:
        s0 = s
        s = s.strip()
        if s.endswith('&&'):
            s = s[:-2]; ref = True
        elif s.endswith('&'):
            s = s[:-1]; ref = True
        if s.startswith('const '):
            s = s[6:]; const = True
        if s.endswith(' const'):
            s = s[:-6]; const = True
        for pre in ('typename ', 'struct ', 'class ', 'mutable ', 'static ', 'constexpr '):
            if s.startswith(pre):
                s = s[len(pre):]
        if s == s0:
            break
    td = _resolve_core(s.strip(), tenv)
    if ref or const:
        td2 = TD(td.kind, **{k: v for k, v in td.__dict__.items() if k != 'kind'})
        td2.ref = ref or td.ref
        td2.const = const
        return td2
    return td


def _resolve_core(s, tenv):
    if s.endswith('*'):
        inner = resolve(s[:-1], tenv)
        return TD('ptr', to=inner)
    if s in ('double', 'float'):
        return TD('real')
    if s in SCALAR_INT:
        return TD('int')
    if s == 'bool':
        return TD('bool')
    if s == 'void':
        return TD('void')
    if s in ('auto', 'decltype(auto)'):
        return TD('auto')
    if s in ('std::string', 'string', 'std::basic_string<char>') or s.endswith('basic_string<char>>::value_type') or s == 'std::vector<std::string>::value_type':
        return TD('string')
    if s in ('std::stringstream', 'stringstream'):
        return TD('sstream')
    if s in ('std::mutex', 'mutex', 'std::recursive_mutex'):
        return TD('mutex')
    s = re.sub(r'^SplineTrajectory::', '', s)
    if s in ('Eigen::Matrix2d', 'Matrix2d'):
        return TD('mat', R=2, C=2)
    if s in ('Eigen::Matrix3d', 'Matrix3d'):
        return TD('mat', R=3, C=3)
    if s in ('Eigen::VectorXd', 'VectorXd', 'Eigen::Matrix<double, -1, 1>'):
        return TD('mat', R=None, C=1)
    if s in ('Eigen::MatrixXd', 'MatrixXd', 'Eigen::Matrix<double, -1, -1>'):
        return TD('mat', R=None, C=None)
    m = re.fullmatch(r'(?:Eigen::)?Matrix<(.*)>', s)
    if m:
        a = split_targs(m.group(1))
        if a[0] != 'double':
            raise ExtractionError('matrix of %s' % a[0])
        return TD('mat', R=tenv.const(a[1]), C=tenv.const(a[2]))
    m = re.fullmatch(r'(?:std::)?vector<(.*)>', s)
    if m:
        a = split_targs(m.group(1))
        if 'string' in a[0]:
            return TD('countvec')
        inner = resolve(a[0], tenv)
        if inner.kind in ('real', 'int'):
            return TD('stdvec', elem=inner.kind)
        if inner.kind == 'mat':
            return TD('matvec', C=inner.C)
        if inner.kind == 'string':
            return TD('countvec')
        if inner.kind == 'obj':
            return TD('structvec', cls=inner.cls, cfg=inner.cfg)
        raise ExtractionError('vector of %s' % a[0])
    m = re.fullmatch(r'SplineVector<(.*)>', s)
    if m:
        inner = resolve(split_targs(m.group(1))[0], tenv)
        if inner.kind == 'mat':
            return TD('veclist', elem=inner)
    m = re.fullmatch(r'(?:std::)?unique_ptr<(.*)>', s)
    if m:
        return TD('uptr', to=resolve(split_targs(m.group(1))[0], tenv))
    m = re.fullmatch(r'(?:std::)?array<(.*)>', s)
    if m:
        a = split_targs(m.group(1))
        inner = resolve(a[0], tenv)
        n = tenv.const(a[1])
        if inner.kind == 'real':
            return TD('mat', R=1, C=n)
        if inner.kind == 'mat' and inner.R == 1:
            return TD('mat', R=n, C=inner.C)
        raise ExtractionError('array type %s' % s)
    # qualified alias: PPolyND::MatrixType, CubicSplineND::TrajectoryType, SplineType::MatrixType
    m = re.fullmatch(r'(\w+)::(\w+)', s)
    if m:
        owner, name = m.group(1), m.group(2)
        if owner in tenv.cfg and isinstance(tenv.cfg[owner], dict):
            sub = tenv.cfg[owner]
            return resolve(name, TypeEnv(get_class(sub['cls']), sub['cfg'], tenv.static_eval))
        if tenv.cls is not None and owner == tenv.cls.name:
            return resolve(name, tenv)
        if tenv.cls is not None and owner in tenv.cls.nested:
            return resolve(name, TypeEnv(tenv.cls.nested[owner], tenv.cfg, tenv.static_eval))
        # nested-of-enclosing, e.g. PPolyND::Segment members referencing PPolyND::VectorType
        try:
            oc = get_class(owner)
            return resolve(name, TypeEnv(oc, tenv.cfg, tenv.static_eval))
        except ExtractionError:
            pass
    # template class instance
    m = re.fullmatch(r'(\w+)<(.*)>', s)
    if m and m.group(1) in ('PPolyND', 'BoundaryConditions', 'CubicSplineND', 'QuinticSplineND', 'SepticSplineND', 'IdentitySpatialMap'):
        cname = m.group(1)
        cls = get_class(cname)
        args = split_targs(m.group(2))
        cfg = {}
        for pn, a in zip(cls.tparams, args):
            cfg[pn] = tenv.const(a)
        if cname == 'PPolyND' and 'ORDER' not in cfg:
            cfg['ORDER'] = None
        return TD('obj', cls=cname, cfg=cfg)
    if s in tenv.cfg and isinstance(tenv.cfg[s], dict):
        sub = tenv.cfg[s]
        return TD('obj', cls=sub['cls'], cfg=sub['cfg'])
    if tenv.cls is not None and (s == tenv.cls.name or s.startswith(tenv.cls.name + '<')) and getattr(tenv.cls, 'outer', None) is None:
        # the class's own (injected) name: another object of the same instantiation
        return TD('obj', cls=tenv.cls.name, cfg=tenv.cfg)
    if tenv.cls is not None:
        if s in tenv.cls.aliases:
            return resolve(tenv.cls.aliases[s], tenv)
        if s in tenv.cls.nested:
            return TD('obj', cls=tenv.cls.name + '::' + s, cfg=tenv.cfg, nested=tenv.cls.nested[s])
        outer = getattr(tenv.cls, 'outer', None)
        if outer is not None:
            return _resolve_core(s, TypeEnv(outer, tenv.cfg, tenv.static_eval))
    if s in ('OptimizationFlags', 'QuadInvTimeMap', 'IdentityTimeMap', 'VoidWaypointsCost', 'SerialExecutor'):
        return TD('obj', cls=s, cfg={})
    if s == 'Deriv':
        return TD('enum', name='Deriv')
    if s == 'Executor':
        # template type parameter of evaluate(): its default argument
        return TD('obj', cls='SerialExecutor', cfg={})
    if s in TPARAM_DEFAULTS and tenv.cls is not None and TPARAM_DEFAULTS[s] in tenv.cls.aliases:
        # template type parameter of a member function template, instantiated by its only call sites with this alias
        return resolve(TPARAM_DEFAULTS[s], tenv)
    raise ExtractionError('no rule for type %r (class %s)' % (s, tenv.cls.name if tenv.cls else '?'))
