"""Scalar imperative IR produced by the translator and consumed by the harness generator / native emitter."""
from expr import E, INT, REAL, BOOL


class LV(object):
    """scalar l-value: a named variable or one cell of a (conceptually unbounded) array"""
    __slots__ = ('arr', 'name', 'index', 'ty')

    def __init__(self, name, ty, index=None):
        self.name = name
        self.ty = ty
        self.index = index      # None for plain variables

    def rd(self):
        if self.index is None:
            return E.var(self.name, self.ty)
        return E.idx(self.name, self.index, self.ty)

    def __repr__(self):
        return 'LV(%s%s)' % (self.name, '' if self.index is None else '[..]')


class Stmt(object):
    pass


class Assign(Stmt):
    def __init__(self, lv, e):
        self.lv = lv
        self.e = E.const(e)


class If(Stmt):
    def __init__(self, c, then, els=None):
        self.c = c
        self.then = then
        self.els = els or []


class Loop(Stmt):
    """for (init; cond; step) body  -- init has already been emitted before the Loop by the translator.
    var: name of the C loop variable (int).  key: (function qualified name, ordinal) used by contracts."""
    def __init__(self, key, var, cond, step, body, src=None):
        self.key = key
        self.var = var
        self.cond = cond
        self.step = step
        self.body = body
        self.src = src
        self.continue_label = None


class Goto(Stmt):
    def __init__(self, label):
        self.label = label


class Label(Stmt):
    def __init__(self, label):
        self.label = label


class Assert(Stmt):
    """kind: 'div' | 'sqrt' | 'bounds' | 'pre' | 'user' | 'post' | 'inv' ..."""
    def __init__(self, e, label, kind='user'):
        self.e = E.const(e)
        self.label = label
        self.kind = kind


class Assume(Stmt):
    def __init__(self, e, why=''):
        self.e = E.const(e)
        self.why = why


class Havoc(Stmt):
    """havoc scalar variables (names with types) and whole arrays"""
    def __init__(self, scalars=(), arrays=()):
        self.scalars = list(scalars)   # [(name, ty)]
        self.arrays = list(arrays)     # [(name, ty)]


class ArrCopy(Stmt):
    def __init__(self, dst, src, ty):
        self.dst = dst
        self.src = src
        self.ty = ty


class MapAssign(Stmt):
    """for r in [lo,hi): cells[k][base_k + r] = rhs_k(r)   (unit stride, rhs may not read the written arrays at other rows)
    cells: list of (arr, ty, offset E) ; rhs: list of functions r(E)->E"""
    def __init__(self, lo, hi, cells, rhs, recurrence=False):
        self.lo = E.const(lo)
        self.hi = E.const(hi)
        self.cells = cells
        self.rhs = rhs
        self.recurrence = recurrence    # rhs(r) may read the *new* contents at earlier rows (prefix sums)


class CallContract(Stmt):
    """call replaced by the callee's contract; binding maps callee storage names to caller storage"""
    def __init__(self, callee_key, binding, site, ret=None, args=None):
        self.callee_key = callee_key
        self.binding = binding
        self.site = site
        self.ret = ret
        self.args = args or {}


class AssumeForall(Stmt):
    """library fact with a quantifier: forall k in [lo,hi): body(k); instantiated by the generator"""
    def __init__(self, lo, hi, body, why=''):
        self.lo = E.const(lo)
        self.hi = E.const(hi)
        self.body = body
        self.why = why


class Comment(Stmt):
    def __init__(self, text):
        self.text = text


class Ghost(Stmt):
    """anchor where contracts may attach ghost code: name is e.g. 'loop0.body_end'"""
    def __init__(self, name):
        self.name = name


def walk(stmts, fn):
    for s in stmts:
        fn(s)
        if isinstance(s, If):
            walk(s.then, fn)
            walk(s.els, fn)
        elif isinstance(s, Loop):
            walk(s.step, fn)
            walk(s.body, fn)


def write_set(stmts):
    """(scalars {name: ty}, arrays {name: ty}) assigned anywhere in stmts (syntactic)"""
    sc, ar = {}, {}

    def f(s):
        if isinstance(s, Assign):
            if s.lv.index is None:
                sc[s.lv.name] = s.lv.ty
            else:
                ar[s.lv.name] = s.lv.ty
        elif isinstance(s, Havoc):
            for n, t in s.scalars: sc[n] = t
            for n, t in s.arrays: ar[n] = t
        elif isinstance(s, ArrCopy):
            ar[s.dst] = s.ty
        elif isinstance(s, MapAssign):
            for a, t, _ in s.cells: ar[a] = t
        elif isinstance(s, Loop):
            sc[s.var] = INT
    walk(stmts, f)
    return sc, ar


def dump(stmts, ind=0, out=None, width=200):
    """readable listing of IR statements (debugging aid, also used in replay files)"""
    from expr import Printer
    P = Printer('real')
    out = [] if out is None else out
    pad = ' ' * ind

    def e(x):
        try:
            return P.p(x)[:width]
        except Exception:
            return repr(x)[:width]

    for s in stmts:
        if isinstance(s, Assign):
            lv = s.lv.name if s.lv.index is None else '%s[%s]' % (s.lv.name, e(s.lv.index))
            out.append('%s%s = %s' % (pad, lv, e(s.e)))
        elif isinstance(s, If):
            out.append('%sif (%s) {' % (pad, e(s.c)))
            dump(s.then, ind + 2, out, width)
            if s.els:
                out.append(pad + '} else {')
                dump(s.els, ind + 2, out, width)
            out.append(pad + '}')
        elif isinstance(s, Loop):
            out.append('%sloop %s var=%s while (%s) {' % (pad, s.key, s.var, e(s.cond)))
            dump(s.body, ind + 2, out, width)
            out.append(pad + '} step {')
            dump(s.step, ind + 2, out, width)
            out.append(pad + '}')
        elif isinstance(s, Assert):
            out.append('%sassert[%s] %s  // %s' % (pad, s.kind, e(s.e), s.label))
        elif isinstance(s, Assume):
            out.append('%sassume %s  // %s' % (pad, e(s.e), s.why))
        elif isinstance(s, Havoc):
            out.append('%shavoc %s %s' % (pad, [n for n, _ in s.scalars], [n for n, _ in s.arrays]))
        elif isinstance(s, ArrCopy):
            out.append('%sarrcopy %s <- %s' % (pad, s.dst, s.src))
        elif isinstance(s, MapAssign):
            out.append('%smap [%s,%s) %s' % (pad, e(s.lo), e(s.hi), [a for a, _, _ in s.cells]))
        elif isinstance(s, CallContract):
            out.append('%scall %s' % (pad, s.callee_key))
        elif isinstance(s, Ghost):
            out.append('%s@%s' % (pad, s.name))
        elif isinstance(s, (Goto, Label)):
            out.append('%s%s %s' % (pad, type(s).__name__.lower(), s.label))
        else:
            out.append('%s%s' % (pad, type(s).__name__))
    return out
