"""Statement rules, function entry points and calls by contract (mixin)."""
from fractions import Fraction
import re

from expr import E, INT, REAL, BOOL, to_real, ite, conj, disj, esum, implies, mk_not
from ir import LV, Assign, If, Loop, Assert, Assume, Havoc, ArrCopy, MapAssign, CallContract, Label, Goto, Comment, Ghost
from values import *
from cxxast import ExtractionError, get_class, src_text, where, params_of, body_of
from ctypes_ import TD, TypeEnv, resolve, MAXV
from translate_expr import fail, kids, CommaInit, SStream, InitList, CondPtr, CondObj, VecList, TRANSPARENT
from translate import Frame
from translate_call import strip, AbstractObj

MAX_UNROLL = 80


def number_loops(body):
    """pre-order ordinals of the for statements of one function body (lambdas included)"""
    cnt = [0]

    def walk(n):
        if not isinstance(n, dict):
            return
        if n.get('kind') in ('ForStmt', 'CXXForRangeStmt'):
            n['_ord'] = cnt[0]
            cnt[0] += 1
        for c in n.get('inner') or []:
            walk(c)
    walk(body)


class StmtMixin(object):

    def stmt(self, n):
        k = n.get('kind')
        if k == 'CompoundStmt':
            self.frame.scopes.append({})
            try:
                for c in kids(n):
                    if self.dead:
                        break           # statements after return/continue/throw in the same block are unreachable
                    self.stmt(c)
            finally:
                self.frame.scopes.pop()
            return
        if k == 'DeclStmt':
            for c in kids(n):
                self.decl(c)
            return
        if k == 'IfStmt':
            return self.if_stmt(n)
        if k == 'ForStmt':
            return self.for_stmt(n)
        if k == 'CXXForRangeStmt':
            return self.range_for(n)
        if k == 'ReturnStmt':
            return self.return_stmt(n)
        if k == 'ContinueStmt':
            lab = self.frame.continue_label
            if lab is None:
                fail(n, 'continue outside a loop')
            lab[1] = True
            self.emit(Goto(lab[0]))
            self.dead = True
            return
        if k == 'BreakStmt':
            fail(n, 'no rule for break')
        if k == 'NullStmt':
            return
        if k in ('StaticAssertDecl', 'TypeAliasDecl', 'UsingDecl', 'TypedefDecl'):
            return
        # expression statement
        self.ev(n)

    # ------------------------------------------------------------------------------------------------------
    def decl(self, d):
        k = d.get('kind')
        if k in ('StaticAssertDecl', 'TypeAliasDecl', 'TypedefDecl', 'UsingDecl', 'CXXRecordDecl'):
            return
        if k != 'VarDecl':
            fail(d, 'no rule for declaration kind %s' % k)
        name = d['name']
        tstr = d['type']['qualType']
        this = self.frame.this
        init_nodes = kids(d)
        init = init_nodes[0] if init_nodes else None
        t0 = tstr.strip()
        is_ref = t0.endswith('&')
        is_const = t0.startswith('const ') or d.get('constexpr')
        core = t0.replace('const ', '').replace('&', '').strip()
        if core in ('auto', 'decltype(auto)') or '__normal_iterator' in core or 'lambda' in core:
            if init is None:
                fail(d, 'auto without initializer')
            v = self.ev(init)
            return self.bind_auto(name, v, is_ref, d)
        if re.match(r'(const\s+)?std::(lock_guard|unique_lock|scoped_lock)<', core):
            # scoped lock: no data effect; the region (to the end of the enclosing scope) is recorded for the frame analysis of C12
            txt = src_text(d) or ''
            mm = re.search(r'\(\s*(\w+)\s*\)', txt)
            self.locks = getattr(self, 'locks', []) + [(self.frame.fname, mm.group(1) if mm else '?')]
            return
        td = resolve(tstr, self.tenv(this.cls, this.cfg))
        if td.kind == 'sstream':
            self.bind(name, SStream())
            return
        if td.kind in ('real', 'int', 'bool', 'enum'):
            ty = {'real': REAL, 'int': INT, 'bool': BOOL, 'enum': INT}[td.kind]
            if init is None:
                var = self.new_scalar(name, ty)
                self.bind(name, var)
                return
            v = self.ev(init)
            if isinstance(v, InitList):
                v = v.items[0] if v.items else E.const(0)
            if is_ref and isinstance(v, (ScalarVar, CellRef)) and not is_const:
                self.bind(name, v)
                return
            if isinstance(v, EnumV):
                v = v.e
            from translate_call import FloorV
            if isinstance(v, FloorV):
                v = self.real_to_int(v, d) if ty == INT else fail(d, 'floor result kept as double')
            s = self.scalar(v, d)
            if ty == INT and isE(s) and s.ty == REAL:
                s = self.real_to_int(s, d)
            if ty == REAL:
                s = to_real(s)
            if ty == BOOL and s.ty != BOOL:
                s = s.ne(0)
            if s.is_const() and (is_const or (not is_ref and self.never_assigned(d))):
                self.bind(name, s)       # compile-time constant (const, or never assigned after its declaration): no storage
                return
            var = self.new_scalar(name, ty)
            self.assign(var.lv(), s)
            self.bind(name, var)
            return
        if td.kind == 'mat':
            if init is None:
                self.bind(name, self.make_value(td, self.fresh(name)))
                return
            v = self.ev(init)
            if isinstance(v, InitList):
                # sized construction  MatrixType m(rows, cols)  /  VectorXd x(n)
                m = self.make_value(td, self.fresh(name))
                if not v.items or any(isinstance(x, InitList) for x in v.items):
                    # value initialisation ( T x{}; ): all zero
                    if isinstance(m, SmallMat):
                        self.set_zero(m, d)
                    self.bind(name, m)
                    return
                dims = [self.scalar(x, d) for x in v.items]
                if dims and isinstance(m, StoreMat):
                    self.resize(m, dims[0], node=d)
                elif dims and isinstance(m, DynSmallMat):
                    self.resize(m, dims[0], dims[1] if len(dims) > 1 else 1, node=d)
                self.bind(name, m)
                return
            v = self.rd(v)
            if is_ref and isinstance(v, (StoreMat, SmallMat)) and self.same_td(v, td):
                self.bind(name, v)       # true alias
                return
            if is_ref and getattr(v, 'is_whole', False):
                self.bind(name, v)       # reference to one element of a std::vector<Matrix>
                return
            if isE(v) and td.R is None:
                # VectorXd x(n): clang prints a one-argument construction as the bare argument
                m = self.make_value(td, self.fresh(name))
                self.resize(m, self.scalar(v, d), node=d)
                self.bind(name, m)
                return
            m = self.make_value(td, self.fresh(name))
            if isE(v) and td.R == 1 and td.C == 1:
                sv = v
                v = ExprMat(1, 1, lambda r, c: sv)      # DIM == 1: a 1x1 expression is a scalar
            if not isinstance(v, Mat):
                fail(d, 'matrix initialised from %s' % type(v).__name__)
            self.mat_assign(m, v, '=', d)
            self.bind(name, m)
            return
        if td.kind in ('stdvec', 'structvec', 'matvec', 'countvec', 'string'):
            if init is not None:
                v = self.ev(init)
                if is_ref:
                    self.bind(name, v)
                    return
                val = self.make_value(td, self.fresh(name))
                if isinstance(v, InitList) and not v.items:
                    self.init_empty(val)
                else:
                    self.copy_value(val, v, d)
                self.bind(name, val)
                return
            val = self.make_value(td, self.fresh(name))
            self.init_empty(val)
            self.bind(name, val)
            return
        if td.kind == 'obj':
            if init is not None:
                v = self.ev(init)
                if is_ref and isinstance(v, Obj):
                    self.bind(name, v)
                    return
                if isinstance(v, Obj):
                    if getattr(v, 'is_temp', False):
                        self.bind(name, v)
                        return
                    obj = self.make_obj(td, self.fresh(name) + '__')
                    self.copy_value(obj, v, d)
                    self.bind(name, obj)
                    return
                if isinstance(v, InitList):
                    obj = self.make_obj(td, self.fresh(name) + '__')
                    self.run_ctor_vals(obj, v.items, d)
                    self.bind(name, obj)
                    return
                fail(d, 'object initialised from %s' % type(v).__name__)
            obj = self.make_obj(td, self.fresh(name) + '__')
            self.default_construct(obj, d)
            self.bind(name, obj)
            return
        if td.kind == 'ptr':
            v = self.ev(init) if init is not None else PtrV(True, None, 'nullptr')
            self.bind(name, v)
            return
        if td.kind == 'veclist':
            m = self.declare(StoreMat(self.fresh(name), td.elem.R if td.elem.C == 1 else td.elem.C))
            m.is_veclist = True
            self.assign(m.rows_lv(), 0)
            self.bind(name, m)
            return
        fail(d, 'no declaration rule for type %r' % td)

    def never_assigned(self, vd):
        """true if the local declared by vd is never the target of =, op=, ++, -- and never has its address taken or is
        bound to a non-const reference parameter anywhere in the enclosing top-level function"""
        root = self.top_node if self.inline_depth == 0 else None
        if root is None:
            return False
        cache = root.setdefault('_assigned_ids', None)
        if cache is None:
            cache = set()

            def target_ids(n, acc):
                k = n.get('kind')
                if k in TRANSPARENT or k in ('ParenExpr',):
                    for c in kids(n):
                        target_ids(c, acc)
                elif k == 'DeclRefExpr':
                    rid = n.get('referencedDecl', {}).get('id')
                    if rid:
                        acc.add(rid)

            def walk(n):
                if not isinstance(n, dict):
                    return
                k = n.get('kind')
                if k in ('BinaryOperator', 'CompoundAssignOperator') and n.get('opcode', '').endswith('=') and n.get('opcode') not in ('==', '!=', '<=', '>='):
                    target_ids(kids(n)[0], cache)
                elif k == 'UnaryOperator' and n.get('opcode') in ('++', '--', '&'):
                    target_ids(kids(n)[0], cache)
                elif k in ('CallExpr', 'CXXMemberCallExpr', 'CXXOperatorCallExpr', 'CXXConstructExpr', 'LambdaExpr'):
                    # arguments might bind to non-const references: be conservative for plain variables passed directly
                    for c in kids(n)[1:] if k != 'CXXConstructExpr' else kids(n):
                        cc = c
                        if cc.get('kind') == 'DeclRefExpr' and cc.get('valueCategory') == 'lvalue':
                            target_ids(cc, cache)
                for c in n.get('inner') or []:
                    walk(c)
            walk(root)
            root['_assigned_ids'] = cache
        return vd.get('id') not in cache

    def same_td(self, v, td):
        if isinstance(v, StoreMat):
            return td.R is None and td.C == v.C
        if isinstance(v, SmallMat):
            return td.R == v.R and td.C == v.C
        return False

    def init_empty(self, val):
        if isinstance(val, (StdVec, StructVec, MatVec, CountVec)):
            self.assign(val.size_lv(), 0)
        elif isinstance(val, StrV):
            self.assign(val.empty_lv(), True)

    def run_ctor_vals(self, obj, vals, n):
        cls = obj.cls
        cands = [c for c in cls.ctors if len(params_of(c)) == len(vals)]
        if len(cands) != 1:
            fail(n, '%d constructors of %s with %d parameters' % (len(cands), cls.name, len(vals)))
        self.invoke_ctor(obj, cands[0], vals, n)

    def frames_push_ctor(self, obj, initlist, n):
        self.run_ctor_vals(obj, initlist.items, n)

    def real_to_int(self, s, n):
        hook = self.opt.get('real_to_int')
        if hook:
            return hook(self, s, n)
        from translate_call import FloorV
        if isinstance(s, FloorV) and self.opt.get('i2r'):
            x = s.x
            k = self.new_scalar('floor', INT)
            self.emit(Havoc(scalars=[(k.name, INT)]))
            lim = E.const(Fraction(2147483648))
            self.obligation((x >= -lim) & (x < lim), 'floor result fits int (conversion is undefined otherwise) %s' % where(n), 'bounds')
            kr = to_real(k.rd())
            self.emit(Assume((kr <= x) & (x < kr + 1), 'std::floor followed by conversion to int'))
            self.notes.append('std::floor + double->int conversion modelled by  k <= x < k+1  (int->double conversion: see I2R axioms)')
            return k.rd()
        fail(n, 'real -> int conversion needs a model')

    def bind_auto(self, name, v, is_ref, d):
        if isinstance(v, (ScalarVar, CellRef)) or isE(v):
            if is_ref and isinstance(v, (ScalarVar, CellRef)):
                self.bind(name, v)
                return
            s = self.scalar(v, d)
            var = self.new_scalar(name, s.ty)
            self.assign(var.lv(), s)
            self.bind(name, var)
            return
        # views, aliases, iterators, lambdas, struct elements: bind the value itself
        if isinstance(v, StructElem) and not v.i.is_const():
            i = self.new_scalar(name + '_idx', INT)
            self.assign(i.lv(), v.i)
            v = StructElem(v.vec, i.rd())
        self.bind(name, v)

    # ------------------------------------------------------------------------------------------------------
    def if_stmt(self, n):
        parts = kids(n)
        cond_n = parts[0]
        then_n = parts[1]
        else_n = parts[2] if len(parts) > 2 else None
        if cond_n.get('kind') == 'DeclStmt':
            fail(n, 'if with init statement')
        c = self.truth(self.ev(cond_n), cond_n)
        if c.is_const():
            if c.cval():
                self.scoped(then_n)
            elif else_n is not None:
                self.scoped(else_n)
            return
        if n.get('isConstexpr'):
            fail(n, 'if constexpr condition is not a compile-time constant in this configuration')
        outer = self.block
        self.block = []
        self.dead = False
        self.scoped(then_n)
        dead_t = self.dead
        tb = self.block
        self.block = []
        self.dead = False
        if else_n is not None:
            self.scoped(else_n)
        dead_e = self.dead
        eb = self.block
        self.block = outer
        self.dead = dead_t and dead_e
        self.emit(If(c, tb, eb))

    def scoped(self, n):
        self.frame.scopes.append({})
        try:
            self.stmt(n)
        finally:
            self.frame.scopes.pop()

    def for_stmt(self, n):
        parts = n.get('inner')
        # ForStmt children: init, condvar (None), cond, inc, body
        init_n, _cv, cond_n, inc_n, body_n = (parts + [None] * 5)[:5]
        init_n = init_n if init_n and init_n.get('kind') else None
        self.frame.scopes.append({})
        try:
            var = None
            init_val = None
            if init_n is not None:
                if init_n.get('kind') == 'DeclStmt' and len(kids(init_n)) == 1:
                    vd = kids(init_n)[0]
                    var = vd['name']
                    iv = kids(vd)
                    init_val = self.scalar(self.ev(iv[0]), n) if iv else None
                    if 'size_t' in vd['type']['qualType'] or 'int' in vd['type']['qualType']:
                        pass
                    else:
                        fail(n, 'loop variable of type %s' % vd['type']['qualType'])
                else:
                    fail(n, 'no rule for this for-loop initialiser')
            if var is None or init_val is None:
                fail(n, 'for loop without a declared counter')
            # try to unroll
            if init_val.is_const():
                self.bind(var, init_val)
                c0 = self.truth(self.ev(cond_n), cond_n)
                if c0.is_const():
                    return self.unroll(n, var, init_val, cond_n, inc_n, body_n)
            return self.symbolic_loop(n, var, init_val, cond_n, inc_n, body_n)
        finally:
            self.frame.scopes.pop()

    def step_const(self, inc_n, var, cur, n):
        k = strip(inc_n)
        if k.get('kind') == 'UnaryOperator' and k['opcode'] in ('++', '--'):
            tgt = strip(kids(k)[0])
            if tgt.get('referencedDecl', {}).get('name') == var:
                return cur + 1 if k['opcode'] == '++' else cur - 1
        if k.get('kind') == 'CompoundAssignOperator' and k['opcode'] in ('+=', '-='):
            a, b = kids(k)
            if strip(a).get('referencedDecl', {}).get('name') == var:
                d = self.scalar(self.ev(b), n)
                if d.is_const():
                    return cur + d if k['opcode'] == '+=' else cur - d
        fail(n, 'no rule for the increment of an unrolled loop')

    def unroll(self, n, var, init_val, cond_n, inc_n, body_n):
        cur = init_val
        count = 0
        saved_cont = self.frame.continue_label
        while True:
            self.bind(var, cur)
            c = self.truth(self.ev(cond_n), cond_n)
            if not c.is_const():
                fail(n, 'loop condition stops being constant while unrolling')
            if not c.cval():
                break
            count += 1
            if count > MAX_UNROLL:
                fail(n, 'constant loop longer than %d iterations' % MAX_UNROLL)
            lab = [self.fresh('cont'), False]
            self.frame.continue_label = lab
            self.loop_keys.append((n.get('_ord'), int(cur.cval())))
            try:
                self.scoped(body_n)
            finally:
                self.loop_keys.pop()
            if lab[1]:
                self.emit(Label(lab[0]))
                self.dead = False
            if self.dead:
                break
            cur = self.step_const(inc_n, var, cur, n)
        self.frame.continue_label = saved_cont

    def symbolic_loop(self, n, var, init_val, cond_n, inc_n, body_n):
        g0 = Ghost('loop%s.before' % n.get('_ord'))
        g0.ns = self.namespace()
        g0.fname = self.frame.fname
        self.emit(g0)
        cvar = self.new_scalar(var, INT)
        self.assign(cvar.lv(), init_val)
        self.bind(var, cvar)
        key = (self.frame.fname, n.get('_ord'), tuple(self.loop_keys))
        outer = self.block
        saved_cont = self.frame.continue_label
        lab = [self.fresh('cont'), False]
        self.frame.continue_label = lab
        # condition (pure)
        self.block = []
        cond = self.truth(self.ev(cond_n), cond_n)
        cond_asserts = []
        if self.block:
            import ir as _ir
            if all(isinstance(x, Assert) for x in self.block):
                # run-time checks of evaluating the condition (e.g. no unsigned wrap-around): they are obligations at every evaluation of
                # the condition -- before the loop and at the end of every iteration
                cond_asserts = list(self.block)
                outer.extend(cond_asserts)
            else:
                fail(cond_n, 'loop condition with side effects: ' + ' | '.join(_ir.dump(self.block))[:300])
        ns = self.namespace()
        self.block = []
        self.emit(Ghost('loop%s.body_begin' % n.get('_ord')))
        self.loop_keys.append((n.get('_ord'), 'sym'))
        ns_end = None
        try:
            # like scoped(), but the names visible at the end of the body are recorded (ghost code / local lemmas see body locals)
            self.frame.scopes.append({})
            try:
                if body_n.get('kind') == 'CompoundStmt':
                    for c in kids(body_n):
                        if self.dead:
                            break
                        self.stmt(c)
                else:
                    self.stmt(body_n)
                ns_end = self.namespace()
            finally:
                self.frame.scopes.pop()
        finally:
            self.loop_keys.pop()
        if lab[1]:
            self.emit(Label(lab[0]))
        self.dead = False
        self.emit(Ghost('loop%s.body_end' % n.get('_ord')))
        body = self.block
        self.block = []
        self.ev(inc_n)
        step = self.block + cond_asserts
        self.block = outer
        self.frame.continue_label = saved_cont
        lp = Loop(key, cvar.name, cond, step, body, src=where(n))
        lp.ns = ns
        lp.ns_end = ns_end or ns
        lp.uservar = var
        lp.init = init_val
        self.emit(lp)
        g = Ghost('loop%s.after' % n.get('_ord'))
        g.ns = self.namespace()
        g.fname = self.frame.fname
        self.emit(g)

    def range_for(self, n):
        # CXXForRangeStmt: [init?] range decl, begin, end, cond, inc, loopvar decl, body
        parts = [c for c in n.get('inner') if c and c.get('kind')]
        range_decl = parts[0]
        loopvar = None
        body = parts[-1]
        for c in parts:
            if c.get('kind') == 'DeclStmt':
                vd = kids(c)[0]
                if not vd['name'].startswith('__'):
                    loopvar = vd
        rng_init = kids(kids(range_decl)[0])[0]
        seq = self.ev(rng_init)
        if loopvar is None:
            fail(n, 'range-for without loop variable')
        name = loopvar['name']
        if not isinstance(seq, (StdVec, StructVec)):
            fail(n, 'range-for over %s' % type(seq).__name__)
        self.frame.scopes.append({})
        try:
            cvar = self.new_scalar('rf_' + name, INT)
            self.assign(cvar.lv(), 0)
            key = (self.frame.fname, n.get('_ord'), tuple(self.loop_keys))
            outer = self.block
            saved_cont = self.frame.continue_label
            lab = [self.fresh('cont'), False]
            self.frame.continue_label = lab
            cond = cvar.rd() < seq.size()
            self.block = []
            if isinstance(seq, StdVec):
                if loopvar['type']['qualType'].strip().endswith('&'):
                    self.bind(name, CellRef(seq.lv(cvar.rd())))
                else:
                    loc = self.new_scalar(name, seq.ty)
                    self.assign(loc.lv(), seq.at(cvar.rd()))
                    self.bind(name, loc)
            else:
                self.bind(name, seq.elem(cvar.rd()))
            ns = self.namespace()
            self.emit(Ghost('loop%s.body_begin' % n.get('_ord')))
            self.loop_keys.append((n.get('_ord'), 'sym'))
            try:
                self.scoped(body)
            finally:
                self.loop_keys.pop()
            if lab[1]:
                self.emit(Label(lab[0]))
            self.dead = False
            self.emit(Ghost('loop%s.body_end' % n.get('_ord')))
            bodyb = self.block
            self.block = outer
            self.frame.continue_label = saved_cont
            lp = Loop(key, cvar.name, cond, [Assign(cvar.lv(), cvar.rd() + 1)], bodyb, src=where(n))
            lp.ns = ns
            lp.uservar = name
            self.emit(lp)
        finally:
            self.frame.scopes.pop()

    def namespace(self):
        ns = {}
        this = self.frame.this
        if isinstance(this, Obj):
            ns.update(this.fields)
            ns['this'] = this
        for sc in self.frame.scopes:
            ns.update(sc)
        return ns

    # ------------------------------------------------------------------------------------------------------
    def return_stmt(self, n):
        fr = self.frame
        sub = kids(n)
        if sub:
            v = self.ev(sub[0])
            self.store_return(fr, v, n)
        fr.used_goto = True
        self.emit(Goto(fr.end_label))
        self.dead = True

    def store_return(self, fr, v, n):
        if isinstance(v, InitList):
            fail(n, 'braced return')
        rv = v
        if isinstance(rv, (ScalarVar, CellRef)) or isE(rv) or isinstance(rv, EnumV):
            s = self.scalar(rv.e if isinstance(rv, EnumV) else rv, n)
            rt = getattr(fr, 'ret_type', 'auto')
            if rt in ('double', 'float'):
                s = to_real(s)
            if fr.ret_slot is None:
                fr.ret_slot = self.new_scalar('ret_' + fr.fname.split('.')[-1], s.ty)
            if fr.ret_slot.ty == REAL:
                s = to_real(s)
            self.assign(fr.ret_slot.lv(), s)
            return
        if isinstance(rv, Mat):
            R, C = cint(rv.R), cint(rv.C)
            if fr.ret_slot is None:
                try:
                    this = fr.this
                    rtd = resolve(getattr(fr, 'ret_type', 'auto'), self.tenv(this.cls, this.cfg))
                except Exception:
                    rtd = None
                if rtd is not None and rtd.kind == 'mat' and rtd.R is None and rtd.C is not None:
                    fr.ret_slot = self.make_value(rtd, self.fresh('ret_' + fr.fname.split('.')[-1]))
            if isinstance(fr.ret_slot, StoreMat):
                self.mat_assign(fr.ret_slot, rv, '=', n)
                return
            if R is not None and C is not None:
                if fr.ret_slot is None:
                    fr.ret_slot = self.declare(SmallMat(self.fresh('ret_' + fr.fname.split('.')[-1]), R, C))
                self.mat_assign(fr.ret_slot, rv, '=', n)
                return
            if fr.ret_slot is None:
                fr.ret_slot = self.declare(StoreMat(self.fresh('ret_' + fr.fname.split('.')[-1]), cint(rv.C)))
            self.mat_assign(fr.ret_slot, rv, '=', n)
            return
        if isinstance(rv, Obj):
            if fr.ret_slot is None:
                td = getattr(rv, 'td', None)
                if td is None:
                    fr.ret_slot = rv
                    return
                fr.ret_slot = self.make_obj(td, self.fresh('ret_' + fr.fname.split('.')[-1]) + '__')
                fr.ret_slot.is_temp = True
            self.copy_value(fr.ret_slot, rv, n)
            return
        if isinstance(rv, (StdVec,)):
            if fr.ret_slot is None:
                fr.ret_slot = self.declare(StdVec(self.fresh('ret_' + fr.fname.split('.')[-1]), rv.ty))
            self.copy_value(fr.ret_slot, rv, n)
            return
        if fr.ret_slot is None:
            fr.ret_slot = rv
            return
        if fr.ret_slot is rv:
            return
        fail(n, 'second return of a %s' % type(rv).__name__)

    def emit_throw(self, n):
        tv = self.opt.get('throw_flag')
        if tv is None:
            fail(n, 'throw without a throw_flag option')
        self.assign(LV(tv, BOOL), True)
        self.globals_s[tv] = BOOL
        fr = self.frames[0]
        # a throw leaves every inlined frame: jump to the top-level end
        fr.used_goto = True
        self.emit(Goto(fr.end_label))
        self.dead = True

    def run_body(self, m, fr):
        body = body_of(m)
        if body is None:
            raise ExtractionError('method %s has no body' % m.get('name'))
        if '_numbered' not in m:
            number_loops(m)
            m['_numbered'] = True
        self.stmt(body)

    # ------------------------------------------------------------------------------------------------------ by contract
    def call_by_contract(self, contract, obj, cls, m, argvals, n):
        ps = params_of(m)
        ns = dict(obj.fields)
        ns['this'] = obj
        tenv = self.tenv(cls, obj.cfg)
        for i, p in enumerate(ps):
            if i < len(argvals):
                v = argvals[i]
            else:
                dn = kids(p)
                if not dn:
                    fail(n, 'missing argument for %s' % p.get('name'))
                v = self.ev(dn[0])
            if not p['type']['qualType'].strip().endswith('&') and (isE(v) or isinstance(v, (ScalarVar, CellRef))):
                v = self.scalar(v, n)
            if isinstance(v, InitList):
                v = self.pass_arg(p['type']['qualType'], v, tenv, p.get('name') or 'arg', n)
            ns[p.get('name')] = v
        rt = m['type']['qualType'].split('(')[0].strip()
        ret = None
        if m.get('kind') == 'CXXConstructorDecl':
            rt = 'void'
        if rt != 'void':
            td = resolve(rt, tenv)
            ret = self.make_value(td, self.fresh('res_' + m['name']))
            ns['result'] = ret
        site = '%s@%s' % (contract.key, where(n))
        cc = CallContract(contract.key, ns, site, ret=ret)
        cc.contract = contract
        cc.cfg = dict(obj.cfg)
        cc.guard = self.guard
        cns = self.namespace()
        cns['callee'] = obj
        for k in range(len(ps)):
            if ps[k].get('name') in ns:
                cns['carg%d' % k] = ns[ps[k].get('name')]
        self.anchor('call.%s.before' % m['name'], cns)
        self.emit(cc)
        if ret is not None:
            cns = dict(cns)
            cns['ret'] = ret
        self.anchor('call.%s.after' % m['name'], cns)
        return ret if ret is not None else VOID

    # ------------------------------------------------------------------------------------------------------ entry
    def translate_method(self, cls_name, cfg, name, nparams=None, pred=None, prefix='', this=None, ctor=False):
        cls = get_class(cls_name) if isinstance(cls_name, str) else cls_name
        if this is None:
            td = TD('obj', cls=cls.name, cfg=cfg)
            this = self.make_obj(td, prefix)
        if ctor:
            cands = [c for c in cls.ctors if len(params_of(c)) == nparams and (pred is None or pred(c))]
            if len(cands) != 1:
                raise ExtractionError('constructor %s/%s: %d candidates' % (cls.name, nparams, len(cands)))
            m = cands[0]
        else:
            m = cls.method(name, nparams, pred)
        key = self.method_key(cls, m) if not ctor else '%s.ctor%d' % (cls.name, nparams)
        self.top_key = key
        self.top_node = m
        fr = Frame(key, this, None, 'fn_end')
        tenv = self.tenv(cls, this.cfg)
        params = {}
        for p in params_of(m):
            pname = p.get('name')
            if pname is None:
                continue
            tstr = p['type']['qualType']
            ap = self.opt.get('abstract_params', {})
            if pname in ap:
                v = ap[pname](self) if callable(ap[pname]) else ap[pname]
                params[pname] = v
                fr.scopes[0][pname] = v
                continue
            td = resolve(tstr, tenv)
            if td.kind == 'ptr' and td.to.kind == 'int':
                tgt = self.declare(ScalarVar('p_%s_val' % pname, INT))
                self.globals_s['p_%s_null' % pname] = BOOL
                v = PtrV(E.var('p_%s_null' % pname, BOOL), tgt, 'param')
            elif td.kind == 'ptr' and ('p_%s_null' % pname) in self.pins:
                # pointer parameter with pinned nullness (one verification task per case)
                isnull = bool(self.pins['p_%s_null' % pname])
                v = PtrV(E.const(isnull), None if isnull else self.make_value(td.to, 'p_' + pname), 'param')
            elif td.kind == 'ptr':
                v = self.declare(PtrSlot('p_' + pname, td.to))
                if td.to.kind in ('string', 'real', 'int', 'bool'):
                    v.target = self.make_value(td.to, 'p_%s_val' % pname)
            elif td.kind == 'enum':
                sv = self.declare(ScalarVar('p_' + pname, INT))
                v = EnumV(td.name, E.const(self.pins['p_' + pname]) if ('p_' + pname) in self.pins else sv.rd())
            else:
                v = self.make_value(td, 'p_' + pname)
            params[pname] = v
            fr.scopes[0][pname] = v
        fr.ret_type = m['type']['qualType'].split('(')[0].strip()
        self.frames = [fr]
        self.block = []
        self.inline_depth = 0
        if ctor:
            self.frames = []
            self.invoke_ctor(this, m, [params[p['name']] for p in params_of(m)], m)
            self.frames = [fr]
        else:
            self.run_body(m, fr)
        self.emit(Label('fn_end'))
        res = TranslatedFunction()
        res.key = key
        res.cls = cls
        res.cfg = dict(this.cfg)
        res.this = this
        res.params = params
        res.body = self.block
        res.ret = fr.ret_slot
        res.ns = dict(this.fields)
        res.ns['this'] = this
        res.ns.update(params)
        if fr.ret_slot is not None:
            res.ns['result'] = fr.ret_slot
        res.globals_s = self.globals_s
        res.globals_a = self.globals_a
        res.notes = list(self.notes)
        res.pins = dict(self.pins)
        res.locals = dict(self.top_locals)
        res.recips = dict(self.recips)
        res.node = m
        return res


class TranslatedFunction(object):
    pass


class VecListBuilder(object):
    """SplineVector<VectorType> results; push_back in a symbolic loop records the element function"""

    def __init__(self, tr, td, name):
        self.items = []
