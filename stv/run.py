"""experimental driver: python3 run.py <contracts module> <Class.method> <nparams> <cfg dict> [pins]"""
import sys, os, time
HERE = os.path.dirname(os.path.abspath(__file__))
sys.path.insert(0, HERE); sys.path.insert(0, os.path.join(HERE, '..', 'contracts'))
import importlib
from tr import Translator
from gen import Generator
import discharge
import base

def main():
    mod, key, npar, cfg = sys.argv[1], sys.argv[2], int(sys.argv[3]), eval(sys.argv[4])
    pins = eval(sys.argv[5]) if len(sys.argv) > 5 else {}
    importlib.import_module(mod)
    allc = [c for lst in base.REGISTRY.values() for c in lst]
    cs = base.ContractSet(allc)
    cls, name = key.split('.')
    t = Translator({'contracts': cs.by_key and {k: cs.get(k) for k in cs.by_key}})
    t.pins = pins
    fn = t.translate_method(cls, cfg, name, npar)
    contract = cs.get(key)
    contract = contract.select(fn.node, npar)
    g = Generator(fn, contract, {k: cs.get(k) for k in cs.by_key}, 'CXX', 'dev')
    h = g.generate()
    print('frame problems:', h.frame_problems)
    t0 = time.time()
    res = discharge.run_harness(h, '/tmp/stv_work', timeout=60)
    for r in res:
        print('%-9s %6.2fs %-6s %s %s' % (r.status, r.secs, r.backend, r.ob.oid, r.detail[:200]))
    print('file', h.cfile, 'wall %.1fs' % (time.time() - t0))
main()
