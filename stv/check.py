"""Entry point of every registered check:  check.py <property id> [--tier quick|thorough] [--replay <file>]

exit 0: every obligation generated from /repo's current source was PROVED (and at least the baseline number exist)
exit 1: some obligation was REFUTED (a VIOLATION line is printed for each, after native replay)
exit 2: tool failure / undecided / extraction failure -- never reported as a violation
"""
import concurrent.futures
import importlib
import json
import os
import re
import shutil
import subprocess
import sys
import time
import traceback

HERE = os.path.dirname(os.path.abspath(__file__))
ROOT = os.path.dirname(HERE)
sys.path.insert(0, HERE)
sys.path.insert(0, os.path.join(ROOT, 'contracts'))
sys.path.insert(0, os.path.join(ROOT, 'spec'))
sys.path.insert(0, os.path.join(ROOT, 'props'))

import cxxast
from cxxast import ExtractionError
from tr import Translator
from gen import Generator, GenError
import discharge
from discharge import PROVED, REFUTED, UNDECIDED
import base

COMMON_TRUSTED = [
    'clang 14 front end (AST of the uninstantiated templates) and the extraction rules of /verif/stv (Eigen semantic table, std::vector as array + size); unknown constructs abort with exit 2',
    'double treated as a mathematical real (no rounding, NaN, Inf or overflow) in every obligation over __CPROVER_rational',
    'CBMC 6.11 symbolic execution of the generated loop-free C and its SMT2 encoding; z3 4.8.12 / z3 5.1 / cvc5 1.0.3 answers',
    'resize() modelled as havoc of the contents; storage order and expression-template evaluation order of Eigen not modelled',
    'int treated as 32-bit two\'s complement with segment counts assumed <= 2^24 (index arithmetic does not overflow)',
]


class Task(object):
    def __init__(self, cls, method, nparams=None, cfg=None, pins=None, label=None, ctor=False, options=None, contract_key=None,
                 gen_options=None, pred=None, setup=None):
        self.cls = cls
        self.method = method
        self.nparams = nparams
        self.cfg = cfg or {}
        self.pins = pins or {}
        self.ctor = ctor
        self.options = options or {}
        self.gen_options = gen_options or {}
        self.contract_key = contract_key
        self.pred = pred
        self.setup = setup
        self.label = label or self.default_label()

    def default_label(self):
        parts = []
        for k, v in sorted(self.cfg.items()):
            if isinstance(v, dict):
                v = v['cls'].replace('SplineND', '')
            parts.append('%s=%s' % (k, 'dyn' if v is None else v))
        for k, v in sorted(self.pins.items()):
            parts.append('%s=%s' % (k.replace('p_', '').replace('num_coeffs_', 'nc').replace('derivative_order', 'k'), v))
        return ','.join(parts)


def all_contracts():
    allc = [c for lst in base.REGISTRY.values() for c in lst]
    cs = base.ContractSet(allc)
    return {k: cs.get(k) for k in cs.by_key}


class ScriptTask(object):
    """a property script (see script.py): fn(script) builds it"""
    def __init__(self, name, fn, cfg=None, options=None, label=None):
        self.name = name
        self.fn = fn
        self.cfg = cfg or {}
        self.options = options or {}
        self.pins = {}
        self.label = label or (','.join('%s=%s' % kv for kv in sorted(self.cfg.items())) or 'script')
        self.gen_options = {}


def build_script_harness(prop, task, contracts):
    from script import Script, EmptyContract
    opts = dict(task.options)
    opts['contracts'] = {}
    sc = Script(task.name, task.cfg, opts)
    task.fn(sc)
    fn = sc.finish()
    g = Generator(fn, EmptyContract(), contracts, prop, task.label, task.gen_options)
    h = g.generate()
    h.task = task
    h.fn_key = fn.key
    h.notes = fn.notes
    return h


def build_harness(prop, task, contracts):
    if task.__class__.__name__ == 'ScriptTask':
        return build_script_harness(prop, task, contracts)
    opts = dict(task.options)
    opts['contracts'] = contracts
    t = Translator(opts)
    t.pins = dict(task.pins)
    this = None
    cls = task.cls
    if '::' in task.cls:
        from ctypes_ import TD
        this = t.make_obj(TD('obj', cls=task.cls, cfg=task.cfg), '')
        cls = this.cls
    if task.setup is not None:
        this = task.setup(t, this, task)
    fn = t.translate_method(cls, task.cfg, task.method, task.nparams, ctor=task.ctor, pred=task.pred, this=this)
    key = task.contract_key or fn.key
    contract = contracts.get(key)
    if contract is None:
        raise GenError('no contract registered for %s' % key)
    np_ = len(cxxast.params_of(fn.node))
    contract = contract.select(fn.node, np_)
    if contract is None:
        raise GenError('no contract for %s applies to the %d-parameter overload' % (key, np_))
    g = Generator(fn, contract, contracts, prop, task.label, task.gen_options)
    h = g.generate()
    h.task = task
    h.fn_key = fn.key
    h.notes = fn.notes
    h.gen = g
    return h


def header_digest():
    import hashlib
    d = hashlib.sha256()
    for f in ('SplineTrajectory.hpp', 'SplineOptimizer.hpp'):
        with open(os.path.join(cxxast.REPO, 'include', f), 'rb') as fh:
            d.update(fh.read())
    return d.hexdigest()[:16]


def main():
    import argparse
    ap = argparse.ArgumentParser()
    ap.add_argument('prop')
    ap.add_argument('--tier', default=os.environ.get('VERIF_TIER', 'quick'))
    ap.add_argument('--replay', default=None)
    ap.add_argument('--jobs', type=int, default=int(os.environ.get('STV_JOBS', '16')))
    ap.add_argument('--keep', action='store_true')
    ap.add_argument('--write-baseline', action='store_true', help='development only: record the obligation count of this (clean) run')
    ap.add_argument('--only', default=None, help='regex on harness names (development)')
    ap.add_argument('--obl', default=None, help='regex on obligation ids (development; never used by registered commands)')
    args = ap.parse_args()
    prop = args.prop
    tier = args.tier if args.tier in ('quick', 'thorough') else 'quick'
    seed = int(os.environ.get('VERIF_SEED', '0') or 0)
    t0 = time.time()
    mod = importlib.import_module(prop)
    if args.replay:
        sys.exit(mod.replay_file(args.replay))
    # STV_SCRATCH: development runs against a scratch copy of the repository (STV_REPO) keep their files apart
    scratch = os.environ.get('STV_SCRATCH', '')
    workdir = os.path.join(ROOT, 'build', prop + '_' + tier + scratch)
    shutil.rmtree(workdir, ignore_errors=True)
    os.makedirs(workdir, exist_ok=True)
    evid_path = os.path.join(ROOT, 'evidence', prop + '.json') if not scratch else os.path.join(workdir, prop + '.evidence.json')
    os.makedirs(os.path.dirname(evid_path), exist_ok=True)
    try:
        os.remove(evid_path)
    except OSError:
        pass
    timeout = int(os.environ.get('STV_TIMEOUT', '60' if tier == 'quick' else '600'))
    failures = []
    harnesses = []
    contracts = None
    try:
        for m in getattr(mod, 'CONTRACT_MODULES', []):
            importlib.import_module(m)
        contracts = all_contracts()
        tasks = mod.tasks(tier)
        for task in tasks:
            h = build_harness(prop, task, contracts)
            if any(h.name == x.name for x in harnesses):
                raise GenError('two tasks produce the same harness name %s: give them distinct labels' % h.name)
            harnesses.append(h)
            for sh in getattr(h, 'side_harnesses', []):
                sh.task = task
                sh.fn_key = h.fn_key + ' (one iteration, scalarised)'
                sh.notes = []
                harnesses.append(sh)
        if args.only:
            harnesses = [h for h in harnesses if re.search(args.only, h.name)]
        # every pure lemma used by some harness is proved in its own harness
        used = sorted(set(n for h in harnesses for n in getattr(h, 'used_lemmas', [])))
        from gen import lemma_harness
        for ln in used:
            lh = lemma_harness(base.LEMMAS[ln], prop)
            lh.task = Task('lemma', ln, label=ln)
            lh.fn_key = 'lemma.' + ln
            lh.notes = []
            harnesses.append(lh)
    except (ExtractionError, GenError) as ex:
        print('TOOL-FAILURE property=%s extraction/generation: %s' % (prop, ex))
        write_evidence(evid_path, prop, tier, seed, [], [], time.time() - t0, mod, note='extraction failure: %s' % ex, ok=False)
        sys.exit(2)
    except Exception as ex:
        traceback.print_exc()
        print('TOOL-FAILURE property=%s internal error: %s' % (prop, ex))
        sys.exit(2)
    if os.environ.get('STV_DRY') == '1':
        # development aid: build every harness of the tier (extraction + generation) and stop before discharging anything
        print('DRY property=%s tier=%s harnesses=%d obligations=%d' % (prop, tier, len(harnesses), sum(len(h.obligations) for h in harnesses)))
        sys.exit(0)
    # supplementary native / stock-CBMC parts of a property (e.g. C15) run alongside
    extra = []
    if hasattr(mod, 'extra_checks'):
        extra = mod.extra_checks(tier, workdir)
    pool = concurrent.futures.ThreadPoolExecutor(max_workers=args.jobs)
    futs = []
    frame_fail = []
    for h in harnesses:
        if args.obl:
            h.obligations = [o for o in h.obligations if re.search(args.obl, o.oid) or o.kind == 'reach']
        flt = getattr(getattr(h, 'task', None), 'obligation_filter', None)
        if flt:
            # a property whose own obligations are a named subset of another property's harness (stated in its level text)
            h.obligations = [o for o in h.obligations if re.search(flt, o.oid) or o.kind == 'reach']
        if h.frame_problems:
            frame_fail.append((h, h.frame_problems))
        fl = discharge.run_harness(h, workdir, timeout=timeout, pool=pool)
        futs += [(h, f) for f in fl]
    results = []
    for h, f in futs:
        for r in f.result():
            r.harness = h
            results.append(r)
    pool.shutdown()
    wall = time.time() - t0
    # ---- verdict
    refuted = [r for r in results if r.status == REFUTED and r.ob.kind != 'reach']
    undec = [r for r in results if r.status == UNDECIDED and r.ob.kind != 'reach']
    vacuous = [r for r in results if r.ob.kind == 'reach' and r.status == PROVED]
    reach_ok = [r for r in results if r.ob.kind == 'reach' and r.status == REFUTED]
    reach_undec = [r for r in results if r.ob.kind == 'reach' and r.status == UNDECIDED]
    proved = [r for r in results if r.status == PROVED and r.ob.kind != 'reach']
    n_obl = len([r for r in results if r.ob.kind != 'reach']) + sum(len(fp) for _, fp in frame_fail)
    baseline = load_baseline(prop, tier)
    rc = 0
    msgs = []
    known = load_known(prop)
    viol_lines = []
    for e in extra:
        n_obl += e.get('obligations', 0)
        if e.get('status') == 'violation':
            viol_lines.append(e)
        elif e.get('status') == 'undecided':
            rc = max(rc, 2)
            msgs.append('supplement %s undecided: %s' % (e.get('name'), e.get('detail', '')))
    if frame_fail:
        for h, fp in frame_fail:
            refuted_frame = Pseudo('%s/%s/frame[%s]' % (prop, h.fn_key, h.task.label), 'frame', 'writes outside the declared assigns: %s' % ', '.join(fp), h)
            refuted.append(refuted_frame)
    if refuted or viol_lines:
        rc = 1
    if vacuous:
        rc = max(rc, 2) if rc != 1 else rc
        msgs.append('VACUOUS harnesses (reachability obligation was proved): %s' % ', '.join(r.harness.name for r in vacuous))
        if rc != 1:
            rc = 2
    if undec and rc == 0:
        rc = 2
    if rc == 0 and baseline is not None and not args.only and not args.obl and n_obl < int(0.8 * baseline):
        rc = 2
        msgs.append('only %d obligations generated, baseline is %d' % (n_obl, baseline))
    out_lines = []
    reported = 0
    if refuted or viol_lines:
        rep_dir = os.path.join(ROOT, 'replays') if not os.environ.get('STV_SCRATCH') else os.path.join(ROOT, 'build', 'replays' + os.environ.get('STV_SCRATCH'))
        os.makedirs(rep_dir, exist_ok=True)
        groups = {}
        for r in refuted:
            groups.setdefault(r.ob.oid, r)
        for oid, r in sorted(groups.items()):
            kf = match_known(known, oid)
            if kf is not None:
                out_lines.append('KNOWN-FINDING: property=%s %s' % (prop, kf))
                continue
            path = os.path.join(rep_dir, '%s_%s.json' % (prop, re.sub(r'[^A-Za-z0-9_.-]', '_', oid)[:150]))
            found, detail = False, ''
            try:
                found, detail = mod.replay(r, workdir, seed)
            except Exception as ex:
                detail = 'replay machinery failed: %s' % ex
            rec = {'property': prop, 'obligation': oid, 'kind': r.ob.kind, 'label': r.ob.label, 'harness': getattr(r.harness, 'cfile', ''),
                   'verifier_output': r.trace[-20000:] if getattr(r, 'trace', '') else getattr(r, 'detail', ''),
                   'model': discharge.parse_trace(r.trace) if getattr(r, 'trace', '') else {},
                   'native_replay': {'failing_input_found': bool(found), 'detail': detail}, 'tier': tier, 'seed': seed,
                   'header_digest': header_digest()}
            with open(path, 'w') as f:
                json.dump(rec, f, indent=1)
            out_lines.append('VIOLATION property=%s replay=%s%s' % (prop, path, '' if found else ' no-failing-input-found'))
            reported += 1
        for e in viol_lines:
            kf = match_known(known, e.get('oid', e.get('name', '')))
            if kf is not None:
                out_lines.append('KNOWN-FINDING: property=%s %s' % (prop, kf))
                continue
            rp = e.get('replay')
            if not rp:
                rp = os.path.join(rep_dir, '%s_%s.json' % (prop, re.sub(r'[^A-Za-z0-9_.-]', '_', e.get('oid', e.get('name', 'supplement')))[:150]))
                with open(rp, 'w') as f:
                    json.dump({'property': prop, 'obligation': e.get('oid', e.get('name')), 'verifier_output': e.get('detail', ''),
                               'native_replay': {'failing_input_found': bool(e.get('found', False)), 'detail': e.get('native_detail', '')},
                               'back_end': e.get('back_end', ''), 'tier': tier, 'seed': seed, 'header_digest': header_digest()}, f, indent=1)
            out_lines.append('VIOLATION property=%s replay=%s%s' % (prop, rp, '' if e.get('found', False) else ' no-failing-input-found'))
            reported += 1
        if reported == 0 and not undec and not vacuous:
            rc = 0
    for kf in known_always(known):
        out_lines.append('KNOWN-FINDING: property=%s %s' % (prop, kf))
    for m in msgs:
        print('NOTE:', m)
    for r in undec[:40]:
        print('UNDECIDED %s (%s)' % (r.ob.oid, r.detail[:300].replace('\n', ' ')))
    for l in out_lines:
        print(l)
    discharged = len(proved) + sum(e.get('discharged', 0) for e in extra)
    write_evidence(evid_path, prop, tier, seed, results, harnesses, wall, mod, ok=(rc == 0), n_obl=n_obl, discharged=discharged,
                   violations=reported, extra=extra, undecided=len(undec), reach_ok=len(reach_ok), vacuous=len(vacuous), reach_undec=[r.harness.name for r in reach_undec])
    print('SUMMARY property=%s tier=%s harnesses=%d obligations=%d proved=%d refuted=%d undecided=%d reach_refuted=%d wall=%.1fs exit=%d'
          % (prop, tier, len(harnesses), n_obl, discharged, len(refuted), len(undec), len(reach_ok), wall, rc))
    if args.write_baseline and rc == 0:
        p = os.path.join(ROOT, 'baseline', 'obligations.json')
        os.makedirs(os.path.dirname(p), exist_ok=True)
        try:
            d = json.load(open(p))
        except Exception:
            d = {}
        d.setdefault(prop, {})[tier] = n_obl
        json.dump(d, open(p, 'w'), indent=1, sort_keys=True)
    if not args.keep and rc == 0:
        shutil.rmtree(workdir, ignore_errors=True)
    sys.exit(rc)


class Pseudo(object):
    def __init__(self, oid, kind, label, h):
        class O(object):
            pass
        self.ob = O()
        self.ob.oid = oid
        self.ob.kind = kind
        self.ob.label = label
        self.status = REFUTED
        self.harness = h
        self.trace = ''
        self.detail = label
        self.secs = 0.0
        self.backend = 'generator (syntactic frame check)'


def load_baseline(prop, tier):
    p = os.path.join(ROOT, 'baseline', 'obligations.json')
    try:
        d = json.load(open(p))
        return d.get(prop, {}).get(tier)
    except Exception:
        return None


def load_known(prop):
    """KNOWN_FINDINGS.txt lines:  finding: property=<id> obligation=<regex> <description>   |   fixed: property=<id> <commit> <what>"""
    out = []
    p = os.path.join(ROOT, 'KNOWN_FINDINGS.txt')
    try:
        for line in open(p):
            line = line.strip()
            m = re.match(r'finding:\s+property=(\S+)\s+obligation=(\S+)\s+(.*)', line)
            if m and m.group(1) == prop:
                out.append((m.group(2), m.group(3)))
    except IOError:
        pass
    return out


def match_known(known, oid):
    for rx, desc in known:
        if rx != 'ALWAYS' and re.search(rx, oid):
            return desc
    return None


def known_always(known):
    return []


def write_evidence(path, prop, tier, seed, results, harnesses, wall, mod, note=None, ok=True, n_obl=0, discharged=0, violations=0,
                   extra=None, undecided=0, reach_ok=0, vacuous=0, reach_undec=()):
    by_backend = {}
    solver_secs = 0.0
    for r in results:
        by_backend[r.backend or 'n/a'] = by_backend.get(r.backend or 'n/a', 0) + 1
        solver_secs += r.secs
    samples = []
    step = max(1, len(results) // 12) if results else 1
    for r in results[::step][:14]:
        samples.append({'obligation': r.ob.oid, 'kind': r.ob.kind, 'status': r.status, 'back_end': r.backend, 'seconds': round(r.secs, 2),
                        'harness': os.path.basename(getattr(r.harness, 'cfile', '') or '')})
    fns = sorted(set(h.fn_key + ' [' + h.task.label + ']' for h in harnesses))
    trusted = list(COMMON_TRUSTED) + list(getattr(mod, 'TRUSTED', []))
    notes = sorted(set(n for h in harnesses for n in getattr(h, 'notes', [])))
    assumed = sorted(set(n for h in harnesses for n in getattr(h, 'assumed', [])))
    ev = {
        'property_id': prop, 'tier': tier, 'seed': seed, 'level': getattr(mod, 'LEVEL', 'proof'),
        'coverage': {
            'obligations': int(n_obl), 'discharged': int(discharged),
            'checker_cmd': 'python3 /verif/stv/check.py %s --tier %s  (per obligation: cbmc <harness>.c --z3 --nondet-static --no-standard-checks --property main.assertion.N, solver portfolio /verif/stv/portfolio/z3)' % (prop, tier),
            'trusted_base': trusted,
            'samples': samples,
            'functions_under_contract': fns,
            'harnesses': len(harnesses),
            'back_ends': by_backend,
            'solver_seconds_total': round(solver_secs, 1),
            'undecided': undecided,
            'vacuity': {'reach_obligations_refuted': reach_ok, 'reach_obligations_proved(vacuous)': vacuous,
                        'reach_obligations_undecided (no model of the whole path found within the time limit; not evidence of vacuity)': list(reach_undec)},
            'undecided_clauses': list(getattr(mod, 'UNDECIDED_CLAUSES', [])),
            'bounded_supplements': list(getattr(mod, 'BOUNDED', [])),
            'library_models_used': notes,
            'supplements': extra or [],
            'header_digest': header_digest() if os.path.exists(os.path.join(cxxast.REPO, 'include')) else '',
            'explanation': getattr(mod, 'EXPLANATION', ''),
        },
        'assumptions': list(getattr(mod, 'ASSUMPTIONS', [])) + assumed + ([note] if note else []),
        'wall_s': round(wall, 1), 'violations': int(violations),
    }
    if not n_obl:
        ev['coverage']['obligations'] = 0
        ev['coverage']['discharged'] = 0
    with open(path, 'w') as f:
        json.dump(ev, f, indent=1)


if __name__ == '__main__':
    main()
