"""Run CBMC (symbolic execution + SMT via the portfolio) on generated harnesses, one obligation per query."""
import concurrent.futures
import os
import re
import subprocess
import time

HERE = os.path.dirname(os.path.abspath(__file__))
PORTFOLIO = os.path.join(HERE, 'portfolio')

PROVED, REFUTED, UNDECIDED = 'PROVED', 'REFUTED', 'UNDECIDED'


class Result(object):
    def __init__(self, ob, status, secs, backend='', detail='', trace=''):
        self.ob = ob
        self.status = status
        self.secs = secs
        self.backend = backend
        self.detail = detail
        self.trace = trace
        self.harness = None


def cbmc_cmd(cfile, prop_index, trace=True):
    cmd = ['cbmc', cfile, '--z3', '--nondet-static', '--no-standard-checks', '--property', 'main.assertion.%d' % prop_index]
    if trace:
        cmd.append('--trace')
    return cmd


def run_one(cfile, ob, timeout, mem_kb=8 * 1024 * 1024):
    """first a cheap attempt with the solver that wins most often, then the whole portfolio with the full timeout"""
    t1 = min(timeout, float(os.environ.get('STV_FIRST_TIMEOUT', '20')))
    r = _run_one(cfile, ob, t1, mem_kb, os.environ.get('STV_PORTFOLIO_FIRST', 'z3int,z3uf,z3new,z3nl'))
    if r.status != UNDECIDED:
        return r
    r2 = _run_one(cfile, ob, timeout, mem_kb, os.environ.get('STV_PORTFOLIO', 'z3int,z3uf,z3new,z3som,cvc5int,z3newint,cvc5,z3nl,z3def'))
    r2.secs += r.secs
    return r2



def run_group(cmd, env, timeout):
    """run a command in its own process group; on timeout kill the whole group (CBMC, the portfolio wrapper and every solver it
    started), so that no solver keeps a core after its verdict can no longer be used.  returns (stdout text, timed_out)"""
    import signal
    p = subprocess.Popen(cmd, stdout=subprocess.PIPE, stderr=subprocess.STDOUT, env=env, preexec_fn=os.setsid)
    try:
        out, _ = p.communicate(timeout=timeout)
        return out.decode(errors='replace'), False
    except subprocess.TimeoutExpired:
        try:
            os.killpg(os.getpgid(p.pid), signal.SIGKILL)
        except Exception:
            pass
        try:
            out, _ = p.communicate(timeout=10)
        except Exception:
            out = b''
        return (out or b'').decode(errors='replace'), True


def _run_one(cfile, ob, timeout, mem_kb, members):
    logf = cfile + '.pf.%d.log' % ob.index
    env = dict(os.environ)
    env['PATH'] = PORTFOLIO + os.pathsep + env.get('PATH', '')
    env['STV_SOLVER_TIMEOUT'] = str(timeout)
    env['STV_PORTFOLIO_LOG'] = logf
    env['STV_PORTFOLIO'] = members
    cmd = cbmc_cmd(cfile, ob.index)
    t0 = time.time()
    out, timed_out = run_group(['bash', '-c', 'ulimit -v %d; exec "$@"' % mem_kb, 'x'] + cmd, env, timeout + 360)
    if timed_out:
        return Result(ob, UNDECIDED, time.time() - t0, detail='cbmc timeout')
    secs = time.time() - t0
    backend = ''
    answer = ''
    try:
        with open(logf) as f:
            lines = f.read().strip().split('\n')
            backend = lines[-1].split()[0] if lines and lines[-1] else ''
            answer = lines[-1].split()[1] if lines and len(lines[-1].split()) > 1 else ''
        os.remove(logf)
    except OSError:
        pass
    m = re.search(r'^\[main\.assertion\.%d\] .*: (SUCCESS|FAILURE|ERROR|UNKNOWN)\s*$' % ob.index, out, re.M)
    if not m:
        tail = out[-800:]
        if answer == 'sat' and 'parse_literal' in out:
            # the solver found a counterexample whose model contains an algebraic (irrational) number that CBMC cannot read back
            return Result(ob, REFUTED, secs, backend, 'solver answered sat; the model contains an irrational value (root-obj) that CBMC cannot print',
                          trace='solver: sat (model with algebraic number, not printable by CBMC)\n' + tail)
        return Result(ob, UNDECIDED, secs, backend, 'no verdict line: ' + tail)
    v = m.group(1)
    if v == 'SUCCESS':
        return Result(ob, PROVED, secs, backend)
    if v == 'FAILURE':
        tr = ''
        i = out.find('Trace for main.assertion.%d' % ob.index)
        if i >= 0:
            tr = out[i:]
        return Result(ob, REFUTED, secs, backend, trace=tr)
    return Result(ob, UNDECIDED, secs, backend, 'cbmc verdict %s (solver gave no definite answer within %ss)' % (v, timeout))


BATCH_KINDS = ('bounds', 'variant', 'inv_base', 'div', 'sqrt', 'int_range')
BATCH_SIZE = int(os.environ.get('STV_BATCH', '10'))
BIG_HARNESS_LINES = 3000      # symbolic execution of such a harness takes about a minute: amortise it over larger batches


def run_batch(cfile, obs, timeout, mem_kb=8 * 1024 * 1024):
    """cheap structural obligations of one harness checked in a single CBMC run; anything not SUCCESS is re-run alone"""
    env = dict(os.environ)
    env['PATH'] = PORTFOLIO + os.pathsep + env.get('PATH', '')
    env['STV_SOLVER_TIMEOUT'] = str(min(timeout, 30))
    env['STV_PORTFOLIO'] = os.environ.get('STV_PORTFOLIO_FIRST', 'z3int,z3uf,z3new,z3nl')
    cmd = ['cbmc', cfile, '--z3', '--nondet-static', '--no-standard-checks']
    for o in obs:
        cmd += ['--property', 'main.assertion.%d' % o.index]
    t0 = time.time()
    out = ''
    # one symbolic execution of the harness (up to a few minutes for the largest ones) + one solver query per obligation
    out, _ = run_group(['bash', '-c', 'ulimit -v %d; exec "$@"' % mem_kb, 'x'] + cmd, env, 240 + len(obs) * min(timeout, 30))
    secs = time.time() - t0
    res = []
    for o in obs:
        m = re.search(r'^\[main\.assertion\.%d\] .*: (SUCCESS|FAILURE|ERROR|UNKNOWN)\s*$' % o.index, out, re.M)
        if m and m.group(1) == 'SUCCESS':
            res.append(Result(o, PROVED, secs / len(obs), 'portfolio(batch: z3int|z3uf|z3new|z3nl, first definite answer)'))
        else:
            res.append(run_one(cfile, o, timeout, mem_kb))
    return res


def run_harness(h, workdir, timeout=60, jobs=16, only=None, pool=None):
    os.makedirs(workdir, exist_ok=True)
    safe = re.sub(r'[^A-Za-z0-9_.-]', '_', h.name)
    cfile = os.path.join(workdir, safe + '.c')
    with open(cfile, 'w') as f:
        f.write(h.text)
    h.cfile = cfile
    obs = [o for o in h.obligations if (only is None or only(o))]
    results = []
    own = pool is None
    if own:
        pool = concurrent.futures.ThreadPoolExecutor(max_workers=jobs)
    allk = os.environ.get('STV_BATCH_ALL', '1') == '1'
    hard = ('reach', 'local')
    singles = [o for o in obs if (o.kind not in BATCH_KINDS and not allk) or o.kind in hard]
    batchable = [o for o in obs if o not in singles]
    futs = [pool.submit(lambda o=o: [run_one(cfile, o, timeout)]) for o in singles]
    ranges = [o for o in batchable if o.kind == 'int_range']
    batchable = [o for o in batchable if o.kind != 'int_range']
    bs = BATCH_SIZE if h.text.count('\n') < BIG_HARNESS_LINES else 3 * BATCH_SIZE
    for i in range(0, len(batchable), bs):
        grp = batchable[i:i + bs]
        futs.append(pool.submit(run_batch, cfile, grp, timeout))
    for i in range(0, len(ranges), 4 * BATCH_SIZE):
        futs.append(pool.submit(run_batch, cfile, ranges[i:i + 4 * BATCH_SIZE], timeout))
    if own:
        for f in futs:
            for r in f.result():
                r.harness = h
                results.append(r)
        pool.shutdown()
        return results
    return futs


def parse_trace(trace):
    """final value of every variable mentioned in a CBMC trace: name -> string value (rationals as p/q)"""
    vals = {}
    for m in re.finditer(r'^\s*([A-Za-z_][\w\[\]]*)=([^\s(]+)', trace, re.M):
        vals[m.group(1)] = m.group(2)
    return vals
