#!/usr/bin/env python3
"""Rewrite CBMC's SMT2 (32/64-bit bit-vector ints + Real + arrays) into an Int/Real problem.

Used by portfolio members that may only answer `unsat`: the rewritten problem treats C ints as mathematical integers,
which coincides with the bit-vector semantics on every execution without signed overflow (absence of overflow in the
extracted code is discharged separately, in bit-vector semantics, by the harness's overflow obligations).  Spec-level
integer arithmetic (instantiated quantifiers, index terms) is intended to be mathematical in the first place.
Returns None (member gives up) on any operator outside the small vocabulary CBMC emits for these harnesses."""
import re
import sys

TOK = re.compile(r'\|[^|]*\||"(?:[^"]|"")*"|[()]|[^\s()]+')


def parse(text):
    text = '\n'.join(l for l in text.split('\n') if not l.lstrip().startswith(';'))
    toks = TOK.findall(text)
    pos = 0
    out = []
    stack = [out]
    for t in toks:
        if t == '(':
            new = []
            stack[-1].append(new)
            stack.append(new)
        elif t == ')':
            stack.pop()
            if not stack:
                raise ValueError('unbalanced')
        else:
            stack[-1].append(t)
    if len(stack) != 1:
        raise ValueError('unbalanced')
    return out


class GiveUp(Exception):
    pass


ARITH = {'bvadd': '+', 'bvsub': '-', 'bvmul': '*'}
CMP = {'bvslt': '<', 'bvsle': '<=', 'bvsgt': '>', 'bvsge': '>='}
WIDE = ('32', '64')


def is_bvsort(x):
    return isinstance(x, list) and len(x) == 3 and x[0] == '_' and x[1] == 'BitVec'


def conv(x):
    if isinstance(x, str):
        return x
    if is_bvsort(x):
        if x[2] in WIDE:
            return 'Int'
        return x
    if len(x) == 3 and x[0] == '_' and isinstance(x[1], str) and x[1].startswith('bv') and x[1][2:].isdigit():
        w = int(x[2])
        v = int(x[1][2:])
        if str(w) not in WIDE:
            return x
        if v >= 1 << (w - 1):
            v -= 1 << w
        return str(v) if v >= 0 else ['-', str(-v)]
    if x and isinstance(x[0], list) and len(x[0]) == 3 and x[0][0] == '_':
        op = x[0][1]
        if op == 'sign_extend':
            return conv(x[1])
        if op == 'extract':
            hi, lo = int(x[0][2 - 0]) if False else int(x[0][2]), None
            # (_ extract hi lo): only truncation to the low 32 bits of a wider int is admitted
            raise GiveUp('extract')
        if op == 'zero_extend':
            raise GiveUp('zero_extend')
        raise GiveUp(op)
    if x and isinstance(x[0], str):
        h = x[0]
        if h in ARITH:
            args = [conv(a) for a in x[1:]]
            return [ARITH[h]] + args
        if h == 'bvneg':
            return ['-', conv(x[1])]
        if h in CMP:
            return [CMP[h]] + [conv(a) for a in x[1:]]
        if h.startswith('bv') and h not in ('bvsize',):
            raise GiveUp(h)
        if h == 'get-value':
            return None
    return [conv(a) for a in x]


def fix_extract(x):
    return x


def dump(x, out):
    if isinstance(x, str):
        out.append(x)
        return
    out.append('(')
    first = True
    for a in x:
        if not first:
            out.append(' ')
        first = False
        dump(a, out)
    out.append(')')


def rewrite(text):
    try:
        forms = parse(text)
    except ValueError:
        return None
    res = []
    try:
        for f in forms:
            if isinstance(f, list) and f and f[0] == 'get-value':
                continue
            if isinstance(f, list) and f and f[0] == 'set-info':
                continue
            c = conv(f)
            if c is None:
                continue
            buf = []
            dump(c, buf)
            res.append(''.join(buf))
    except GiveUp:
        return None
    except RecursionError:
        return None
    return '\n'.join(res) + '\n'


def _is_num(x):
    if isinstance(x, str):
        return re.fullmatch(r'-?\d+(\.\d+)?', x) is not None
    if isinstance(x, list) and len(x) == 2 and x[0] == '-' and _is_num(x[1]):
        return True
    if isinstance(x, list) and len(x) == 3 and x[0] == '/' and _is_num(x[1]) and _is_num(x[2]):
        return True
    return False


def _flat_factors(x, acc):
    if isinstance(x, list) and x and x[0] == '*':
        for a in x[1:]:
            _flat_factors(a, acc)
    else:
        acc.append(x)


def _key(x):
    buf = []
    dump(x, buf)
    return ''.join(buf)


def abstract_products(x):
    """replace every product of two or more non-numeral factors by an uninterpreted function applied to the factors in a
    canonical (sorted, right-nested) order; numeral coefficients stay.  An abstraction: every model of the original formula
    is a model of the result (interpret mulR as multiplication), so `unsat` carries over.  May only answer unsat."""
    if isinstance(x, str):
        return x
    if x and x[0] == '*':
        fs = []
        _flat_factors(x, fs)
        fs = [abstract_products(f) for f in fs]
        nums = [f for f in fs if _is_num(f)]
        syms = sorted([f for f in fs if not _is_num(f)], key=_key)
        if len(syms) <= 1:
            return ['*'] + nums + syms if len(nums) + len(syms) > 1 else (nums + syms)[0]
        t = syms[-1]
        for f in reversed(syms[:-1]):
            t = ['mulR', f, t]
        return ['*'] + nums + [t] if nums else t
    return [abstract_products(a) for a in x]


def rewrite_uf(text):
    """Int reading of the machine ints + products as an uninterpreted function"""
    r = rewrite(text)
    if r is None:
        return None
    try:
        forms = parse(r)
    except ValueError:
        return None
    out = ['(declare-fun mulR (Real Real) Real)']
    try:
        for f in forms:
            buf = []
            dump(abstract_products(f), buf)
            out.append(''.join(buf))
    except RecursionError:
        return None
    return '\n'.join(out) + '\n'


if __name__ == '__main__':
    sys.setrecursionlimit(100000)
    r = rewrite(open(sys.argv[1]).read())
    if r is None:
        sys.exit(3)
    sys.stdout.write(r)
