"""Spec library: written once, from first principles.  No constant of the implementation appears here.

ff(n,k)            falling factorial n (n-1) ... (n-k+1)
der(C,nc,seg,k,t,d) k-th derivative at local time t of the polynomial sum_m C[seg*nc+m][d] t^m   (power rule)
jump(...)          right limit minus left limit of the k-th derivative at an interior knot
seg_energy(...)    integral over [0,T] of the squared s-th derivative of one coordinate (power rule on the product)
"""
from fractions import Fraction
from expr import E, REAL, INT, esum, to_real


def ff(n, k):
    r = 1
    for j in range(k):
        r *= (n - j)
    return r


def power(t, n):
    r = E.const(Fraction(1))
    for _ in range(n):
        r = r * t
    return r


def poly_der(coefs, k, t):
    """coefs: list of E (ascending powers); k-th derivative at t"""
    return esum([Fraction(ff(m, k)) * coefs[m] * power(t, m - k) for m in range(k, len(coefs))])


def der(C, nc, seg, k, t, d):
    """C: matrix value with rows seg*nc+m"""
    if k >= nc:
        return E.const(Fraction(0))
    coefs = [C.at(E.const(seg) * nc + m, d) for m in range(nc)]
    return poly_der(coefs, k, to_real(t))


def seg_energy(C, nc, seg, s, T, d):
    """integral_0^T (d^s/dt^s p)^2 dt for coordinate d of segment seg, by the power rule:
       sum_{a,b>=s} ff(a,s) ff(b,s) c_a c_b T^(a+b-2s+1)/(a+b-2s+1)"""
    terms = []
    for a in range(s, nc):
        for b in range(s, nc):
            e = a + b - 2 * s + 1
            terms.append(Fraction(ff(a, s) * ff(b, s), e) * C.at(E.const(seg) * nc + a, d) * C.at(E.const(seg) * nc + b, d) * power(T, e))
    return esum(terms)
