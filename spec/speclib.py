"""Spec library: written once, from first principles.  No constant of the implementation appears here.

ff(n,k)            falling factorial n (n-1) ... (n-k+1)
der(C,nc,seg,k,t,d) k-th derivative at local time t of the polynomial sum_m C[seg*nc+m][d] t^m   (power rule)
jump(...)          right limit minus left limit of the k-th derivative at an interior knot
seg_energy(...)    integral over [0,T] of the squared s-th derivative of one coordinate (power rule on the product)
"""
from fractions import Fraction
from expr import E, REAL, INT, esum, to_real


def ff(n, k):
    r = 1
    for j in range(k):
        r *= (n - j)
    return r


def power(t, n):
    r = E.const(Fraction(1))
    for _ in range(n):
        r = r * t
    return r


def poly_der(coefs, k, t):
    """coefs: list of E (ascending powers); k-th derivative at t"""
    return esum([Fraction(ff(m, k)) * coefs[m] * power(t, m - k) for m in range(k, len(coefs))])


def der(C, nc, seg, k, t, d):
    """C: matrix value with rows seg*nc+m"""
    if k >= nc:
        return E.const(Fraction(0))
    coefs = [C.at(E.const(seg) * nc + m, d) for m in range(nc)]
    return poly_der(coefs, k, to_real(t))


def seg_energy(C, nc, seg, s, T, d):
    """integral_0^T (d^s/dt^s p)^2 dt for coordinate d of segment seg, by the power rule:
       sum_{a,b>=s} ff(a,s) ff(b,s) c_a c_b T^(a+b-2s+1)/(a+b-2s+1)"""
    terms = []
    for a in range(s, nc):
        for b in range(s, nc):
            e = a + b - 2 * s + 1
            terms.append(Fraction(ff(a, s) * ff(b, s), e) * C.at(E.const(seg) * nc + a, d) * C.at(E.const(seg) * nc + b, d) * power(T, e))
    return esum(terms)


# ---------------------------------------------------------------------------------------------------------------------
# Hermite pieces from first principles.  For energy order s a segment has 2s coefficients fixed by the knot value and the
# knot derivatives of order < s at both ends.  In normalised time tau = t/h the coefficients a_m are rational-linear in
# the scaled data w = (h^k X0^k, h^k X1^k); the rational matrix is obtained by exact Gaussian elimination.
# ---------------------------------------------------------------------------------------------------------------------
def _solve(M, B):
    """exact solve M X = B over Fractions; M n x n, B n x p"""
    n = len(M)
    A = [list(map(Fraction, M[i])) + list(map(Fraction, B[i])) for i in range(n)]
    for c in range(n):
        piv = next(r for r in range(c, n) if A[r][c] != 0)
        A[c], A[piv] = A[piv], A[c]
        pv = A[c][c]
        A[c] = [x / pv for x in A[c]]
        for r in range(n):
            if r != c and A[r][c] != 0:
                f = A[r][c]
                A[r] = [x - f * y for x, y in zip(A[r], A[c])]
    return [row[n:] for row in A]


_HERMITE = {}


def hermite_matrix(s):
    """A[m][j]: a_m = sum_j A[m][j] w_j, w_j = h^k X0^k (j = k < s), h^k X1^k (j = s + k)"""
    if s in _HERMITE:
        return _HERMITE[s]
    nc = 2 * s
    fact = [1]
    for k in range(1, nc + 1):
        fact.append(fact[-1] * k)
    A = [[Fraction(0)] * nc for _ in range(nc)]
    for k in range(s):
        A[k][k] = Fraction(1, fact[k])
    M = [[Fraction(ff(m, k)) for m in range(s, nc)] for k in range(s)]
    B = []
    for k in range(s):
        row = [Fraction(0)] * nc
        row[s + k] = Fraction(1)
        for m in range(k, s):
            row[m] -= Fraction(ff(m, k), fact[m])
        B.append(row)
    X = _solve(M, B)
    for r, m in enumerate(range(s, nc)):
        A[m] = X[r]
    _HERMITE[s] = A
    return A


def hermite_coeffs(s, iv_pow, X0, X1):
    """coefficients c_m (m < 2s) of the Hermite piece, polynomial in h_inv:  c_m = sum_j A[m][j] * h_inv^(m-k(j)) * X_j
    iv_pow(p) -> E for h_inv^p (p >= 0);  X0[k], X1[k]: knot derivatives of order k at the left / right end (k < s)"""
    A = hermite_matrix(s)
    nc = 2 * s
    out = []
    for m in range(nc):
        terms = []
        for j in range(nc):
            if A[m][j] == 0:
                continue
            k = j if j < s else j - s
            x = X0[k] if j < s else X1[k]
            if m - k < 0:
                raise ValueError('negative power in Hermite closure')
            terms.append(A[m][j] * iv_pow(m - k) * x)
        out.append(esum(terms))
    return out


def right_end_derivative(s, k, iv_pow, X0, X1):
    """k-th derivative of the Hermite piece at its right end t = h, as a polynomial in h_inv (uses h * h_inv = 1 symbolically:
    c_m h^(m-k) = sum_j A[m][j] h_inv^(k - k(j)) X_j  -- needs k >= k(j), true for k >= s-1 ... so restricted to k >= s)"""
    A = hermite_matrix(s)
    nc = 2 * s
    terms = []
    for m in range(k, nc):
        for j in range(nc):
            if A[m][j] == 0:
                continue
            kj = j if j < s else j - s
            x = X0[kj] if j < s else X1[kj]
            terms.append(Fraction(ff(m, k)) * A[m][j] * iv_pow(k - kj) * x)
    return esum(terms)


def left_end_derivative(s, k, iv_pow, X0, X1):
    c = hermite_coeffs(s, iv_pow, X0, X1)
    f = 1
    for j in range(2, k + 1):
        f *= j
    return Fraction(f) * c[k]


# ---------------------------------------------------------------------------------------------------------------------
# Cubic piece from its end values and end second derivatives ("moments"), from first principles: p(0) = P0, p(h) = P1,
# p''(0) = M0, p''(h) = M1.  In normalised time the coefficients a_m = c_m h^m are rational-linear in (P0, P1, h^2 M0, h^2 M1).
# ---------------------------------------------------------------------------------------------------------------------
_MOMENT = []


def moment_matrix():
    if _MOMENT:
        return _MOMENT[0]
    # unknown a0..a3; rows: a0 = w0 ; a0+a1+a2+a3 = w1 ; 2 a2 = w2 ; 2 a2 + 6 a3 = w3
    M = [[1, 0, 0, 0], [1, 1, 1, 1], [0, 0, 2, 0], [0, 0, 2, 6]]
    B = [[1, 0, 0, 0], [0, 1, 0, 0], [0, 0, 1, 0], [0, 0, 0, 1]]
    A = _solve(M, B)
    _MOMENT.append(A)
    return A


def moment_coeffs(h, iv, P0, P1, M0, M1):
    """c_0..c_3 as polynomials in h and iv = 1/h:  c_m = a_m / h^m with a = A (P0, P1, h^2 M0, h^2 M1)"""
    A = moment_matrix()
    out = []
    for m in range(4):
        terms = []
        for j, x in enumerate((P0, P1, M0, M1)):
            if A[m][j] == 0:
                continue
            if j < 2:
                mono = power(iv, m)
            else:
                mono = power(h, 2 - m) if m <= 2 else power(iv, m - 2)
            terms.append(A[m][j] * mono * x)
        out.append(esum(terms))
    return out
