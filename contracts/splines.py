"""Contracts for CubicSplineND / QuinticSplineND / SepticSplineND (properties C01, C02, C04, C05, C06, C10, C13, C14)."""
from base import *
from speclib import ff, der, power, poly_der, seg_energy
from fractions import Fraction
from ppoly import same_contents_vec, same_contents_mat, _under

ORDER_OF = {'CubicSplineND': 2, 'QuinticSplineND': 3, 'SepticSplineND': 4}      # s: energy order; 2s coefficients
NMAX = 1 << 22


def nc_of_cls(name):
    return 2 * ORDER_OF[name]


def tp_field(S, i, f):
    return S.v('time_powers_').elem(i).field(f).rd()


def tp_ok(S, i, cls):
    """time_powers_[i] holds h = the segment duration > 0 and its inverse powers"""
    s = ORDER_OF[cls]
    h = tp_field(S, i, 'h')
    iv = tp_field(S, i, 'h_inv')
    out = [h.eq(S.v('time_segments_').at(i)), h > 0, (h * iv).eq(1)]
    top = {2: 3, 3: 6, 4: 7}[s]
    for p in range(2, top + 1):
        out.append(tp_field(S, i, 'h%d_inv' % p).eq(power(iv, p)))
    return out


def sizes_ok(S, cls):
    n = S.num_segments_
    return conj([n >= 1, n <= NMAX, S.v('time_segments_').size().eq(n), S.v('spatial_points_').R.eq(n + 1)])


def all_tp_ok(S, cls):
    return [S.v('time_powers_').size().eq(S.num_segments_), S.forall(0, S.num_segments_, lambda i: tp_ok(S, i, cls))]


def pd_ok(S):
    D = S.cfg['DIM']
    P = S.v('spatial_points_')
    pd = S.v('point_diffs_')
    return [pd.R.eq(S.num_segments_), S.forall(0, S.num_segments_, lambda i: [pd.at(i, d).eq(P.at(i + 1, d) - P.at(i, d)) for d in range(D)])]


# ------------------------------------------------------------------------------------------------ time bookkeeping (all three classes)
def make_time_contracts(cls):
    s = ORDER_OF[cls]

    class ConvertTimePoints(Contract):
        key = cls + '.convertTimePointsToSegments'

        def spec(self, S):
            tp = S.v('t_points')
            seg = S.v('time_segments_')
            S.requires((tp.size() >= 1) & (tp.size() <= NMAX), 'at_least_one_time_point')
            S.assigns(S.v('start_time_'), seg)
            S.ensures(S.start_time_.eq(tp.at(0)), 'start_is_first_time_point')
            S.ensures(seg.size().eq(tp.size() - 1), 'one_duration_per_interval')
            S.ensures(S.forall(0, tp.size() - 1, lambda i: seg.at(i).eq(tp.at(i + 1) - tp.at(i))), 'durations_are_differences')
            S.loop(0, inv=lambda L: [
                ('range', (L.i >= 1) & (L.i <= tp.size())),
                ('size', seg.size().eq(L.i - 1)),
                ('values', S.forall(0, L.i - 1, lambda k: seg.at(k).eq(tp.at(k + 1) - tp.at(k)))),
            ], variant=lambda L: tp.size() - L.i)

    class UpdateCumulativeTimes(Contract):
        key = cls + '.updateCumulativeTimes'

        def spec(self, S):
            n = S.num_segments_
            seg = S.v('time_segments_')
            cum = S.v('cumulative_times_')
            S.requires((n <= NMAX) & implies(n > 0, seg.size().eq(n)), 'sizes')
            S.assigns(cum)
            S.ensures(implies(n > 0, cum.size().eq(n + 1) & cum.at(0).eq(S.start_time_)), 'starts_at_start_time')
            S.ensures(S.forall(0, n, lambda i: cum.at(i + 1).eq(cum.at(i) + seg.at(i))), 'knots_are_prefix_sums')
            S.loop(0, inv=lambda L: [
                ('range', (L.i >= 0) & (L.i <= n)),
                ('size', cum.size().eq(n + 1)),
                ('first', cum.at(0).eq(S.start_time_)),
                ('values', S.forall(0, L.i, lambda k: cum.at(k + 1).eq(cum.at(k) + seg.at(k)))),
            ], variant=lambda L: n - L.i)

    class PrecomputeTimePowers(Contract):
        key = cls + '.precomputeTimePowers'

        def spec(self, S):
            seg = S.v('time_segments_')
            tpw = S.v('time_powers_')
            S.requires((seg.size() >= 0) & (seg.size() <= NMAX), 'size')
            S.requires(S.forall(0, seg.size(), lambda i: seg.at(i) > 0), 'positive_durations')
            S.assigns(tpw)
            S.ensures(tpw.size().eq(seg.size()), 'size')
            S.ensures(S.forall(0, seg.size(), lambda i: _tp_rel(S, i, cls)), 'inverse_powers')
            S.loop(0, inv=lambda L: [
                ('range', (L.i >= 0) & (L.i <= seg.size())),
                ('size', tpw.size().eq(seg.size())),
                ('values', S.forall(0, L.i, lambda k: _tp_rel(S, k, cls))),
            ], variant=lambda L: seg.size() - L.i, terms=lambda L: [L.i])

    class PrecomputePointDiffs(Contract):
        key = cls + '.precomputePointDiffs'

        def spec(self, S):
            D = S.cfg['DIM']
            n = S.num_segments_
            P = S.v('spatial_points_')
            pd = S.v('point_diffs_')
            S.requires((n >= 0) & (n <= NMAX) & P.R.eq(n + 1), 'sizes')
            S.assigns(pd)
            S.ensures(pd.R.eq(n), 'rows')
            S.ensures(S.forall(0, n, lambda i: [pd.at(i, d).eq(P.at(i + 1, d) - P.at(i, d)) for d in range(D)]), 'differences')
            S.loop(0, inv=lambda L: [
                ('range', (L.i >= 0) & (L.i <= n)),
                ('rows', pd.R.eq(n)),
                ('values', S.forall(0, L.i, lambda k: [pd.at(k, d).eq(P.at(k + 1, d) - P.at(k, d)) for d in range(D)])),
            ], variant=lambda L: n - L.i)

    for c in (ConvertTimePoints, UpdateCumulativeTimes, PrecomputeTimePowers, PrecomputePointDiffs):
        c.__name__ = cls + c.__name__
        register(c)


def _tp_rel(S, i, cls):
    s = ORDER_OF[cls]
    h = tp_field(S, i, 'h')
    iv = tp_field(S, i, 'h_inv')
    out = [h.eq(S.v('time_segments_').at(i)), (h * iv).eq(1)]
    top = {2: 3, 3: 6, 4: 7}[s]
    for p in range(2, top + 1):
        out.append(tp_field(S, i, 'h%d_inv' % p).eq(power(iv, p)))
    return out


for _c in ORDER_OF:
    make_time_contracts(_c)
