"""Contracts for CubicSplineND / QuinticSplineND / SepticSplineND (properties C01, C02, C04, C05, C06, C10, C13, C14)."""
from base import *
from ir import LV
from speclib import ff, der, power, poly_der, seg_energy
from fractions import Fraction
from ppoly import same_contents_vec, same_contents_mat, _under

ORDER_OF = {'CubicSplineND': 2, 'QuinticSplineND': 3, 'SepticSplineND': 4}      # s: energy order; 2s coefficients
NMAX = 1 << 22


def nc_of_cls(name):
    return 2 * ORDER_OF[name]


def tp_field(S, i, f):
    return S.v('time_powers_').elem(i).field(f).rd()


def tp_ok(S, i, cls):
    """time_powers_[i] holds h = the segment duration > 0 and its inverse powers"""
    s = ORDER_OF[cls]
    h = tp_field(S, i, 'h')
    iv = tp_field(S, i, 'h_inv')
    out = [h.eq(S.v('time_segments_').at(i)), h > 0, (h * iv).eq(1)]
    top = {2: 3, 3: 6, 4: 7}[s]
    for p in range(2, top + 1):
        out.append(tp_field(S, i, 'h%d_inv' % p).eq(power(iv, p)))
    return out


def sizes_ok(S, cls):
    n = S.num_segments_
    return conj([n >= 1, n <= NMAX, S.v('time_segments_').size().eq(n), S.v('spatial_points_').R.eq(n + 1)])


def all_tp_ok(S, cls):
    return [S.v('time_powers_').size().eq(S.num_segments_), S.forall(0, S.num_segments_, lambda i: tp_ok(S, i, cls))]


def pd_ok(S):
    D = S.cfg['DIM']
    P = S.v('spatial_points_')
    pd = S.v('point_diffs_')
    return [pd.R.eq(S.num_segments_), S.forall(0, S.num_segments_, lambda i: [pd.at(i, d).eq(P.at(i + 1, d) - P.at(i, d)) for d in range(D)])]


# ------------------------------------------------------------------------------------------------ time bookkeeping (all three classes)
def make_time_contracts(cls):
    s = ORDER_OF[cls]

    class ConvertTimePoints(Contract):
        key = cls + '.convertTimePointsToSegments'

        def spec(self, S):
            tp = S.v('t_points')
            seg = S.v('time_segments_')
            S.requires((tp.size() >= 1) & (tp.size() <= NMAX), 'at_least_one_time_point')
            S.assigns(S.v('start_time_'), seg)
            S.ensures(S.start_time_.eq(tp.at(0)), 'start_is_first_time_point')
            S.ensures(seg.size().eq(tp.size() - 1), 'one_duration_per_interval')
            S.ensures(S.forall(0, tp.size() - 1, lambda i: seg.at(i).eq(tp.at(i + 1) - tp.at(i))), 'durations_are_differences')
            S.loop(0, inv=lambda L: [
                ('range', (L.i >= 1) & (L.i <= tp.size())),
                ('size', seg.size().eq(L.i - 1)),
                ('values', S.forall(0, L.i - 1, lambda k: seg.at(k).eq(tp.at(k + 1) - tp.at(k)))),
            ], variant=lambda L: tp.size() - L.i)

    class UpdateCumulativeTimes(Contract):
        key = cls + '.updateCumulativeTimes'

        def spec(self, S):
            n = S.num_segments_
            seg = S.v('time_segments_')
            cum = S.v('cumulative_times_')
            S.requires((n <= NMAX) & implies(n > 0, seg.size().eq(n)), 'sizes')
            S.assigns(cum)
            S.ensures(implies(n > 0, cum.size().eq(n + 1) & cum.at(0).eq(S.start_time_)), 'starts_at_start_time')
            S.ensures(S.forall(0, n, lambda i: cum.at(i + 1).eq(cum.at(i) + seg.at(i))), 'knots_are_prefix_sums')
            S.loop(0, inv=lambda L: [
                ('range', (L.i >= 0) & (L.i <= n)),
                ('size', cum.size().eq(n + 1)),
                ('first', cum.at(0).eq(S.start_time_)),
                ('values', S.forall(0, L.i, lambda k: cum.at(k + 1).eq(cum.at(k) + seg.at(k)))),
            ], variant=lambda L: n - L.i)

    class PrecomputeTimePowers(Contract):
        key = cls + '.precomputeTimePowers'

        def spec(self, S):
            seg = S.v('time_segments_')
            tpw = S.v('time_powers_')
            S.requires((seg.size() >= 0) & (seg.size() <= NMAX), 'size')
            S.requires(S.forall(0, seg.size(), lambda i: seg.at(i) > 0), 'positive_durations')
            S.assigns(tpw)
            S.ensures(tpw.size().eq(seg.size()), 'size')
            S.ensures(S.forall(0, seg.size(), lambda i: _tp_rel(S, i, cls)), 'inverse_powers')
            S.loop(0, inv=lambda L: [
                ('range', (L.i >= 0) & (L.i <= seg.size())),
                ('size', tpw.size().eq(seg.size())),
                ('values', S.forall(0, L.i, lambda k: _tp_rel(S, k, cls))),
            ], variant=lambda L: seg.size() - L.i, terms=lambda L: [L.i])

    class PrecomputePointDiffs(Contract):
        key = cls + '.precomputePointDiffs'

        def spec(self, S):
            D = S.cfg['DIM']
            n = S.num_segments_
            P = S.v('spatial_points_')
            pd = S.v('point_diffs_')
            S.requires((n >= 0) & (n <= NMAX) & P.R.eq(n + 1), 'sizes')
            S.assigns(pd)
            S.ensures(pd.R.eq(n), 'rows')
            S.ensures(S.forall(0, n, lambda i: [pd.at(i, d).eq(P.at(i + 1, d) - P.at(i, d)) for d in range(D)]), 'differences')
            S.loop(0, inv=lambda L: [
                ('range', (L.i >= 0) & (L.i <= n)),
                ('rows', pd.R.eq(n)),
                ('values', S.forall(0, L.i, lambda k: [pd.at(k, d).eq(P.at(k + 1, d) - P.at(k, d)) for d in range(D)])),
            ], variant=lambda L: n - L.i)

    for c in (ConvertTimePoints, UpdateCumulativeTimes, PrecomputeTimePowers, PrecomputePointDiffs):
        c.__name__ = cls + c.__name__
        register(c)


def _tp_rel(S, i, cls):
    s = ORDER_OF[cls]
    h = tp_field(S, i, 'h')
    iv = tp_field(S, i, 'h_inv')
    out = [h.eq(S.v('time_segments_').at(i)), (h * iv).eq(1)]
    top = {2: 3, 3: 6, 4: 7}[s]
    for p in range(2, top + 1):
        out.append(tp_field(S, i, 'h%d_inv' % p).eq(power(iv, p)))
    return out


for _c in ORDER_OF:
    make_time_contracts(_c)


# ------------------------------------------------------------------------------------------------ cubic: tridiagonal system (C02) and its cached factors
def dims(S):
    """coordinates this harness talks about: all, or the single focused one (hypotheses about the other coordinates are
    omitted, which only weakens what is assumed; the code of every coordinate is still executed)"""
    f = S.gen.opt.get('focus')
    return [f] if f is not None else list(range(S.cfg['DIM']))


def cubic_h(S, k):
    return tp_field(S, k, 'h')


def cubic_den_mid(S, k):
    cp = S.v('cached_c_prime_')
    h = lambda j: cubic_h(S, j)
    return 2 * (h(k - 1) + h(k)) - h(k - 1) * cp.at(k - 1, 0)


def cubic_factor_mid(S, k):
    """A(k), 0 < k < n: cached_inv_denoms_[k] is the reciprocal of the pivot; c'[k] = h_k / pivot lies in (0, 1/2]"""
    cp = S.v('cached_c_prime_')
    inv = S.v('cached_inv_denoms_')
    return [(inv.at(k, 0) * cubic_den_mid(S, k)).eq(1), inv.at(k, 0) > 0,
            cp.at(k, 0).eq(cubic_h(S, k) * inv.at(k, 0)), cp.at(k, 0) > 0, 2 * cp.at(k, 0) <= 1]


def cubic_factor_first(S):
    cp = S.v('cached_c_prime_')
    inv = S.v('cached_inv_denoms_')
    h0 = cubic_h(S, 0)
    return conj([(inv.at(0, 0) * 2 * h0).eq(1), inv.at(0, 0) > 0, cp.at(0, 0).eq(h0 * inv.at(0, 0)), cp.at(0, 0) > 0, 2 * cp.at(0, 0) <= 1])


def cubic_factor_last(S, n):
    cp = S.v('cached_c_prime_')
    inv = S.v('cached_inv_denoms_')
    hl = cubic_h(S, n - 1)
    return conj([(inv.at(n, 0) * (2 * hl - hl * cp.at(n - 1, 0))).eq(1), inv.at(n, 0) > 0])


def cubic_rows(S, X, R, n, d):
    """A x = r for the clamped cubic second-derivative system: first row, interior rows (quantified), last row"""
    h = lambda j: cubic_h(S, j)
    first = (2 * h(0) * X.at(0, d) + h(0) * X.at(1, d)).eq(R.at(0, d))
    last = (h(n - 1) * X.at(n - 1, d) + 2 * h(n - 1) * X.at(n, d)).eq(R.at(n, d))
    mid = S.forall(1, n, lambda m: (h(m - 1) * X.at(m - 1, d) + 2 * (h(m - 1) + h(m)) * X.at(m, d) + h(m) * X.at(m + 1, d)).eq(R.at(m, d)))
    return first, mid, last


def h_positive(S):
    return [S.v('time_powers_').size().eq(S.num_segments_), S.forall(0, S.num_segments_, lambda i: cubic_h(S, i) > 0)]


@register
class CubicComputeLUAndSolve(Contract):
    key = 'CubicSplineND.computeLUAndSolve'

    def spec(self, S):
        n = S.num_segments_
        M = S.v('M')
        R = S.old.get('M')
        cp = S.v('cached_c_prime_')
        inv = S.v('cached_inv_denoms_')
        DS = dims(S)
        S.requires((n >= 1) & (n <= NMAX), 'at_least_one_segment')
        for p in h_positive(S):
            S.requires(p, 'positive_durations')
        S.requires(M.R.eq(n + 1), 'rhs_rows')
        S.terms(0, 1, n - 1, n, S.sk(0) - 1, S.sk(0) + 1)
        S.assigns(M, cp, inv)
        S.ensures(M.R.eq(n + 1) & cp.R.eq(n) & inv.R.eq(n + 1), 'sizes')
        S.ensures(cubic_factor_first(S), 'cached_factor_first')
        S.ensures(S.forall(1, n, lambda k: cubic_factor_mid(S, k)), 'cached_factors')
        S.ensures(cubic_factor_last(S, n), 'cached_factor_last')
        for d in DS:
            first, mid, last = cubic_rows(S, M, R, n, d)
            S.ensures(first, 'first_row_%d' % d)
            S.ensures(mid, 'interior_rows_%d' % d)
            S.ensures(last, 'last_row_%d' % d)
        # ghost: the right-hand side after the forward sweep
        Mp = dict((d, S.spec_array('Mp%d' % d)) for d in DS)
        Mpv = lambda k, d: Mp[d][0](k)
        Mcur = lambda k, d: M.at(k, d)
        h = lambda j: cubic_h(S, j)

        def fw0(Mx, d):
            return Mx(0, d).eq(R.at(0, d) * inv.at(0, 0))

        def fw(Mx, k, d):
            return Mx(k, d).eq((R.at(k, d) - h(k - 1) * Mx(k - 1, d)) * inv.at(k, 0))
        S.loop(0, inv=lambda L: [
            ('range', (L.i >= 1) & (L.i <= n)),
            ('sizes', M.R.eq(n + 1) & cp.R.eq(n) & inv.R.eq(n + 1)),
            ('factor0', cubic_factor_first(S)),
            ('factors', S.forall(1, L.i, lambda k: cubic_factor_mid(S, k))),
            ('eliminated0', conj([fw0(Mcur, d) for d in DS])),
            ('eliminated', S.forall(1, L.i, lambda k: [fw(Mcur, k, d) for d in DS])),
            ('untouched', S.forall(L.i, n + 1, lambda k: [M.at(k, d).eq(R.at(k, d)) for d in DS])),
        ], variant=lambda L: n - L.i, terms=lambda L: [L.i - 1, L.i, L.i + 1])

        def snapshot(G):
            for d in DS:
                G.copy_array(Mp[d][1], M.col(d))
        S.ghost('loop1.before', snapshot)
        S.loop(1, inv=lambda L: [
            ('range', (L.i >= -1) & (L.i <= n - 1)),
            ('sizes', M.R.eq(n + 1) & cp.R.eq(n) & inv.R.eq(n + 1)),
            ('factor0', cubic_factor_first(S)),
            ('factors', S.forall(1, n, lambda k: cubic_factor_mid(S, k))),
            ('factorn', cubic_factor_last(S, n)),
            ('forward0', conj([fw0(Mpv, d) for d in DS])),
            ('forward', S.forall(1, n + 1, lambda k: [fw(Mpv, k, d) for d in DS])),
            ('solved_last', conj([M.at(n, d).eq(Mpv(n, d)) for d in DS])),
            ('solved', S.forall(L.i + 1, n, lambda k: [M.at(k, d).eq(Mpv(k, d) - cp.at(k, 0) * M.at(k + 1, d)) for d in DS])),
            ('pending', S.forall(0, L.i + 1, lambda k: [M.at(k, d).eq(Mpv(k, d)) for d in DS])),
        ], variant=lambda L: L.i + 1, terms=lambda L: [L.i, L.i + 1, L.i + 2])


# ------------------------------------------------------------------------------------------------ cubic: coefficients (C01, C02)
def cubic_rep(S, C, i, d):
    """the closed form the code uses for segment i (kept as an exported relation for the gradient proofs)"""
    M = S.v('internal_derivatives_')
    P = S.v('spatial_points_')
    pd = S.v('point_diffs_')
    h = tp_field(S, i, 'h')
    iv = tp_field(S, i, 'h_inv')
    return [C.at(i * 4 + 0, d).eq(P.at(i, d)),
            C.at(i * 4 + 1, d).eq(pd.at(i, d) * iv - (h / 6) * (2 * M.at(i, d) + M.at(i + 1, d))),
            C.at(i * 4 + 2, d).eq(M.at(i, d) / 2),
            C.at(i * 4 + 3, d).eq((M.at(i + 1, d) - M.at(i, d)) * (iv / 6))]


def h_and_inv(S):
    return [S.v('time_powers_').size().eq(S.num_segments_),
            S.forall(0, S.num_segments_, lambda i: [tp_field(S, i, 'h') > 0, (tp_field(S, i, 'h') * tp_field(S, i, 'h_inv')).eq(1)])]


def knot_conditions(S, C, nc, s, n, d, hfun, P, bc_start, bc_end):
    """the defining equations of the minimum-energy interpolant for one coordinate:
       interpolation from both sides of every knot, boundary derivatives, continuity up to order 2s-2 at interior knots"""
    out = []
    out.append(('interpolates_left_end', S.forall(0, n, lambda i: C.at(i * nc, d).eq(P.at(i, d)))))
    out.append(('interpolates_right_end', S.forall(0, n, lambda i: der(C, nc, i, 0, hfun(i), d).eq(P.at(i + 1, d)))))
    for k in range(1, s):
        out.append(('start_derivative_%d' % k, der(C, nc, 0, k, 0, d).eq(bc_start[k - 1](d))))
        out.append(('end_derivative_%d' % k, der(C, nc, n - 1, k, hfun(n - 1), d).eq(bc_end[k - 1](d))))
    for k in range(1, 2 * s - 1):
        out.append(('continuous_derivative_%d' % k, S.forall(1, n, lambda m, k=k: der(C, nc, m, k, 0, d).eq(der(C, nc, m - 1, k, hfun(m - 1), d)))))
    return out


@register
class CubicSolveSpline(Contract):
    key = 'CubicSplineND.solveSpline'

    def spec(self, S):
        n = S.num_segments_
        DS = dims(S)
        M = S.v('internal_derivatives_')
        P = S.v('spatial_points_')
        pd = S.v('point_diffs_')
        bc = S.v('boundary_velocities_')
        C = S.v('result')
        S.requires(sizes_ok(S, 'CubicSplineND'), 'sizes')
        for p in h_and_inv(S):
            S.requires(p, 'time_powers')
        for p in pd_ok(S):
            S.requires(p, 'point_diffs')
        S.terms(0, 1, n - 1, n, S.sk(0) - 1, S.sk(0) + 1)
        S.assigns(M, S.v('cached_c_prime_'), S.v('cached_inv_denoms_'))
        S.ensures(C.R.eq(4 * n) & M.R.eq(n + 1) & S.v('cached_c_prime_').R.eq(n) & S.v('cached_inv_denoms_').R.eq(n + 1), 'rows')
        hfun = lambda i: tp_field(S, i, 'h')
        for d in DS:
            S.ensures(S.forall(0, n, lambda i, d=d: cubic_rep(S, C, i, d)), 'closed_form_%d' % d)
            for label, prop in knot_conditions(S, C, 4, 2, n, d, hfun, P,
                                               [lambda dd: bc.fields['start_velocity'].at(dd, 0)], [lambda dd: bc.fields['end_velocity'].at(dd, 0)]):
                S.ensures(prop, '%s_%d' % (label, d))
        S.ensures(cubic_factor_first(S), 'cached_factor_first')
        S.ensures(S.forall(1, n, lambda k: cubic_factor_mid(S, k)), 'cached_factors')
        S.ensures(cubic_factor_last(S, n), 'cached_factor_last')
        # loop 0: p_diff_h ; loop 1: coefficient rows
        S.loop(0, inv=lambda L: [
            ('range', (L.i >= 0) & (L.i <= n)),
            ('rows', L.p_diff_h.R.eq(n)),
            ('values', S.forall(0, L.i, lambda k: [L.p_diff_h.at(k, d).eq(pd.at(k, d) * tp_field(S, k, 'h_inv')) for d in DS])),
        ], variant=lambda L: n - L.i)
        S.loop(1, inv=lambda L: [
            ('range', (L.i >= 0) & (L.i <= n)),
            ('rows', L.coeffs.R.eq(4 * n)),
            ('values', S.forall(0, L.i, lambda k: [cubic_rep(S, L.coeffs, k, d) for d in DS])),
        ], variant=lambda L: n - L.i)


# ------------------------------------------------------------------------------------------------ energy (C04)
def make_energy_contract(cls):
    s = ORDER_OF[cls]
    nc = 2 * s

    class GetEnergy(Contract):
        key = cls + '.getEnergy'

        def spec(self, S):
            D = S.cfg['DIM']
            n = S.num_segments_
            C = S.v('coeffs_')
            if cls == 'CubicSplineND':
                Tfun = lambda i: tp_field(S, i, 'h')
                S.requires(S.v('time_powers_').size().eq(n), 'durations_size')
            else:
                Tfun = lambda i: S.v('time_segments_').at(i)
                S.requires(S.v('time_segments_').size().eq(n), 'durations_size')
            S.requires((n >= 0) & (n <= NMAX) & C.R.eq(nc * n), 'sizes')
            S.requires(S.forall(0, n, lambda i: Tfun(i) > 0), 'positive_durations')
            S.assigns()
            seg_term = lambda i: esum([seg_energy(C, nc, i, s, Tfun(i), d) for d in range(D)])
            EP = S.define_prefix_sum('EP', n, seg_term)
            S.ensures(implies(mk_not(S.is_initialized_), S.result.eq(0)), 'zero_when_uninitialised')
            S.ensures(implies(S.is_initialized_, S.result.eq(EP(n))), 'sum_of_segment_integrals')
            S.loop(0, inv=lambda L: [
                ('range', (L.i >= 0) & (L.i <= n)),
                ('partial_sum', L.total_energy.eq(EP(L.i))),
            ], variant=lambda L: n - L.i, terms=lambda L: [L.i])

    GetEnergy.__name__ = cls + 'GetEnergy'
    register(GetEnergy)


for _c in ORDER_OF:
    make_energy_contract(_c)


# ------------------------------------------------------------------------------------------------ quintic / septic: knot derivatives and Hermite closure
KNOT_FIELDS = {'QuinticSplineND': ['internal_vel_', 'internal_acc_'], 'SepticSplineND': ['internal_vel_', 'internal_acc_', 'internal_jerk_']}
BC_FIELDS = ['velocity', 'acceleration', 'jerk']
BLOCK_CACHES = ['U_blocks_cache_', 'D_inv_cache_', 'L_blocks_cache_', 'D_inv_T_mul_L_next_T_cache_', 'ws_rhs_mod_', 'ws_solution_']


def make_block_contracts(cls):
    s = ORDER_OF[cls]
    nc = 2 * s
    kf = KNOT_FIELDS[cls]
    outs = ['p_out', 'q_out', 's_out'][:s - 1]

    class SolveInternalDerivatives(Contract):
        """knot derivatives: boundary rows are the boundary states; at every interior knot the derivatives of order s..2s-2 of
        the two adjacent Hermite pieces agree (the optimality conditions), proved through the block-Thomas factorisation"""
        key = cls + '.solveInternalDerivatives'

        def spec(self, S):
            D = S.cfg['DIM']
            DS = dims(S)
            b = s - 1
            P = S.v('P')
            n_pts = P.R
            nb = n_pts - 2
            bc = S.v('boundary_')
            pdv = S.v('point_diffs_')
            Lc, Uc, Dinv, DTL = S.v('L_blocks_cache_'), S.v('U_blocks_cache_'), S.v('D_inv_cache_'), S.v('D_inv_T_mul_L_next_T_cache_')
            rhs, sol = S.v('ws_rhs_mod_'), S.v('ws_solution_')
            Xout = [S.v(o) for o in outs]
            S.requires((n_pts >= 2) & (n_pts <= NMAX + 1), 'at_least_two_points')
            S.requires(S.v('time_powers_').size().eq(n_pts - 1) & pdv.R.eq(n_pts - 1), 'sizes')
            S.requires(S.forall(0, n_pts - 1, lambda i: [pdv.at(i, d).eq(P.at(i + 1, d) - P.at(i, d)) for d in DS]), 'point_diffs')
            S.assume_nonzero_divisors_in('Inverse2x2', 'Inverse3x3')
            S.terms(0, 1, nb - 1, nb, S.sk(0) - 1, S.sk(0) + 1, S.sk(0) + 2)
            S.assigns(*(Xout + [S.v(x) for x in BLOCK_CACHES]))
            Bl = lambda d: [bc.fields['start_' + BC_FIELDS[j]].at(d, 0) for j in range(b)]
            Br = lambda d: [bc.fields['end_' + BC_FIELDS[j]].at(d, 0) for j in range(b)]
            for j, X in enumerate(Xout):
                S.ensures(X.R.eq(n_pts), 'rows_%s' % outs[j])
                S.ensures(conj([X.at(0, d).eq(Bl(d)[j]) for d in range(D)]), 'first_row_is_start_%s' % BC_FIELDS[j])
                S.ensures(conj([X.at(n_pts - 1, d).eq(Br(d)[j]) for d in range(D)]), 'last_row_is_end_%s' % BC_FIELDS[j])
            knot = lambda k, d: [X.at(k, d) for X in Xout]

            def kkt_rows(i, d):
                # -jump of the derivatives of order s..2s-2 at interior knot i+1, in the affine form  L xp + D xc + U xn - r
                BS = BlockSpec(S, cls, i, d)
                g = vsub([a + b_ + c for a, b_, c in zip(mv(BS.L, knot(i, d)), mv(BS.D, knot(i + 1, d)), mv(BS.U, knot(i + 2, d)))], BS.rhs)
                return g
            for d in DS:
                S.ensures(S.forall(0, nb, lambda i, d=d: [g.eq(0) for g in kkt_rows(i, d)], inst=[S.sk(0), S.sk(0) - 1]),
                          'optimality_conditions_at_interior_knots_%d' % d)
            # ---- cached factor relations (also what the gradient proofs use)
            Lm = lambda i: mat_of(Lc, i, b)
            Um = lambda i: mat_of(Uc, i, b)
            Dm = lambda i: mat_of(Dinv, i, b)
            rv = lambda i, d: [rhs.at(E.const(i) * b + r, d) for r in range(b)]
            sv = lambda i, d: [sol.at(E.const(i) * b + r, d) for r in range(b)]

            def fwd_facts(i, d, case=None):
                # case = (first, last) resolves the first/last-block alternatives (used by the per-case algebra lemmas)
                BS = BlockSpec(S, cls, i, d)
                i = E.const(i)
                out = []
                out += meq(Lm(i), BS.L) + meq(Um(i), BS.U)
                first = mm(BS.D, Dm(i))
                later = mm(msub(BS.D, mm(Lm(i), mm(Dm(i - 1), Um(i - 1)))), Dm(i))
                r0 = vsub(BS.rhs, mv(Lm(i), Bl(d)))
                r1 = vsub(BS.rhs, mv(Lm(i), mv(Dm(i - 1), rv(i - 1, d))))
                corr = mv(Um(i), Br(d))
                # both one-sided inverse relations of the cached pivot inverse (the adjoint solve of C05 uses the left one)
                first_l = mm(Dm(i), BS.D)
                later_l = mm(Dm(i), msub(BS.D, mm(Lm(i), mm(Dm(i - 1), Um(i - 1)))))
                if case is None:
                    out += [implies(i.eq(0), x) for x in meq(first, ident(b)) + meq(first_l, ident(b))]
                    out += [implies(i > 0, x) for x in meq(later, ident(b)) + meq(later_l, ident(b))]
                    for r in range(b):
                        base = ite(i.eq(0), r0[r], r1[r])
                        out.append(rv(i, d)[r].eq(base - ite(i.eq(nb - 1), corr[r], 0)))
                    out += [implies(i > 0, x) for x in meq(mat_of(DTL, i - 1, b), tr_(mm(Lm(i), Dm(i - 1))))]
                else:
                    f, l = case
                    out += meq(first if f else later, ident(b)) + meq(first_l if f else later_l, ident(b))
                    for r in range(b):
                        out.append(rv(i, d)[r].eq((r0[r] if f else r1[r]) - (corr[r] if l else 0)))
                return out

            def factor_facts(i):
                # the matrix part of fwd_facts: what the gradient proofs (C05) require of the cached blocks
                BS = BlockSpec(S, cls, i, DS[0])
                i = E.const(i)
                out = meq(Lm(i), BS.L) + meq(Um(i), BS.U)
                Dt = msub(BS.D, mm(Lm(i), mm(Dm(i - 1), Um(i - 1))))
                out += [implies(i.eq(0), x) for x in meq(mm(Dm(i), BS.D), ident(b))]
                out += [implies(i > 0, x) for x in meq(mm(Dm(i), Dt), ident(b))]
                out += [implies(i > 0, x) for x in meq(mat_of(DTL, i - 1, b), tr_(mm(Lm(i), Dm(i - 1))))]
                return out
            S.ensures(S.forall(0, nb, factor_facts, inst=[S.sk(0), S.sk(0) - 1]), 'cached_blocks_factorise_the_optimality_system')
            S.ensures(implies(nb > 0, Lc.R.eq(nb) & Uc.R.eq(nb) & Dinv.R.eq(nb) & DTL.R.eq(nb - 1)), 'one_cached_block_per_interior_knot')

            def bwd_fact(i, d, last=None):
                i = E.const(i)
                full = mv(Dm(i), vsub(rv(i, d), mv(Um(i), sv(i + 1, d))))
                lastv = mv(Dm(i), rv(i, d))
                if last is None:
                    return [sv(i, d)[r].eq(ite(i.eq(nb - 1), lastv[r], full[r])) for r in range(b)]
                return [sv(i, d)[r].eq(lastv[r] if last else full[r]) for r in range(b)]
            def pivot_steps(L, case):
                # calc steps inside the iteration: the local D holds the eliminated pivot D~; the cached block is its inverse
                i = L.i
                BS = BlockSpec(S, cls, i, DS[0])
                Dloc = [[L.D.at(r, c) for c in range(b)] for r in range(b)]
                Dt = BS.D if case == 'first' else msub(BS.D, mm(Lm(i), mm(Dm(i - 1), Um(i - 1))))
                out = [x.eq(y) for x, y in zip(flat(Dloc), flat(Dt))]
                out += meq(mm(Dloc, Dm(i)), ident(b)) + meq(mm(Dm(i), Dloc), ident(b))
                return out
            sizes = lambda: conj([Lc.R.eq(nb), Uc.R.eq(nb), Dinv.R.eq(nb), DTL.R.eq(nb - 1), rhs.R.eq(nb * b)] + [X.R.eq(n_pts) for X in Xout])
            boundary_rows = lambda: conj([X.at(0, d).eq(Bl(d)[j]) for j, X in enumerate(Xout) for d in range(D)] +
                                         [X.at(n_pts - 1, d).eq(Br(d)[j]) for j, X in enumerate(Xout) for d in range(D)])
            SK = [S.sk(0)]
            S.loop(0, inv=lambda L: [('range', (L.i >= 0) & (L.i <= nb)), ('sizes', sizes()),
                                     ('factorised', S.forall(0, L.i, lambda k: [x for d in DS for x in fwd_facts(k, d)], inst=SK))],
                   variant=lambda L: nb - L.i, terms=lambda L: [L.i, L.i - 1, L.i + 1],
                   local=dict(pre=lambda L: [('pd', conj([pdv.at(L.i, d).eq(P.at(L.i + 1, d) - P.at(L.i, d)) & pdv.at(L.i + 1, d).eq(P.at(L.i + 2, d) - P.at(L.i + 1, d)) for d in DS])),
                                             ('k', (L.i >= 0) & (L.i < nb) & L.n.eq(n_pts) & L.num_blocks.eq(nb)),
                                             ('boundary_blocks', conj([L.B_left.at(j, d).eq(Bl(d)[j]) & L.B_right.at(j, d).eq(Br(d)[j]) for j in range(b) for d in range(D)]))],
                              cases=[('first', lambda L: L.i.eq(0)), ('later', lambda L: L.i > 0)],
                              steps=lambda L, case: [('pivot_%d' % j, x) for j, x in enumerate(pivot_steps(L, case))],
                              post=lambda L: [('fwd_%d' % j, x) for j, x in enumerate([x for d in DS for x in fwd_facts(L.i, d)])]))
            S.loop(1, inv=lambda L: [('range', (L.i >= -1) & (L.i <= nb - 2)), ('sizes', sizes() & sol.R.eq(nb * b)),
                                     ('factorised', S.forall(0, nb, lambda k: [x for d in DS for x in fwd_facts(k, d)], inst=SK)),
                                     ('back_substituted', S.forall(L.i + 1, L.num_blocks, lambda k: [x for d in DS for x in bwd_fact(k, d)], inst=SK)), ('nb', L.num_blocks.eq(nb))],
                   variant=lambda L: L.i + 1, terms=lambda L: [L.i, L.i + 1, L.i + 2],
                   local=dict(pre=lambda L: [('k', (L.i >= 0) & (L.i < nb - 1))],
                              post=lambda L: [('bwd_%d' % j, x) for j, x in enumerate([x for d in DS for x in bwd_fact(L.i, d)])]))
            copy_ord = 3
            S.loop(copy_ord, inv=lambda L: [('range', (L.i >= 0) & (L.i <= nb)), ('sizes', sizes() & sol.R.eq(nb * b)), ('boundary_rows', boundary_rows()),
                                            ('factorised', S.forall(0, nb, lambda k: [x for d in DS for x in fwd_facts(k, d)], inst=SK)),
                                            ('back_substituted', S.forall(0, nb, lambda k: [x for d in DS for x in bwd_fact(k, d)], inst=[S.sk(0), S.sk(0) - 1])),
                                            ('copied', S.forall(0, L.i, lambda k: [Xout[j].at(k + 1, d).eq(sol.at(k * b + j, d)) for j in range(b) for d in DS], inst=[S.sk(0), S.sk(0) - 1, S.sk(0) + 1]))],
                   variant=lambda L: nb - L.i)

            # ---- final step: the certificate  G = L e4 + e3 + D~ e1 + E2 w  (a polynomial identity, proved as a pure lemma) turns the
            # factorisation facts (all residuals zero) into the optimality conditions by linear reasoning
            if S.mode == 'verify':
                def final_algebra(G):
                    k = S.sk(0)
                    inr = (k >= 0) & (k < nb)
                    for d in DS:
                        BS = BlockSpec(S, cls, k, d)
                        for f in (1, 0):
                            for l in (1, 0):
                                guard = inr & (k.eq(0) if f else k > 0) & (k.eq(nb - 1) if l else k < nb - 1)
                                facts = fwd_facts(k, d, (f, l)) + bwd_fact(k, d, l) + ([] if f else bwd_fact(k - 1, d, 0))
                                xp = Bl(d) if f else sv(k - 1, d)
                                xn = Br(d) if l else sv(k + 1, d)
                                base = (BS.L, BS.D, BS.U, list(BS.rhs), Dm(k), Dm(k - 1), Um(k - 1), rv(k, d), rv(k - 1, d), xp, sv(k, d), xn)
                                Dt, w, e1, E2, e3, e4, Gv = kkt_residuals(b, f, l, *base)
                                # ghost names for the residuals (all zero by the factorisation facts), then the certificate identity
                                zs = []
                                for nm, vals in (('z1', e1), ('Z2', flat(E2)), ('z3', e3), ('z4', e4)):
                                    for j, v in enumerate(vals):
                                        z = S.fresh_real('%s_%d%d%d_%d' % (nm, d, f, l, j))
                                        G.set(LV(z.args[0], REAL), v)
                                        zs.append(z)
                                lem = kkt_certificate(b, f, l)
                                args = flat(BS.L) + flat(BS.D) + flat(BS.U) + list(BS.rhs) + flat(Dm(k)) + flat(Dm(k - 1)) + flat(Um(k - 1)) + rv(k, d) + rv(k - 1, d) + xp + sv(k, d) + xn + zs
                                G.use(lem, *args)
                                defs = [z.eq(v) for z, v in zip(zs, e1 + flat(E2) + e3 + e4)]
                                cert = implies(lem.hyp(*args), lem.concl(*args))
                                link = [Xout[j].at(k + 1, d).eq(sol.at(k * b + j, d)) for j in range(b)]
                                link += [Xout[j].at(k, d).eq(xp[j]) for j in range(b)]
                                link += [Xout[j].at(k + 2, d).eq(xn[j]) for j in range(b)]
                                G.abstract_lemma('kkt_%d_f%d_l%d' % (d, f, l), [implies(guard, x) for x in facts + link] + defs + [cert],
                                                 [implies(guard, g.eq(0)) for g in kkt_rows(k, d)])
                S.ghost('exit', final_algebra)

    class SolveCoefficients(Contract):
        """Hermite closure: each segment matches the knot values and the knot derivatives of order < s at both ends"""
        key = cls + ('.solveQuintic' if s == 3 else '.solveSepticSpline')

        def spec(self, S):
            n = S.num_segments_
            DS = dims(S)
            P = S.v('spatial_points_')
            C = S.v('result')
            bc = S.v('boundary_')
            X = [P] + [S.v(f) for f in kf]
            S.requires(sizes_ok(S, cls), 'sizes')
            for p in all_tp_ok(S, cls):
                S.requires(p, 'time_powers')
            for p in pd_ok(S):
                S.requires(p, 'point_diffs')
            S.assume_nonzero_divisors_in('Inverse2x2', 'Inverse3x3')
            S.terms(0, n - 1, n, S.sk(0) - 1, S.sk(0) + 1)
            S.assigns(*([S.v(f) for f in kf] + [S.v(x) for x in BLOCK_CACHES]))
            S.ensures(C.R.eq(nc * n), 'rows')
            hfun = lambda i: tp_field(S, i, 'h')
            for j, f in enumerate(kf):
                S.ensures(S.v(f).R.eq(n + 1), 'knot_rows_%s' % f)
            for d in DS:
                for k in range(s):
                    S.ensures(S.forall(0, n, lambda i, k=k, d=d: der(C, nc, i, k, 0, d).eq(X[k].at(i, d))), 'left_end_derivative_%d_%d' % (k, d))
                    S.ensures(S.forall(0, n, lambda i, k=k, d=d: der(C, nc, i, k, hfun(i), d).eq(X[k].at(i + 1, d))), 'right_end_derivative_%d_%d' % (k, d))
                for k in range(1, s):
                    S.ensures(X[k].at(0, d).eq(bc.fields['start_' + BC_FIELDS[k - 1]].at(d, 0)), 'start_%s_%d' % (BC_FIELDS[k - 1], d))
                    S.ensures(X[k].at(n, d).eq(bc.fields['end_' + BC_FIELDS[k - 1]].at(d, 0)), 'end_%s_%d' % (BC_FIELDS[k - 1], d))
            def herm(Cm, i, d):
                # the segment's coefficients are the first-principles Hermite coefficients (polynomial in the inverse duration)
                hc = hermite_coeffs(s, iv_pow_of(S, i), [X[k].at(i, d) for k in range(s)], [X[k].at(E.const(i) + 1, d) for k in range(s)])
                return [Cm.at(E.const(i) * nc + m, d).eq(hc[m]) for m in range(nc)]
            S.ensures(implies(n > 1, S.v('L_blocks_cache_').R.eq(n - 1) & S.v('U_blocks_cache_').R.eq(n - 1) & S.v('D_inv_cache_').R.eq(n - 1)) &
                      implies(n > 2, S.v('D_inv_T_mul_L_next_T_cache_').R >= n - 2), 'one_cached_block_per_interior_knot')
            S.ensures(S.forall(0, n - 1, lambda k: block_factor_facts(S, cls, k, DS[0]), inst=[S.sk(0), S.sk(0) - 1]), 'cached_blocks_factorise_the_optimality_system')
            for d in DS:
                S.ensures(S.forall(0, n, lambda i, d=d: herm(C, i, d)), 'hermite_coefficients_%d' % d)
                for k in range(s, 2 * s - 1):
                    S.ensures(S.forall(1, n, lambda m, k=k, d=d: der(C, nc, m, k, 0, d).eq(der(C, nc, m - 1, k, hfun(m - 1), d))), 'continuous_derivative_%d_%d' % (k, d))
            if S.mode == 'verify':
                def high_order_continuity(G):
                    m = S.sk(0)
                    inr = (m >= 1) & (m < n)
                    KN = lambda kk, d: [X[j].at(kk, d) for j in range(1, s)]
                    for d in DS:
                        BS = BlockSpec(S, cls, m - 1, d)
                        rows = vsub([a + b_ + c for a, b_, c in zip(mv(BS.L, KN(m - 1, d)), mv(BS.D, KN(m, d)), mv(BS.U, KN(m + 1, d)))], BS.rhs)
                        hyps = [implies(inr, x) for x in herm(C, m - 1, d) + herm(C, m, d)]
                        hyps += [implies(inr, x) for x in tp_ok(S, m - 1, cls)]
                        hyps += [implies(inr, r.eq(0)) for r in rows]
                        G.abstract_lemma('high_order_continuity_%d' % d, hyps,
                                         [implies(inr, der(C, nc, m, k, 0, d).eq(der(C, nc, m - 1, k, hfun(m - 1), d))) for k in range(s, 2 * s - 1)])
                S.ghost('exit', high_order_continuity)
            S.loop(0, inv=lambda L: [
                ('range', (L.i >= 0) & (L.i <= n)),
                ('rows', L.coeffs.R.eq(nc * n)),
            ] + [('hermite_%d' % d, S.forall(0, L.i, lambda i, d=d: herm(L.coeffs, i, d))) for d in DS]
              + [('left_%d_%d' % (k, d), S.forall(0, L.i, lambda i, k=k, d=d: der(L.coeffs, nc, i, k, 0, d).eq(X[k].at(i, d)))) for k in range(s) for d in DS]
              + [('right_%d_%d' % (k, d), S.forall(0, L.i, lambda i, k=k, d=d: der(L.coeffs, nc, i, k, hfun(i), d).eq(X[k].at(i + 1, d)))) for k in range(s) for d in DS],
                variant=lambda L: n - L.i, terms=lambda L: [L.i],
                local=dict(
                    pre=lambda L: [('tp', conj(tp_ok(S, L.i, cls)))] + [('pd_%d' % d, S.v('point_diffs_').at(L.i, d).eq(P.at(L.i + 1, d) - P.at(L.i, d))) for d in DS],
                    post=lambda L: [('hermite_%d_%d' % (d, j), x) for d in DS for j, x in enumerate(herm(L.coeffs, L.i, d))]
                                 + [('left_%d_%d' % (k, d), der(L.coeffs, nc, L.i, k, 0, d).eq(X[k].at(L.i, d))) for k in range(s) for d in DS]
                                 + [('right_%d_%d' % (k, d), der(L.coeffs, nc, L.i, k, hfun(L.i), d).eq(X[k].at(L.i + 1, d))) for k in range(s) for d in DS]))



    SolveInternalDerivatives.__name__ = cls + 'SolveInternalDerivatives'
    SolveCoefficients.__name__ = cls + 'SolveCoefficients'
    register(SolveInternalDerivatives)
    register(SolveCoefficients)


for _c in KNOT_FIELDS:
    make_block_contracts(_c)


# ------------------------------------------------------------------------------------------------ assembling the spline: updateSplineInternal, update, constructors (C01)
BC_MEMBER = {'CubicSplineND': 'boundary_velocities_', 'QuinticSplineND': 'boundary_', 'SepticSplineND': 'boundary_'}
SOLVE = {'CubicSplineND': 'solveSpline', 'QuinticSplineND': 'solveQuintic', 'SepticSplineND': 'solveSepticSpline'}
TRAJ_STATE = ('breakpoints_', 'coefficients_', 'derivative_coeffs_', 'derivative_factor_table_', 'derivative_factor_table_ready_',
              'derivative_coeffs_ready_', 'num_segments_', 'num_coeffs_', 'is_initialized_')


def spline_state(S, cls):
    names = ['num_segments_', 'cumulative_times_', 'time_powers_', 'point_diffs_', 'coeffs_', 'is_initialized_', 'trajectory_']
    if cls == 'CubicSplineND':
        names += ['internal_derivatives_', 'cached_c_prime_', 'cached_inv_denoms_']
    else:
        names += KNOT_FIELDS[cls] + BLOCK_CACHES
    return [S.v(x) for x in names]


def published(S, cls):
    """what the spline publishes after (re)building: knot times, coefficients, trajectory = (knot times, coefficients)"""
    nc = nc_of_cls(cls)
    s = ORDER_OF[cls]
    D = S.cfg['DIM']
    n = S.num_segments_
    seg = S.v('time_segments_')
    cum = S.v('cumulative_times_')
    C = S.v('coeffs_')
    T = S.v('trajectory_')
    P = S.v('spatial_points_')
    bc = S.v(BC_MEMBER[cls])
    out = []
    out.append(('segment_count', n.eq(seg.size()) & S.is_initialized_))
    out.append(('one_coefficient_block_per_segment', C.R.eq(nc * n)))
    if cls == 'CubicSplineND':
        tp = S.v('time_powers_')
        out.append(('cached_durations', tp.size().eq(n)))
        out.append(('cached_durations_are_the_durations', S.forall(0, n, lambda i: tp_field(S, i, 'h').eq(seg.at(i)))))
    out.append(('knot_times_start', cum.size().eq(n + 1) & cum.at(0).eq(S.start_time_)))
    out.append(('knot_times_advance_by_durations', S.forall(0, n, lambda i: cum.at(i + 1).eq(cum.at(i) + seg.at(i)))))
    out.append(('trajectory_initialised', T.fields['is_initialized_'].rd() & T.fields['num_segments_'].rd().eq(n) & T.fields['num_coeffs_'].rd().eq(nc)))
    out.append(('trajectory_fresh_caches', mk_not(T.fields['derivative_coeffs_ready_'].rd()) & mk_not(T.fields['derivative_factor_table_ready_'].rd())))
    for j, p in enumerate(same_contents_vec(S, T.fields['breakpoints_'], cum)):
        out.append(('trajectory_breakpoints_are_knot_times_%d' % j, p))
    for j, p in enumerate(same_contents_mat(S, T.fields['coefficients_'], C, D)):
        out.append(('trajectory_coefficients_are_spline_coefficients_%d' % j, p))
    out += [('built_' + lab, p) for lab, p in built_invariant(S, cls)]
    hfun = lambda i: seg.at(i)
    for d in dims(S):
        out.append(('interpolates_left_end_%d' % d, S.forall(0, n, lambda i, d=d: C.at(i * nc, d).eq(P.at(i, d)))))
        out.append(('interpolates_right_end_%d' % d, S.forall(0, n, lambda i, d=d: der(C, nc, i, 0, hfun(i), d).eq(P.at(i + 1, d)))))
        for k in range(1, s):
            out.append(('start_%s_%d' % (BC_FIELDS[k - 1], d), der(C, nc, 0, k, 0, d).eq(bc.fields['start_' + BC_FIELDS[k - 1]].at(d, 0))))
            out.append(('end_%s_%d' % (BC_FIELDS[k - 1], d), der(C, nc, n - 1, k, hfun(n - 1), d).eq(bc.fields['end_' + BC_FIELDS[k - 1]].at(d, 0))))
        for k in range(1, 2 * s - 1):
            out.append(('continuous_derivative_%d_%d' % (k, d), S.forall(1, n, lambda m, k=k, d=d: der(C, nc, m, k, 0, d).eq(der(C, nc, m - 1, k, hfun(m - 1), d)))))
        if cls != 'CubicSplineND':
            out.append(('hermite_coefficients_%d' % d, S.forall(0, n, lambda i, d=d: hermite_form(S, cls, C, i, d))))
    return out


def hermite_form(S, cls, C, i, d):
    """the coefficients of segment i are the first-principles Hermite coefficients of its end values and end derivatives"""
    s = ORDER_OF[cls]
    nc = 2 * s
    X = [S.v('spatial_points_')] + [S.v(f) for f in KNOT_FIELDS[cls]]
    hc = hermite_coeffs(s, iv_pow_of(S, i), [X[k].at(i, d) for k in range(s)], [X[k].at(E.const(i) + 1, d) for k in range(s)])
    return [C.at(E.const(i) * nc + m, d).eq(hc[m]) for m in range(nc)]


def make_assembly_contracts(cls):
    nc = nc_of_cls(cls)
    s = ORDER_OF[cls]

    class InitializePPoly(Contract):
        key = cls + '.initializePPoly'

        def spec(self, S):
            D = S.cfg['DIM']
            n = S.num_segments_
            cum = S.v('cumulative_times_')
            C = S.v('coeffs_')
            T = S.v('trajectory_')
            S.requires((n >= 1) & (n <= NMAX) & cum.size().eq(n + 1) & C.R.eq(nc * n), 'sizes')
            S.assigns(T)
            S.ensures(T.fields['is_initialized_'].rd() & T.fields['num_segments_'].rd().eq(n) & T.fields['num_coeffs_'].rd().eq(nc), 'trajectory_initialised')
            S.ensures(mk_not(T.fields['derivative_coeffs_ready_'].rd()) & mk_not(T.fields['derivative_factor_table_ready_'].rd()), 'trajectory_fresh_caches')
            for j, p in enumerate(same_contents_vec(S, T.fields['breakpoints_'], cum)):
                S.ensures(p, 'trajectory_breakpoints_are_knot_times_%d' % j)
            for j, p in enumerate(same_contents_mat(S, T.fields['coefficients_'], C, D)):
                S.ensures(p, 'trajectory_coefficients_are_spline_coefficients_%d' % j)

    class UpdateSplineInternal(Contract):
        key = cls + '.updateSplineInternal'

        def spec(self, S):
            seg = S.v('time_segments_')
            P = S.v('spatial_points_')
            S.requires((seg.size() >= 1) & (seg.size() <= NMAX) & P.R.eq(seg.size() + 1), 'sizes')
            S.requires(S.forall(0, seg.size(), lambda i: seg.at(i) > 0), 'positive_durations')
            S.assume_nonzero_divisors_in('Inverse2x2', 'Inverse3x3')
            S.terms(0, seg.size() - 1, seg.size(), S.sk(0) - 1, S.sk(0) + 1)
            S.assigns(*spline_state(S, cls))
            for label, p in published(S, cls):
                S.ensures(p, label)

    InitializePPoly.__name__ = cls + 'InitializePPoly'
    UpdateSplineInternal.__name__ = cls + 'UpdateSplineInternal'
    register(InitializePPoly)
    register(UpdateSplineInternal)

    def inputs_stored(S, by_points):
        D = S.cfg['DIM']
        out = []
        bcm = S.v(BC_MEMBER[cls])
        bcp = S.v([k for k in S.ns if k.startswith('boundary')and not k.endswith('_')][0])
        for f in bcm.fields:
            out.append(('stores_%s' % f, conj([bcm.fields[f].at(d, 0).eq(bcp.fields[f].at(d, 0)) for d in range(D)])))
        for j, p in enumerate(same_contents_mat(S, S.v('spatial_points_'), S.v('spatial_points'), D)):
            out.append(('stores_waypoints_%d' % j, p))
        return out

    class UpdateByDurations(Contract):
        key = cls + '.update'
        nparams = 4

        def spec(self, S):
            ts = S.v('time_segments')
            P = S.v('spatial_points')
            S.requires((ts.size() >= 1) & (ts.size() <= NMAX) & P.R.eq(ts.size() + 1), 'sizes')
            S.requires(S.forall(0, ts.size(), lambda i: ts.at(i) > 0), 'positive_durations')
            S.assume_nonzero_divisors_in('Inverse2x2', 'Inverse3x3')
            S.terms(0, ts.size() - 1, ts.size(), S.sk(0) - 1, S.sk(0) + 1)
            S.assigns(S.v('time_segments_'), S.v('spatial_points_'), S.v(BC_MEMBER[cls]), S.v('start_time_'), *spline_state(S, cls))
            S.ensures(S.start_time_.eq(S.start_time), 'stores_start_time')
            for j, p in enumerate(same_contents_vec(S, S.v('time_segments_'), ts)):
                S.ensures(p, 'stores_durations_%d' % j)
            for label, p in inputs_stored(S, False):
                S.ensures(p, label)
            for label, p in published(S, cls):
                S.ensures(p, label)

    class UpdateByTimePoints(Contract):
        key = cls + '.update'
        nparams = 3

        def spec(self, S):
            tp = S.v('t_points')
            P = S.v('spatial_points')
            seg = S.v('time_segments_')
            cum = S.v('cumulative_times_')
            S.requires((tp.size() >= 2) & (tp.size() <= NMAX) & P.R.eq(tp.size()), 'sizes')
            S.requires(S.forall(0, tp.size() - 1, lambda i: tp.at(i) < tp.at(i + 1)), 'increasing_time_points')
            S.assume_nonzero_divisors_in('Inverse2x2', 'Inverse3x3')
            S.terms(0, tp.size() - 2, tp.size() - 1, S.sk(0) - 1, S.sk(0) + 1)
            S.assigns(S.v('time_segments_'), S.v('spatial_points_'), S.v(BC_MEMBER[cls]), S.v('start_time_'), *spline_state(S, cls))
            S.ensures(S.start_time_.eq(tp.at(0)), 'start_time_is_first_time_point')
            S.ensures(seg.size().eq(tp.size() - 1), 'one_duration_per_interval')
            S.ensures(S.forall(0, tp.size() - 1, lambda i: seg.at(i).eq(tp.at(i + 1) - tp.at(i))), 'durations_are_differences')
            S.ensures(S.forall(0, tp.size(), lambda k: cum.at(k).eq(tp.at(k))), 'knot_times_are_the_time_points')
            for label, p in inputs_stored(S, True):
                S.ensures(p, label)
            for label, p in published(S, cls):
                S.ensures(p, label)
            if S.mode == 'verify':
                S.ghost('exit', lambda G: G.induction(0, tp.size(), lambda k: cum.at(k).eq(tp.at(k)), 'knot_times_telescope'))

    UpdateByDurations.__name__ = cls + 'UpdateByDurations'
    UpdateByTimePoints.__name__ = cls + 'UpdateByTimePoints'
    register(UpdateByDurations)
    register(UpdateByTimePoints)


for _c in ORDER_OF:
    make_assembly_contracts(_c)


# ------------------------------------------------------------------------------------------------ energy partial gradients (C06 i)
import ad


def d_wrt_cell(expr, cell):
    """partial derivative of a spec expression with respect to one stored double (an array cell or a scalar)"""
    if cell.op == 'idx':
        seeds = {('@', cell.args[0], cell.args[1].key()): E.const(Fraction(1))}
    else:
        seeds = {cell.args[0]: E.const(Fraction(1))}
    return ad.d_expr(expr, seeds)


def make_energy_partials(cls):
    s = ORDER_OF[cls]
    nc = 2 * s

    def Tcell(S, i):
        return tp_field(S, i, 'h') if cls == 'CubicSplineND' else S.v('time_segments_').at(i)

    def seg_total(S, i):
        D = S.cfg['DIM']
        return esum([seg_energy(S.v('coeffs_'), nc, i, s, Tcell(S, i), d) for d in range(D)])

    def common_requires(S):
        n = S.num_segments_
        S.requires((n >= 0) & (n <= NMAX) & S.v('coeffs_').R.eq(nc * n), 'sizes')
        if cls == 'CubicSplineND':
            S.requires(S.v('time_powers_').size().eq(n), 'durations_size')
        else:
            S.requires(S.v('time_segments_').size().eq(n), 'durations_size')

    class PartialByCoeffs(Contract):
        """dE/dC with T held fixed: tangent of the spec energy integral in each coefficient"""
        key = cls + '.getEnergyPartialGradByCoeffs'
        nparams = 1

        def spec(self, S):
            D = S.cfg['DIM']
            n = S.num_segments_
            C = S.v('coeffs_')
            G = S.v('gdC')
            common_requires(S)
            S.assigns(G)
            S.ensures(G.R.eq(nc * n), 'rows')
            want = lambda i, m, d: d_wrt_cell(seg_total(S, i), C.at(E.const(i) * nc + m, d))
            S.ensures(S.forall(0, n, lambda i: [G.at(i * nc + m, d).eq(want(i, m, d)) for m in range(nc) for d in range(D)]), 'partial_derivative_in_each_coefficient')
            S.loop(0, inv=lambda L: [
                ('range', (L.i >= 0) & (L.i <= n)),
                ('rows', G.R.eq(nc * n)),
                ('done', S.forall(0, L.i, lambda k: [G.at(k * nc + m, d).eq(want(k, m, d)) for m in range(nc) for d in range(D)])),
                ('untouched_rows_zero', S.forall(L.i, n, lambda k: [G.at(k * nc + m, d).eq(0) for m in range(nc) for d in range(D)])),
            ], variant=lambda L: n - L.i, terms=lambda L: [L.i],
                local=dict(pre=lambda L: [('zero_%d_%d' % (m, d), G.at(L.i * nc + m, d).eq(0)) for m in range(nc) for d in range(D)],
                           post=lambda L: [('d_%d_%d' % (m, d), G.at(L.i * nc + m, d).eq(want(L.i, m, d))) for m in range(nc) for d in range(D)]))
            S.terms(*[S.sk(0) * nc + m for m in range(nc)])

    class PartialByTimes(Contract):
        """dE/dT_i with the coefficients held fixed"""
        key = cls + '.getEnergyPartialGradByTimes'
        nparams = 1

        def spec(self, S):
            n = S.num_segments_
            G = S.v('gdT')
            common_requires(S)
            S.assigns(G)
            S.ensures(G.R.eq(n), 'size')
            want = lambda i: d_wrt_cell(seg_total(S, i), Tcell(S, i))
            S.ensures(S.forall(0, n, lambda i: G.at(i, 0).eq(want(i))), 'partial_derivative_in_each_duration')
            S.loop(0, inv=lambda L: [
                ('range', (L.i >= 0) & (L.i <= n)),
                ('size', G.R.eq(n)),
                ('done', S.forall(0, L.i, lambda k: G.at(k, 0).eq(want(k)))),
            ], variant=lambda L: n - L.i, terms=lambda L: [L.i],
                local=dict(pre=lambda L: [], post=lambda L: [('dT', G.at(L.i, 0).eq(want(L.i)))]))

    PartialByCoeffs.__name__ = cls + 'PartialByCoeffs'
    PartialByTimes.__name__ = cls + 'PartialByTimes'
    register(PartialByCoeffs)
    register(PartialByTimes)


for _c in ORDER_OF:
    make_energy_partials(_c)


# ------------------------------------------------------------------------------------------------ quintic / septic: block-tridiagonal optimality system (C02)
from speclib import hermite_coeffs, right_end_derivative, left_end_derivative
from expr import subst
JUMP_ORDERS = {'QuinticSplineND': [4, 3], 'SepticSplineND': [4, 5, 6]}      # row r of the code's system is -jump of this derivative order


def iv_pow_of(S, seg):
    def f(p):
        if p == 0:
            return E.const(Fraction(1))
        return tp_field(S, seg, 'h_inv' if p == 1 else 'h%d_inv' % p)
    return f


class BlockSpec(object):
    """the optimality (KKT) conditions at interior knot i+1, for one coordinate d, as an affine map of the knot derivatives
    (xp, xc, xn) of knots i, i+1, i+2:   row_r = -jump_{k_r} = sum L[r][j] xp[j] + D[r][j] xc[j] + U[r][j] xn[j] - rhs[r]
    -- coefficients extracted from the first-principles Hermite pieces by differentiation (the map is affine)"""

    def __init__(self, S, cls, i, d):
        s = ORDER_OF[cls]
        b = s - 1
        P = S.v('spatial_points_') if S.has('spatial_points_') and not S.has('P') else S.v('P')
        xs = {}
        for nm in ('xp', 'xc', 'xn'):
            xs[nm] = [E.var('BX_%s_%d' % (nm, j), REAL) for j in range(b)]
        segL, segR = i, E.const(i) + 1
        XL0 = [P.at(i, d)] + xs['xp']
        XL1 = [P.at(E.const(i) + 1, d)] + xs['xc']
        XR0 = [P.at(E.const(i) + 1, d)] + xs['xc']
        XR1 = [P.at(E.const(i) + 2, d)] + xs['xn']
        rows = []
        for k in JUMP_ORDERS[cls]:
            jump = left_end_derivative(s, k, iv_pow_of(S, segR), XR0, XR1) - right_end_derivative(s, k, iv_pow_of(S, segL), XL0, XL1)
            rows.append(-jump)
        zero = dict((v.args[0], E.const(Fraction(0))) for nm in xs for v in xs[nm])
        self.b = b
        self.rhs = [-(subst(r, zero)) for r in rows]
        coef = lambda r, v: ad.d_expr(r, {v.args[0]: E.const(Fraction(1))})
        self.L = [[coef(rows[r], xs['xp'][j]) for j in range(b)] for r in range(b)]
        self.D = [[coef(rows[r], xs['xc'][j]) for j in range(b)] for r in range(b)]
        self.U = [[coef(rows[r], xs['xn'][j]) for j in range(b)] for r in range(b)]
        self.rows = rows
        self.xs = xs

    def jump_rows_at(self, xp, xc, xn):
        m = {}
        for nm, vals in (('xp', xp), ('xc', xc), ('xn', xn)):
            for v, val in zip(self.xs[nm], vals):
                m[v.args[0]] = E.const(val)
        return [subst(r, m) for r in self.rows]


def flat(A):
    return [x for row in A for x in row]


def unflat(xs, b):
    return [list(xs[r * b:(r + 1) * b]) for r in range(b)]


_KKT = {}


def kkt_residuals(b, first, last, L, D, U, r, Dk, Dp, Up, rk, rp, xp, xc, xn):
    """residuals of the factorisation facts and the assembled optimality rows"""
    Dt = D if first else msub(D, mm(L, mm(Dp, Up)))
    lower = mv(L, xp) if first else mv(L, mv(Dp, rp))
    corr = mv(U, xn) if last else [E.const(Fraction(0))] * b
    e3 = vsub(rk, vsub(vsub(r, lower), corr))
    w = rk if last else vsub(rk, mv(U, xn))
    e1 = vsub(xc, mv(Dk, w))
    E2 = msub(mm(Dt, Dk), ident(b))
    e4 = [E.const(Fraction(0))] * b if first else vsub(xp, mv(Dp, vsub(rp, mv(Up, xc))))
    G = vsub([x + y + z for x, y, z in zip(mv(L, xp), mv(D, xc), mv(U, xn))], r)
    return Dt, w, e1, E2, e3, e4, G


def kkt_certificate(b, first, last):
    """pure lemma (a polynomial identity once the definitions are substituted): with z1, Z2, z3, z4 naming the residuals of the
    factorisation facts (back substitution of block k, pivot inverse, eliminated right-hand side, back substitution of block k-1)
        L xp + D xc + U xn - r  ==  L z4 + z3 + D~ z1 + Z2 w"""
    key = (b, first, last)
    if key in _KKT:
        return _KKT[key]
    nbase = 3 * b * b + b + 3 * b * b + 2 * b + 3 * b
    n = nbase + b + b * b + b + b

    def split(a):
        a = list(a)
        pos = [0]

        def take(k):
            r = a[pos[0]:pos[0] + k]
            pos[0] += k
            return r
        L, D, U = unflat(take(b * b), b), unflat(take(b * b), b), unflat(take(b * b), b)
        r = take(b)
        Dk, Dp, Up = unflat(take(b * b), b), unflat(take(b * b), b), unflat(take(b * b), b)
        rk, rp = take(b), take(b)
        xp, xc, xn = take(b), take(b), take(b)
        z1, Z2, z3, z4 = take(b), unflat(take(b * b), b), take(b), take(b)
        return (L, D, U, r, Dk, Dp, Up, rk, rp, xp, xc, xn), (z1, Z2, z3, z4)

    def hyp(*a):
        base, (z1, Z2, z3, z4) = split(a)
        Dt, w, e1, E2, e3, e4, G = kkt_residuals(b, first, last, *base)
        return conj(veq(z1, e1) + meq(Z2, E2) + veq(z3, e3) + veq(z4, e4))

    def concl(*a):
        base, (z1, Z2, z3, z4) = split(a)
        L = base[0]
        Dt, w, e1, E2, e3, e4, G = kkt_residuals(b, first, last, *base)
        rhs = [x + y + z + t for x, y, z, t in zip(mv(L, z4), z3, mv(Dt, z1), mv(Z2, w))]
        return conj([g.eq(h) for g, h in zip(G, rhs)])
    lem = PureLemma('kkt_certificate_b%d_f%d_l%d' % (b, first, last), n, hyp, concl)
    _KKT[key] = lem
    return lem


def mat_of(store, idx, b):
    """b x b block stored row-major in row idx of a cache matrix"""
    return [[store.at(idx, r * b + c) for c in range(b)] for r in range(b)]


def mm(A, B):
    return [[esum([A[r][k] * B[k][c] for k in range(len(B))]) for c in range(len(B[0]))] for r in range(len(A))]


def mv(A, x):
    return [esum([A[r][k] * x[k] for k in range(len(x))]) for r in range(len(A))]


def msub(A, B):
    return [[A[r][c] - B[r][c] for c in range(len(A[0]))] for r in range(len(A))]


def vsub(a, b):
    return [x - y for x, y in zip(a, b)]


def meq(A, B):
    return [A[r][c].eq(B[r][c]) for r in range(len(A)) for c in range(len(A[0]))]


def veq(a, b):
    return [x.eq(y) for x, y in zip(a, b)]


def ident(b):
    return [[E.const(Fraction(1 if r == c else 0)) for c in range(b)] for r in range(b)]


def tr_(A):
    return [[A[c][r] for c in range(len(A))] for r in range(len(A[0]))]


def block_factor_facts(S, cls, k, d0=0):
    """what the cached blocks of the block-Thomas factorisation satisfy for block k (interior knot k+1): the stored L/U blocks are the
    spec blocks, the stored pivot inverse is a left inverse of the eliminated pivot, the stored product block is (L_k Dinv_(k-1))^T"""
    b = ORDER_OF[cls] - 1
    Lc, Uc, Dinv, DTL = S.v('L_blocks_cache_'), S.v('U_blocks_cache_'), S.v('D_inv_cache_'), S.v('D_inv_T_mul_L_next_T_cache_')
    Lm = lambda i: mat_of(Lc, i, b)
    Um = lambda i: mat_of(Uc, i, b)
    Dm = lambda i: mat_of(Dinv, i, b)
    BS = BlockSpec(S, cls, k, d0)
    k = E.const(k)
    out = meq(Lm(k), BS.L) + meq(Um(k), BS.U)
    Dt = msub(BS.D, mm(Lm(k), mm(Dm(k - 1), Um(k - 1))))
    out += [implies(k.eq(0), x) for x in meq(mm(Dm(k), BS.D), ident(b))]
    out += [implies(k > 0, x) for x in meq(mm(Dm(k), Dt), ident(b))]
    out += [implies(k > 0, x) for x in meq(mat_of(DTL, k - 1, b), tr_(mm(Lm(k), Dm(k - 1))))]
    return out


def built_invariant(S, cls):
    """representation invariant of a built spline beyond what it publishes: cached inverse powers, point differences, knot
    derivative rows, cached factorisation -- what the gradient code (C05, C06) reads"""
    n = S.num_segments_
    out = [('sizes', sizes_ok(S, cls))]
    for j, p in enumerate(all_tp_ok(S, cls)):
        out.append(('cached_time_powers_%d' % j, p))
    for j, p in enumerate(pd_ok(S)):
        out.append(('cached_point_differences_%d' % j, p))
    if cls == 'CubicSplineND':
        out.append(('knot_second_derivative_rows', S.v('internal_derivatives_').R.eq(n + 1) & S.v('cached_c_prime_').R.eq(n) & S.v('cached_inv_denoms_').R.eq(n + 1)))
        out.append(('cached_factor_first', cubic_factor_first(S)))
        out.append(('cached_factors', S.forall(1, n, lambda k: cubic_factor_mid(S, k))))
        out.append(('cached_factor_last', cubic_factor_last(S, n)))
    else:
        nb = n - 1
        out.append(('knot_derivative_rows', conj([S.v(f).R.eq(n + 1) for f in KNOT_FIELDS[cls]])))
        out.append(('one_cached_block_per_interior_knot', implies(nb > 0, S.v('L_blocks_cache_').R.eq(nb) & S.v('U_blocks_cache_').R.eq(nb) & S.v('D_inv_cache_').R.eq(nb)) &
                    implies(nb > 1, S.v('D_inv_T_mul_L_next_T_cache_').R >= nb - 1)))
        out.append(('cached_blocks_factorise_the_optimality_system', S.forall(0, nb, lambda k: block_factor_facts(S, cls, k, dims(S)[0]), inst=[S.sk(0), S.sk(0) - 1, S.sk(0) + 1, 0, nb - 1])))
    return out


# ------------------------------------------------------------------------------------------------ gradient entry points: shapes and frames
GRAD_WS = {'CubicSplineND': ['ws_lambda_'], 'QuinticSplineND': ['ws_lambda_', 'ws_gd_internal_'], 'SepticSplineND': ['ws_lambda_', 'ws_gd_internal_']}


def grads_shape(S, g, n):
    return [('one_duration_gradient_per_segment', g.fields['times'].R.eq(n)),
            ('one_point_gradient_per_inner_waypoint', g.fields['inner_points'].R.eq(ite(n > 1, n - 1, 0)))]


def make_gradient_frame_contracts(cls):
    nc = nc_of_cls(cls)

    class PropagateGradInto(Contract):
        """shape and frame of propagateGrad(gdC, gdT, grads&); what the numbers are is the subject of C05"""
        key = cls + '.propagateGrad'
        nparams = 3

        def spec(self, S):
            n = S.num_segments_
            g = S.v('grads')
            S.requires((n >= 1) & (n <= NMAX) & S.is_initialized_, 'built_spline')
            S.requires(S.v('partialGradByCoeffs').R.eq(nc * n) & S.v('partialGradByTimes').R.eq(n), 'one_upstream_row_per_coefficient_and_duration')
            S.assigns(g, *[S.v(x) for x in GRAD_WS[cls] if S.has(x)])
            for label, p in grads_shape(S, g, n):
                S.ensures(p, label)

    class EnergyGradInto(Contract):
        """shape and frame of getEnergyGrad(grads&); what the numbers are is the subject of C06"""
        key = cls + '.getEnergyGrad'
        nparams = 1

        def spec(self, S):
            n = S.num_segments_
            g = S.v('grads')
            S.requires((n >= 1) & (n <= NMAX) & S.is_initialized_, 'built_spline')
            S.assigns(g)
            for label, p in grads_shape(S, g, n):
                S.ensures(p, label)

    PropagateGradInto.__name__ = cls + 'PropagateGradInto'
    EnergyGradInto.__name__ = cls + 'EnergyGradInto'
    register(PropagateGradInto)
    register(EnergyGradInto)


for _c in ORDER_OF:
    make_gradient_frame_contracts(_c)
