"""Contracts for CubicSplineND / QuinticSplineND / SepticSplineND (properties C01, C02, C04, C05, C06, C10, C13, C14)."""
from base import *
from speclib import ff, der, power, poly_der, seg_energy
from fractions import Fraction
from ppoly import same_contents_vec, same_contents_mat, _under

ORDER_OF = {'CubicSplineND': 2, 'QuinticSplineND': 3, 'SepticSplineND': 4}      # s: energy order; 2s coefficients
NMAX = 1 << 22


def nc_of_cls(name):
    return 2 * ORDER_OF[name]


def tp_field(S, i, f):
    return S.v('time_powers_').elem(i).field(f).rd()


def tp_ok(S, i, cls):
    """time_powers_[i] holds h = the segment duration > 0 and its inverse powers"""
    s = ORDER_OF[cls]
    h = tp_field(S, i, 'h')
    iv = tp_field(S, i, 'h_inv')
    out = [h.eq(S.v('time_segments_').at(i)), h > 0, (h * iv).eq(1)]
    top = {2: 3, 3: 6, 4: 7}[s]
    for p in range(2, top + 1):
        out.append(tp_field(S, i, 'h%d_inv' % p).eq(power(iv, p)))
    return out


def sizes_ok(S, cls):
    n = S.num_segments_
    return conj([n >= 1, n <= NMAX, S.v('time_segments_').size().eq(n), S.v('spatial_points_').R.eq(n + 1)])


def all_tp_ok(S, cls):
    return [S.v('time_powers_').size().eq(S.num_segments_), S.forall(0, S.num_segments_, lambda i: tp_ok(S, i, cls))]


def pd_ok(S):
    D = S.cfg['DIM']
    P = S.v('spatial_points_')
    pd = S.v('point_diffs_')
    return [pd.R.eq(S.num_segments_), S.forall(0, S.num_segments_, lambda i: [pd.at(i, d).eq(P.at(i + 1, d) - P.at(i, d)) for d in range(D)])]


# ------------------------------------------------------------------------------------------------ time bookkeeping (all three classes)
def make_time_contracts(cls):
    s = ORDER_OF[cls]

    class ConvertTimePoints(Contract):
        key = cls + '.convertTimePointsToSegments'

        def spec(self, S):
            tp = S.v('t_points')
            seg = S.v('time_segments_')
            S.requires((tp.size() >= 1) & (tp.size() <= NMAX), 'at_least_one_time_point')
            S.assigns(S.v('start_time_'), seg)
            S.ensures(S.start_time_.eq(tp.at(0)), 'start_is_first_time_point')
            S.ensures(seg.size().eq(tp.size() - 1), 'one_duration_per_interval')
            S.ensures(S.forall(0, tp.size() - 1, lambda i: seg.at(i).eq(tp.at(i + 1) - tp.at(i))), 'durations_are_differences')
            S.loop(0, inv=lambda L: [
                ('range', (L.i >= 1) & (L.i <= tp.size())),
                ('size', seg.size().eq(L.i - 1)),
                ('values', S.forall(0, L.i - 1, lambda k: seg.at(k).eq(tp.at(k + 1) - tp.at(k)))),
            ], variant=lambda L: tp.size() - L.i)

    class UpdateCumulativeTimes(Contract):
        key = cls + '.updateCumulativeTimes'

        def spec(self, S):
            n = S.num_segments_
            seg = S.v('time_segments_')
            cum = S.v('cumulative_times_')
            S.requires((n <= NMAX) & implies(n > 0, seg.size().eq(n)), 'sizes')
            S.assigns(cum)
            S.ensures(implies(n > 0, cum.size().eq(n + 1) & cum.at(0).eq(S.start_time_)), 'starts_at_start_time')
            S.ensures(S.forall(0, n, lambda i: cum.at(i + 1).eq(cum.at(i) + seg.at(i))), 'knots_are_prefix_sums')
            S.loop(0, inv=lambda L: [
                ('range', (L.i >= 0) & (L.i <= n)),
                ('size', cum.size().eq(n + 1)),
                ('first', cum.at(0).eq(S.start_time_)),
                ('values', S.forall(0, L.i, lambda k: cum.at(k + 1).eq(cum.at(k) + seg.at(k)))),
            ], variant=lambda L: n - L.i)

    class PrecomputeTimePowers(Contract):
        key = cls + '.precomputeTimePowers'

        def spec(self, S):
            seg = S.v('time_segments_')
            tpw = S.v('time_powers_')
            S.requires((seg.size() >= 0) & (seg.size() <= NMAX), 'size')
            S.requires(S.forall(0, seg.size(), lambda i: seg.at(i) > 0), 'positive_durations')
            S.assigns(tpw)
            S.ensures(tpw.size().eq(seg.size()), 'size')
            S.ensures(S.forall(0, seg.size(), lambda i: _tp_rel(S, i, cls)), 'inverse_powers')
            S.loop(0, inv=lambda L: [
                ('range', (L.i >= 0) & (L.i <= seg.size())),
                ('size', tpw.size().eq(seg.size())),
                ('values', S.forall(0, L.i, lambda k: _tp_rel(S, k, cls))),
            ], variant=lambda L: seg.size() - L.i, terms=lambda L: [L.i])

    class PrecomputePointDiffs(Contract):
        key = cls + '.precomputePointDiffs'

        def spec(self, S):
            D = S.cfg['DIM']
            n = S.num_segments_
            P = S.v('spatial_points_')
            pd = S.v('point_diffs_')
            S.requires((n >= 0) & (n <= NMAX) & P.R.eq(n + 1), 'sizes')
            S.assigns(pd)
            S.ensures(pd.R.eq(n), 'rows')
            S.ensures(S.forall(0, n, lambda i: [pd.at(i, d).eq(P.at(i + 1, d) - P.at(i, d)) for d in range(D)]), 'differences')
            S.loop(0, inv=lambda L: [
                ('range', (L.i >= 0) & (L.i <= n)),
                ('rows', pd.R.eq(n)),
                ('values', S.forall(0, L.i, lambda k: [pd.at(k, d).eq(P.at(k + 1, d) - P.at(k, d)) for d in range(D)])),
            ], variant=lambda L: n - L.i)

    for c in (ConvertTimePoints, UpdateCumulativeTimes, PrecomputeTimePowers, PrecomputePointDiffs):
        c.__name__ = cls + c.__name__
        register(c)


def _tp_rel(S, i, cls):
    s = ORDER_OF[cls]
    h = tp_field(S, i, 'h')
    iv = tp_field(S, i, 'h_inv')
    out = [h.eq(S.v('time_segments_').at(i)), (h * iv).eq(1)]
    top = {2: 3, 3: 6, 4: 7}[s]
    for p in range(2, top + 1):
        out.append(tp_field(S, i, 'h%d_inv' % p).eq(power(iv, p)))
    return out


for _c in ORDER_OF:
    make_time_contracts(_c)


# ------------------------------------------------------------------------------------------------ cubic: tridiagonal system (C02) and its cached factors
def dims(S):
    """coordinates this harness talks about: all, or the single focused one (hypotheses about the other coordinates are
    omitted, which only weakens what is assumed; the code of every coordinate is still executed)"""
    f = S.gen.opt.get('focus')
    return [f] if f is not None else list(range(S.cfg['DIM']))


def cubic_h(S, k):
    return tp_field(S, k, 'h')


def cubic_den_mid(S, k):
    cp = S.v('cached_c_prime_')
    h = lambda j: cubic_h(S, j)
    return 2 * (h(k - 1) + h(k)) - h(k - 1) * cp.at(k - 1, 0)


def cubic_factor_mid(S, k):
    """A(k), 0 < k < n: cached_inv_denoms_[k] is the reciprocal of the pivot; c'[k] = h_k / pivot lies in (0, 1/2]"""
    cp = S.v('cached_c_prime_')
    inv = S.v('cached_inv_denoms_')
    return [(inv.at(k, 0) * cubic_den_mid(S, k)).eq(1), inv.at(k, 0) > 0,
            cp.at(k, 0).eq(cubic_h(S, k) * inv.at(k, 0)), cp.at(k, 0) > 0, 2 * cp.at(k, 0) <= 1]


def cubic_factor_first(S):
    cp = S.v('cached_c_prime_')
    inv = S.v('cached_inv_denoms_')
    h0 = cubic_h(S, 0)
    return conj([(inv.at(0, 0) * 2 * h0).eq(1), inv.at(0, 0) > 0, cp.at(0, 0).eq(h0 * inv.at(0, 0)), cp.at(0, 0) > 0, 2 * cp.at(0, 0) <= 1])


def cubic_factor_last(S, n):
    cp = S.v('cached_c_prime_')
    inv = S.v('cached_inv_denoms_')
    hl = cubic_h(S, n - 1)
    return conj([(inv.at(n, 0) * (2 * hl - hl * cp.at(n - 1, 0))).eq(1), inv.at(n, 0) > 0])


def cubic_rows(S, X, R, n, d):
    """A x = r for the clamped cubic second-derivative system: first row, interior rows (quantified), last row"""
    h = lambda j: cubic_h(S, j)
    first = (2 * h(0) * X.at(0, d) + h(0) * X.at(1, d)).eq(R.at(0, d))
    last = (h(n - 1) * X.at(n - 1, d) + 2 * h(n - 1) * X.at(n, d)).eq(R.at(n, d))
    mid = S.forall(1, n, lambda m: (h(m - 1) * X.at(m - 1, d) + 2 * (h(m - 1) + h(m)) * X.at(m, d) + h(m) * X.at(m + 1, d)).eq(R.at(m, d)))
    return first, mid, last


def h_positive(S):
    return [S.v('time_powers_').size().eq(S.num_segments_), S.forall(0, S.num_segments_, lambda i: cubic_h(S, i) > 0)]


@register
class CubicComputeLUAndSolve(Contract):
    key = 'CubicSplineND.computeLUAndSolve'

    def spec(self, S):
        n = S.num_segments_
        M = S.v('M')
        R = S.old.get('M')
        cp = S.v('cached_c_prime_')
        inv = S.v('cached_inv_denoms_')
        DS = dims(S)
        S.requires((n >= 1) & (n <= NMAX), 'at_least_one_segment')
        for p in h_positive(S):
            S.requires(p, 'positive_durations')
        S.requires(M.R.eq(n + 1), 'rhs_rows')
        S.terms(0, 1, n - 1, n, S.sk(0) - 1, S.sk(0) + 1)
        S.assigns(M, cp, inv)
        S.ensures(M.R.eq(n + 1) & cp.R.eq(n) & inv.R.eq(n + 1), 'sizes')
        S.ensures(cubic_factor_first(S), 'cached_factor_first')
        S.ensures(S.forall(1, n, lambda k: cubic_factor_mid(S, k)), 'cached_factors')
        S.ensures(cubic_factor_last(S, n), 'cached_factor_last')
        for d in DS:
            first, mid, last = cubic_rows(S, M, R, n, d)
            S.ensures(first, 'first_row_%d' % d)
            S.ensures(mid, 'interior_rows_%d' % d)
            S.ensures(last, 'last_row_%d' % d)
        # ghost: the right-hand side after the forward sweep
        Mp = dict((d, S.spec_array('Mp%d' % d)) for d in DS)
        Mpv = lambda k, d: Mp[d][0](k)
        Mcur = lambda k, d: M.at(k, d)
        h = lambda j: cubic_h(S, j)

        def fw0(Mx, d):
            return Mx(0, d).eq(R.at(0, d) * inv.at(0, 0))

        def fw(Mx, k, d):
            return Mx(k, d).eq((R.at(k, d) - h(k - 1) * Mx(k - 1, d)) * inv.at(k, 0))
        S.loop(0, inv=lambda L: [
            ('range', (L.i >= 1) & (L.i <= n)),
            ('sizes', M.R.eq(n + 1) & cp.R.eq(n) & inv.R.eq(n + 1)),
            ('factor0', cubic_factor_first(S)),
            ('factors', S.forall(1, L.i, lambda k: cubic_factor_mid(S, k))),
            ('eliminated0', conj([fw0(Mcur, d) for d in DS])),
            ('eliminated', S.forall(1, L.i, lambda k: [fw(Mcur, k, d) for d in DS])),
            ('untouched', S.forall(L.i, n + 1, lambda k: [M.at(k, d).eq(R.at(k, d)) for d in DS])),
        ], variant=lambda L: n - L.i, terms=lambda L: [L.i - 1, L.i, L.i + 1])

        def snapshot(G):
            for d in DS:
                G.copy_array(Mp[d][1], M.col(d))
        S.ghost('loop1.before', snapshot)
        S.loop(1, inv=lambda L: [
            ('range', (L.i >= -1) & (L.i <= n - 1)),
            ('sizes', M.R.eq(n + 1) & cp.R.eq(n) & inv.R.eq(n + 1)),
            ('factor0', cubic_factor_first(S)),
            ('factors', S.forall(1, n, lambda k: cubic_factor_mid(S, k))),
            ('factorn', cubic_factor_last(S, n)),
            ('forward0', conj([fw0(Mpv, d) for d in DS])),
            ('forward', S.forall(1, n + 1, lambda k: [fw(Mpv, k, d) for d in DS])),
            ('solved_last', conj([M.at(n, d).eq(Mpv(n, d)) for d in DS])),
            ('solved', S.forall(L.i + 1, n, lambda k: [M.at(k, d).eq(Mpv(k, d) - cp.at(k, 0) * M.at(k + 1, d)) for d in DS])),
            ('pending', S.forall(0, L.i + 1, lambda k: [M.at(k, d).eq(Mpv(k, d)) for d in DS])),
        ], variant=lambda L: L.i + 1, terms=lambda L: [L.i, L.i + 1, L.i + 2])
