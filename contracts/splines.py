"""Contracts for CubicSplineND / QuinticSplineND / SepticSplineND (properties C01, C02, C04, C05, C06, C10, C13, C14)."""
from base import *
from speclib import ff, der, power, poly_der, seg_energy
from fractions import Fraction
from ppoly import same_contents_vec, same_contents_mat, _under

ORDER_OF = {'CubicSplineND': 2, 'QuinticSplineND': 3, 'SepticSplineND': 4}      # s: energy order; 2s coefficients
NMAX = 1 << 22


def nc_of_cls(name):
    return 2 * ORDER_OF[name]


def tp_field(S, i, f):
    return S.v('time_powers_').elem(i).field(f).rd()


def tp_ok(S, i, cls):
    """time_powers_[i] holds h = the segment duration > 0 and its inverse powers"""
    s = ORDER_OF[cls]
    h = tp_field(S, i, 'h')
    iv = tp_field(S, i, 'h_inv')
    out = [h.eq(S.v('time_segments_').at(i)), h > 0, (h * iv).eq(1)]
    top = {2: 3, 3: 6, 4: 7}[s]
    for p in range(2, top + 1):
        out.append(tp_field(S, i, 'h%d_inv' % p).eq(power(iv, p)))
    return out


def sizes_ok(S, cls):
    n = S.num_segments_
    return conj([n >= 1, n <= NMAX, S.v('time_segments_').size().eq(n), S.v('spatial_points_').R.eq(n + 1)])


def all_tp_ok(S, cls):
    return [S.v('time_powers_').size().eq(S.num_segments_), S.forall(0, S.num_segments_, lambda i: tp_ok(S, i, cls))]


def pd_ok(S):
    D = S.cfg['DIM']
    P = S.v('spatial_points_')
    pd = S.v('point_diffs_')
    return [pd.R.eq(S.num_segments_), S.forall(0, S.num_segments_, lambda i: [pd.at(i, d).eq(P.at(i + 1, d) - P.at(i, d)) for d in range(D)])]


# ------------------------------------------------------------------------------------------------ time bookkeeping (all three classes)
def make_time_contracts(cls):
    s = ORDER_OF[cls]

    class ConvertTimePoints(Contract):
        key = cls + '.convertTimePointsToSegments'

        def spec(self, S):
            tp = S.v('t_points')
            seg = S.v('time_segments_')
            S.requires((tp.size() >= 1) & (tp.size() <= NMAX), 'at_least_one_time_point')
            S.assigns(S.v('start_time_'), seg)
            S.ensures(S.start_time_.eq(tp.at(0)), 'start_is_first_time_point')
            S.ensures(seg.size().eq(tp.size() - 1), 'one_duration_per_interval')
            S.ensures(S.forall(0, tp.size() - 1, lambda i: seg.at(i).eq(tp.at(i + 1) - tp.at(i))), 'durations_are_differences')
            S.loop(0, inv=lambda L: [
                ('range', (L.i >= 1) & (L.i <= tp.size())),
                ('size', seg.size().eq(L.i - 1)),
                ('values', S.forall(0, L.i - 1, lambda k: seg.at(k).eq(tp.at(k + 1) - tp.at(k)))),
            ], variant=lambda L: tp.size() - L.i)

    class UpdateCumulativeTimes(Contract):
        key = cls + '.updateCumulativeTimes'

        def spec(self, S):
            n = S.num_segments_
            seg = S.v('time_segments_')
            cum = S.v('cumulative_times_')
            S.requires((n <= NMAX) & implies(n > 0, seg.size().eq(n)), 'sizes')
            S.assigns(cum)
            S.ensures(implies(n > 0, cum.size().eq(n + 1) & cum.at(0).eq(S.start_time_)), 'starts_at_start_time')
            S.ensures(S.forall(0, n, lambda i: cum.at(i + 1).eq(cum.at(i) + seg.at(i))), 'knots_are_prefix_sums')
            S.loop(0, inv=lambda L: [
                ('range', (L.i >= 0) & (L.i <= n)),
                ('size', cum.size().eq(n + 1)),
                ('first', cum.at(0).eq(S.start_time_)),
                ('values', S.forall(0, L.i, lambda k: cum.at(k + 1).eq(cum.at(k) + seg.at(k)))),
            ], variant=lambda L: n - L.i)

    class PrecomputeTimePowers(Contract):
        key = cls + '.precomputeTimePowers'

        def spec(self, S):
            seg = S.v('time_segments_')
            tpw = S.v('time_powers_')
            S.requires((seg.size() >= 0) & (seg.size() <= NMAX), 'size')
            S.requires(S.forall(0, seg.size(), lambda i: seg.at(i) > 0), 'positive_durations')
            S.assigns(tpw)
            S.ensures(tpw.size().eq(seg.size()), 'size')
            S.ensures(S.forall(0, seg.size(), lambda i: _tp_rel(S, i, cls)), 'inverse_powers')
            S.loop(0, inv=lambda L: [
                ('range', (L.i >= 0) & (L.i <= seg.size())),
                ('size', tpw.size().eq(seg.size())),
                ('values', S.forall(0, L.i, lambda k: _tp_rel(S, k, cls))),
            ], variant=lambda L: seg.size() - L.i, terms=lambda L: [L.i])

    class PrecomputePointDiffs(Contract):
        key = cls + '.precomputePointDiffs'

        def spec(self, S):
            D = S.cfg['DIM']
            n = S.num_segments_
            P = S.v('spatial_points_')
            pd = S.v('point_diffs_')
            S.requires((n >= 0) & (n <= NMAX) & P.R.eq(n + 1), 'sizes')
            S.assigns(pd)
            S.ensures(pd.R.eq(n), 'rows')
            S.ensures(S.forall(0, n, lambda i: [pd.at(i, d).eq(P.at(i + 1, d) - P.at(i, d)) for d in range(D)]), 'differences')
            S.loop(0, inv=lambda L: [
                ('range', (L.i >= 0) & (L.i <= n)),
                ('rows', pd.R.eq(n)),
                ('values', S.forall(0, L.i, lambda k: [pd.at(k, d).eq(P.at(k + 1, d) - P.at(k, d)) for d in range(D)])),
            ], variant=lambda L: n - L.i)

    for c in (ConvertTimePoints, UpdateCumulativeTimes, PrecomputeTimePowers, PrecomputePointDiffs):
        c.__name__ = cls + c.__name__
        register(c)


def _tp_rel(S, i, cls):
    s = ORDER_OF[cls]
    h = tp_field(S, i, 'h')
    iv = tp_field(S, i, 'h_inv')
    out = [h.eq(S.v('time_segments_').at(i)), (h * iv).eq(1)]
    top = {2: 3, 3: 6, 4: 7}[s]
    for p in range(2, top + 1):
        out.append(tp_field(S, i, 'h%d_inv' % p).eq(power(iv, p)))
    return out


for _c in ORDER_OF:
    make_time_contracts(_c)


# ------------------------------------------------------------------------------------------------ cubic: tridiagonal system (C02) and its cached factors
def dims(S):
    """coordinates this harness talks about: all, or the single focused one (hypotheses about the other coordinates are
    omitted, which only weakens what is assumed; the code of every coordinate is still executed)"""
    f = S.gen.opt.get('focus')
    return [f] if f is not None else list(range(S.cfg['DIM']))


def cubic_h(S, k):
    return tp_field(S, k, 'h')


def cubic_den_mid(S, k):
    cp = S.v('cached_c_prime_')
    h = lambda j: cubic_h(S, j)
    return 2 * (h(k - 1) + h(k)) - h(k - 1) * cp.at(k - 1, 0)


def cubic_factor_mid(S, k):
    """A(k), 0 < k < n: cached_inv_denoms_[k] is the reciprocal of the pivot; c'[k] = h_k / pivot lies in (0, 1/2]"""
    cp = S.v('cached_c_prime_')
    inv = S.v('cached_inv_denoms_')
    return [(inv.at(k, 0) * cubic_den_mid(S, k)).eq(1), inv.at(k, 0) > 0,
            cp.at(k, 0).eq(cubic_h(S, k) * inv.at(k, 0)), cp.at(k, 0) > 0, 2 * cp.at(k, 0) <= 1]


def cubic_factor_first(S):
    cp = S.v('cached_c_prime_')
    inv = S.v('cached_inv_denoms_')
    h0 = cubic_h(S, 0)
    return conj([(inv.at(0, 0) * 2 * h0).eq(1), inv.at(0, 0) > 0, cp.at(0, 0).eq(h0 * inv.at(0, 0)), cp.at(0, 0) > 0, 2 * cp.at(0, 0) <= 1])


def cubic_factor_last(S, n):
    cp = S.v('cached_c_prime_')
    inv = S.v('cached_inv_denoms_')
    hl = cubic_h(S, n - 1)
    return conj([(inv.at(n, 0) * (2 * hl - hl * cp.at(n - 1, 0))).eq(1), inv.at(n, 0) > 0])


def cubic_rows(S, X, R, n, d):
    """A x = r for the clamped cubic second-derivative system: first row, interior rows (quantified), last row"""
    h = lambda j: cubic_h(S, j)
    first = (2 * h(0) * X.at(0, d) + h(0) * X.at(1, d)).eq(R.at(0, d))
    last = (h(n - 1) * X.at(n - 1, d) + 2 * h(n - 1) * X.at(n, d)).eq(R.at(n, d))
    mid = S.forall(1, n, lambda m: (h(m - 1) * X.at(m - 1, d) + 2 * (h(m - 1) + h(m)) * X.at(m, d) + h(m) * X.at(m + 1, d)).eq(R.at(m, d)))
    return first, mid, last


def h_positive(S):
    return [S.v('time_powers_').size().eq(S.num_segments_), S.forall(0, S.num_segments_, lambda i: cubic_h(S, i) > 0)]


@register
class CubicComputeLUAndSolve(Contract):
    key = 'CubicSplineND.computeLUAndSolve'

    def spec(self, S):
        n = S.num_segments_
        M = S.v('M')
        R = S.old.get('M')
        cp = S.v('cached_c_prime_')
        inv = S.v('cached_inv_denoms_')
        DS = dims(S)
        S.requires((n >= 1) & (n <= NMAX), 'at_least_one_segment')
        for p in h_positive(S):
            S.requires(p, 'positive_durations')
        S.requires(M.R.eq(n + 1), 'rhs_rows')
        S.terms(0, 1, n - 1, n, S.sk(0) - 1, S.sk(0) + 1)
        S.assigns(M, cp, inv)
        S.ensures(M.R.eq(n + 1) & cp.R.eq(n) & inv.R.eq(n + 1), 'sizes')
        S.ensures(cubic_factor_first(S), 'cached_factor_first')
        S.ensures(S.forall(1, n, lambda k: cubic_factor_mid(S, k)), 'cached_factors')
        S.ensures(cubic_factor_last(S, n), 'cached_factor_last')
        for d in DS:
            first, mid, last = cubic_rows(S, M, R, n, d)
            S.ensures(first, 'first_row_%d' % d)
            S.ensures(mid, 'interior_rows_%d' % d)
            S.ensures(last, 'last_row_%d' % d)
        # ghost: the right-hand side after the forward sweep
        Mp = dict((d, S.spec_array('Mp%d' % d)) for d in DS)
        Mpv = lambda k, d: Mp[d][0](k)
        Mcur = lambda k, d: M.at(k, d)
        h = lambda j: cubic_h(S, j)

        def fw0(Mx, d):
            return Mx(0, d).eq(R.at(0, d) * inv.at(0, 0))

        def fw(Mx, k, d):
            return Mx(k, d).eq((R.at(k, d) - h(k - 1) * Mx(k - 1, d)) * inv.at(k, 0))
        S.loop(0, inv=lambda L: [
            ('range', (L.i >= 1) & (L.i <= n)),
            ('sizes', M.R.eq(n + 1) & cp.R.eq(n) & inv.R.eq(n + 1)),
            ('factor0', cubic_factor_first(S)),
            ('factors', S.forall(1, L.i, lambda k: cubic_factor_mid(S, k))),
            ('eliminated0', conj([fw0(Mcur, d) for d in DS])),
            ('eliminated', S.forall(1, L.i, lambda k: [fw(Mcur, k, d) for d in DS])),
            ('untouched', S.forall(L.i, n + 1, lambda k: [M.at(k, d).eq(R.at(k, d)) for d in DS])),
        ], variant=lambda L: n - L.i, terms=lambda L: [L.i - 1, L.i, L.i + 1])

        def snapshot(G):
            for d in DS:
                G.copy_array(Mp[d][1], M.col(d))
        S.ghost('loop1.before', snapshot)
        S.loop(1, inv=lambda L: [
            ('range', (L.i >= -1) & (L.i <= n - 1)),
            ('sizes', M.R.eq(n + 1) & cp.R.eq(n) & inv.R.eq(n + 1)),
            ('factor0', cubic_factor_first(S)),
            ('factors', S.forall(1, n, lambda k: cubic_factor_mid(S, k))),
            ('factorn', cubic_factor_last(S, n)),
            ('forward0', conj([fw0(Mpv, d) for d in DS])),
            ('forward', S.forall(1, n + 1, lambda k: [fw(Mpv, k, d) for d in DS])),
            ('solved_last', conj([M.at(n, d).eq(Mpv(n, d)) for d in DS])),
            ('solved', S.forall(L.i + 1, n, lambda k: [M.at(k, d).eq(Mpv(k, d) - cp.at(k, 0) * M.at(k + 1, d)) for d in DS])),
            ('pending', S.forall(0, L.i + 1, lambda k: [M.at(k, d).eq(Mpv(k, d)) for d in DS])),
        ], variant=lambda L: L.i + 1, terms=lambda L: [L.i, L.i + 1, L.i + 2])


# ------------------------------------------------------------------------------------------------ cubic: coefficients (C01, C02)
def cubic_rep(S, C, i, d):
    """the closed form the code uses for segment i (kept as an exported relation for the gradient proofs)"""
    M = S.v('internal_derivatives_')
    P = S.v('spatial_points_')
    pd = S.v('point_diffs_')
    h = tp_field(S, i, 'h')
    iv = tp_field(S, i, 'h_inv')
    return [C.at(i * 4 + 0, d).eq(P.at(i, d)),
            C.at(i * 4 + 1, d).eq(pd.at(i, d) * iv - (h / 6) * (2 * M.at(i, d) + M.at(i + 1, d))),
            C.at(i * 4 + 2, d).eq(M.at(i, d) / 2),
            C.at(i * 4 + 3, d).eq((M.at(i + 1, d) - M.at(i, d)) * (iv / 6))]


def h_and_inv(S):
    return [S.v('time_powers_').size().eq(S.num_segments_),
            S.forall(0, S.num_segments_, lambda i: [tp_field(S, i, 'h') > 0, (tp_field(S, i, 'h') * tp_field(S, i, 'h_inv')).eq(1)])]


def knot_conditions(S, C, nc, s, n, d, hfun, P, bc_start, bc_end):
    """the defining equations of the minimum-energy interpolant for one coordinate:
       interpolation from both sides of every knot, boundary derivatives, continuity up to order 2s-2 at interior knots"""
    out = []
    out.append(('interpolates_left_end', S.forall(0, n, lambda i: C.at(i * nc, d).eq(P.at(i, d)))))
    out.append(('interpolates_right_end', S.forall(0, n, lambda i: der(C, nc, i, 0, hfun(i), d).eq(P.at(i + 1, d)))))
    for k in range(1, s):
        out.append(('start_derivative_%d' % k, der(C, nc, 0, k, 0, d).eq(bc_start[k - 1](d))))
        out.append(('end_derivative_%d' % k, der(C, nc, n - 1, k, hfun(n - 1), d).eq(bc_end[k - 1](d))))
    for k in range(1, 2 * s - 1):
        out.append(('continuous_derivative_%d' % k, S.forall(1, n, lambda m, k=k: der(C, nc, m, k, 0, d).eq(der(C, nc, m - 1, k, hfun(m - 1), d)))))
    return out


@register
class CubicSolveSpline(Contract):
    key = 'CubicSplineND.solveSpline'

    def spec(self, S):
        n = S.num_segments_
        DS = dims(S)
        M = S.v('internal_derivatives_')
        P = S.v('spatial_points_')
        pd = S.v('point_diffs_')
        bc = S.v('boundary_velocities_')
        C = S.v('result')
        S.requires(sizes_ok(S, 'CubicSplineND'), 'sizes')
        for p in h_and_inv(S):
            S.requires(p, 'time_powers')
        for p in pd_ok(S):
            S.requires(p, 'point_diffs')
        S.terms(0, 1, n - 1, n, S.sk(0) - 1, S.sk(0) + 1)
        S.assigns(M, S.v('cached_c_prime_'), S.v('cached_inv_denoms_'))
        S.ensures(C.R.eq(4 * n) & M.R.eq(n + 1), 'rows')
        hfun = lambda i: tp_field(S, i, 'h')
        for d in DS:
            S.ensures(S.forall(0, n, lambda i, d=d: cubic_rep(S, C, i, d)), 'closed_form_%d' % d)
            for label, prop in knot_conditions(S, C, 4, 2, n, d, hfun, P,
                                               [lambda dd: bc.fields['start_velocity'].at(dd, 0)], [lambda dd: bc.fields['end_velocity'].at(dd, 0)]):
                S.ensures(prop, '%s_%d' % (label, d))
        S.ensures(cubic_factor_first(S), 'cached_factor_first')
        S.ensures(S.forall(1, n, lambda k: cubic_factor_mid(S, k)), 'cached_factors')
        S.ensures(cubic_factor_last(S, n), 'cached_factor_last')
        # loop 0: p_diff_h ; loop 1: coefficient rows
        S.loop(0, inv=lambda L: [
            ('range', (L.i >= 0) & (L.i <= n)),
            ('rows', L.p_diff_h.R.eq(n)),
            ('values', S.forall(0, L.i, lambda k: [L.p_diff_h.at(k, d).eq(pd.at(k, d) * tp_field(S, k, 'h_inv')) for d in DS])),
        ], variant=lambda L: n - L.i)
        S.loop(1, inv=lambda L: [
            ('range', (L.i >= 0) & (L.i <= n)),
            ('rows', L.coeffs.R.eq(4 * n)),
            ('values', S.forall(0, L.i, lambda k: [cubic_rep(S, L.coeffs, k, d) for d in DS])),
        ], variant=lambda L: n - L.i)


# ------------------------------------------------------------------------------------------------ energy (C04)
def make_energy_contract(cls):
    s = ORDER_OF[cls]
    nc = 2 * s

    class GetEnergy(Contract):
        key = cls + '.getEnergy'

        def spec(self, S):
            D = S.cfg['DIM']
            n = S.num_segments_
            C = S.v('coeffs_')
            if cls == 'CubicSplineND':
                Tfun = lambda i: tp_field(S, i, 'h')
                S.requires(S.v('time_powers_').size().eq(n), 'durations_size')
            else:
                Tfun = lambda i: S.v('time_segments_').at(i)
                S.requires(S.v('time_segments_').size().eq(n), 'durations_size')
            S.requires((n >= 0) & (n <= NMAX) & C.R.eq(nc * n), 'sizes')
            S.requires(S.forall(0, n, lambda i: Tfun(i) > 0), 'positive_durations')
            S.assigns()
            seg_term = lambda i: esum([seg_energy(C, nc, i, s, Tfun(i), d) for d in range(D)])
            EP = S.define_prefix_sum('EP', n, seg_term)
            S.ensures(implies(mk_not(S.is_initialized_), S.result.eq(0)), 'zero_when_uninitialised')
            S.ensures(implies(S.is_initialized_, S.result.eq(EP(n))), 'sum_of_segment_integrals')
            S.loop(0, inv=lambda L: [
                ('range', (L.i >= 0) & (L.i <= n)),
                ('partial_sum', L.total_energy.eq(EP(L.i))),
            ], variant=lambda L: n - L.i, terms=lambda L: [L.i])

    GetEnergy.__name__ = cls + 'GetEnergy'
    register(GetEnergy)


for _c in ORDER_OF:
    make_energy_contract(_c)


# ------------------------------------------------------------------------------------------------ quintic / septic: knot derivatives and Hermite closure
KNOT_FIELDS = {'QuinticSplineND': ['internal_vel_', 'internal_acc_'], 'SepticSplineND': ['internal_vel_', 'internal_acc_', 'internal_jerk_']}
BC_FIELDS = ['velocity', 'acceleration', 'jerk']
BLOCK_CACHES = ['U_blocks_cache_', 'D_inv_cache_', 'L_blocks_cache_', 'D_inv_T_mul_L_next_T_cache_', 'ws_rhs_mod_', 'ws_solution_']


def make_block_contracts(cls):
    s = ORDER_OF[cls]
    nc = 2 * s
    kf = KNOT_FIELDS[cls]
    outs = ['p_out', 'q_out', 's_out'][:s - 1]

    class SolveInternalDerivatives(Contract):
        """knot derivatives: boundary rows are the boundary states; interior rows come from the block-tridiagonal solve"""
        key = cls + '.solveInternalDerivatives'

        def spec(self, S):
            D = S.cfg['DIM']
            P = S.v('P')
            n_pts = P.R
            bc = S.v('boundary_')
            S.requires((n_pts >= 2) & (n_pts <= NMAX + 1), 'at_least_two_points')
            S.requires(S.v('time_powers_').size().eq(n_pts - 1) & S.v('point_diffs_').R.eq(n_pts - 1), 'sizes')
            S.assume_nonzero_divisors_in('Inverse2x2', 'Inverse3x3')
            S.assigns(*([S.v(o) for o in outs] + [S.v(x) for x in BLOCK_CACHES]))
            for j, o in enumerate(outs):
                X = S.v(o)
                S.ensures(X.R.eq(n_pts), 'rows_%s' % o)
                S.ensures(conj([X.at(0, d).eq(bc.fields['start_' + BC_FIELDS[j]].at(d, 0)) for d in range(D)]), 'first_row_is_start_%s' % BC_FIELDS[j])
                S.ensures(conj([X.at(n_pts - 1, d).eq(bc.fields['end_' + BC_FIELDS[j]].at(d, 0)) for d in range(D)]), 'last_row_is_end_%s' % BC_FIELDS[j])
            nb = n_pts - 2
            boundary_rows = lambda: conj([S.v(o).R.eq(n_pts) for o in outs] +
                                         [S.v(o).at(0, d).eq(bc.fields['start_' + BC_FIELDS[j]].at(d, 0)) for j, o in enumerate(outs) for d in range(D)] +
                                         [S.v(o).at(n_pts - 1, d).eq(bc.fields['end_' + BC_FIELDS[j]].at(d, 0)) for j, o in enumerate(outs) for d in range(D)])
            S.loop(0, inv=lambda L: [('range', (L.i >= 0) & (L.i <= nb))], variant=lambda L: nb - L.i)
            S.loop(1 if cls == 'QuinticSplineND' else 1, inv=lambda L: [('range', (L.i >= -1) & (L.i <= nb - 2))], variant=lambda L: L.i + 1)
            S.loop(3 if cls == 'QuinticSplineND' else 3, inv=lambda L: [('range', (L.i >= 0) & (L.i <= nb)), ('boundary_rows', boundary_rows())], variant=lambda L: nb - L.i)

    class SolveCoefficients(Contract):
        """Hermite closure: each segment matches the knot values and the knot derivatives of order < s at both ends"""
        key = cls + ('.solveQuintic' if s == 3 else '.solveSepticSpline')

        def spec(self, S):
            n = S.num_segments_
            DS = dims(S)
            P = S.v('spatial_points_')
            C = S.v('result')
            bc = S.v('boundary_')
            X = [P] + [S.v(f) for f in kf]
            S.requires(sizes_ok(S, cls), 'sizes')
            for p in all_tp_ok(S, cls):
                S.requires(p, 'time_powers')
            for p in pd_ok(S):
                S.requires(p, 'point_diffs')
            S.assume_nonzero_divisors_in('Inverse2x2', 'Inverse3x3')
            S.terms(0, n - 1, n, S.sk(0) - 1, S.sk(0) + 1)
            S.assigns(*([S.v(f) for f in kf] + [S.v(x) for x in BLOCK_CACHES]))
            S.ensures(C.R.eq(nc * n), 'rows')
            hfun = lambda i: tp_field(S, i, 'h')
            for j, f in enumerate(kf):
                S.ensures(S.v(f).R.eq(n + 1), 'knot_rows_%s' % f)
            for d in DS:
                for k in range(s):
                    S.ensures(S.forall(0, n, lambda i, k=k, d=d: der(C, nc, i, k, 0, d).eq(X[k].at(i, d))), 'left_end_derivative_%d_%d' % (k, d))
                    S.ensures(S.forall(0, n, lambda i, k=k, d=d: der(C, nc, i, k, hfun(i), d).eq(X[k].at(i + 1, d))), 'right_end_derivative_%d_%d' % (k, d))
                for k in range(1, s):
                    S.ensures(X[k].at(0, d).eq(bc.fields['start_' + BC_FIELDS[k - 1]].at(d, 0)), 'start_%s_%d' % (BC_FIELDS[k - 1], d))
                    S.ensures(X[k].at(n, d).eq(bc.fields['end_' + BC_FIELDS[k - 1]].at(d, 0)), 'end_%s_%d' % (BC_FIELDS[k - 1], d))
            S.loop(0, inv=lambda L: [
                ('range', (L.i >= 0) & (L.i <= n)),
                ('rows', L.coeffs.R.eq(nc * n)),
            ] + [('left_%d_%d' % (k, d), S.forall(0, L.i, lambda i, k=k, d=d: der(L.coeffs, nc, i, k, 0, d).eq(X[k].at(i, d)))) for k in range(s) for d in DS]
              + [('right_%d_%d' % (k, d), S.forall(0, L.i, lambda i, k=k, d=d: der(L.coeffs, nc, i, k, hfun(i), d).eq(X[k].at(i + 1, d)))) for k in range(s) for d in DS],
                variant=lambda L: n - L.i, terms=lambda L: [L.i],
                local=dict(
                    pre=lambda L: [('tp', conj(tp_ok(S, L.i, cls)))] + [('pd_%d' % d, S.v('point_diffs_').at(L.i, d).eq(P.at(L.i + 1, d) - P.at(L.i, d))) for d in DS],
                    post=lambda L: [('left_%d_%d' % (k, d), der(L.coeffs, nc, L.i, k, 0, d).eq(X[k].at(L.i, d))) for k in range(s) for d in DS]
                                 + [('right_%d_%d' % (k, d), der(L.coeffs, nc, L.i, k, hfun(L.i), d).eq(X[k].at(L.i + 1, d))) for k in range(s) for d in DS]))



    SolveInternalDerivatives.__name__ = cls + 'SolveInternalDerivatives'
    SolveCoefficients.__name__ = cls + 'SolveCoefficients'
    register(SolveInternalDerivatives)
    register(SolveCoefficients)


for _c in KNOT_FIELDS:
    make_block_contracts(_c)


# ------------------------------------------------------------------------------------------------ assembling the spline: updateSplineInternal, update, constructors (C01)
BC_MEMBER = {'CubicSplineND': 'boundary_velocities_', 'QuinticSplineND': 'boundary_', 'SepticSplineND': 'boundary_'}
SOLVE = {'CubicSplineND': 'solveSpline', 'QuinticSplineND': 'solveQuintic', 'SepticSplineND': 'solveSepticSpline'}
TRAJ_STATE = ('breakpoints_', 'coefficients_', 'derivative_coeffs_', 'derivative_factor_table_', 'derivative_factor_table_ready_',
              'derivative_coeffs_ready_', 'num_segments_', 'num_coeffs_', 'is_initialized_')


def spline_state(S, cls):
    names = ['num_segments_', 'cumulative_times_', 'time_powers_', 'point_diffs_', 'coeffs_', 'is_initialized_', 'trajectory_']
    if cls == 'CubicSplineND':
        names += ['internal_derivatives_', 'cached_c_prime_', 'cached_inv_denoms_']
    else:
        names += KNOT_FIELDS[cls] + BLOCK_CACHES
    return [S.v(x) for x in names]


def published(S, cls):
    """what the spline publishes after (re)building: knot times, coefficients, trajectory = (knot times, coefficients)"""
    nc = nc_of_cls(cls)
    s = ORDER_OF[cls]
    D = S.cfg['DIM']
    n = S.num_segments_
    seg = S.v('time_segments_')
    cum = S.v('cumulative_times_')
    C = S.v('coeffs_')
    T = S.v('trajectory_')
    P = S.v('spatial_points_')
    bc = S.v(BC_MEMBER[cls])
    out = []
    out.append(('segment_count', n.eq(seg.size()) & S.is_initialized_))
    out.append(('knot_times_start', cum.size().eq(n + 1) & cum.at(0).eq(S.start_time_)))
    out.append(('knot_times_advance_by_durations', S.forall(0, n, lambda i: cum.at(i + 1).eq(cum.at(i) + seg.at(i)))))
    out.append(('trajectory_initialised', T.fields['is_initialized_'].rd() & T.fields['num_segments_'].rd().eq(n) & T.fields['num_coeffs_'].rd().eq(nc)))
    out.append(('trajectory_fresh_caches', mk_not(T.fields['derivative_coeffs_ready_'].rd()) & mk_not(T.fields['derivative_factor_table_ready_'].rd())))
    for j, p in enumerate(same_contents_vec(S, T.fields['breakpoints_'], cum)):
        out.append(('trajectory_breakpoints_are_knot_times_%d' % j, p))
    for j, p in enumerate(same_contents_mat(S, T.fields['coefficients_'], C, D)):
        out.append(('trajectory_coefficients_are_spline_coefficients_%d' % j, p))
    hfun = lambda i: seg.at(i)
    for d in dims(S):
        out.append(('interpolates_left_end_%d' % d, S.forall(0, n, lambda i, d=d: C.at(i * nc, d).eq(P.at(i, d)))))
        out.append(('interpolates_right_end_%d' % d, S.forall(0, n, lambda i, d=d: der(C, nc, i, 0, hfun(i), d).eq(P.at(i + 1, d)))))
        for k in range(1, s):
            out.append(('start_%s_%d' % (BC_FIELDS[k - 1], d), der(C, nc, 0, k, 0, d).eq(bc.fields['start_' + BC_FIELDS[k - 1]].at(d, 0))))
            out.append(('end_%s_%d' % (BC_FIELDS[k - 1], d), der(C, nc, n - 1, k, hfun(n - 1), d).eq(bc.fields['end_' + BC_FIELDS[k - 1]].at(d, 0))))
        for k in range(1, s):
            out.append(('continuous_derivative_%d_%d' % (k, d), S.forall(1, n, lambda m, k=k, d=d: der(C, nc, m, k, 0, d).eq(der(C, nc, m - 1, k, hfun(m - 1), d)))))
    return out


def make_assembly_contracts(cls):
    nc = nc_of_cls(cls)
    s = ORDER_OF[cls]

    class InitializePPoly(Contract):
        key = cls + '.initializePPoly'

        def spec(self, S):
            D = S.cfg['DIM']
            n = S.num_segments_
            cum = S.v('cumulative_times_')
            C = S.v('coeffs_')
            T = S.v('trajectory_')
            S.requires((n >= 1) & (n <= NMAX) & cum.size().eq(n + 1) & C.R.eq(nc * n), 'sizes')
            S.assigns(T)
            S.ensures(T.fields['is_initialized_'].rd() & T.fields['num_segments_'].rd().eq(n) & T.fields['num_coeffs_'].rd().eq(nc), 'trajectory_initialised')
            S.ensures(mk_not(T.fields['derivative_coeffs_ready_'].rd()) & mk_not(T.fields['derivative_factor_table_ready_'].rd()), 'trajectory_fresh_caches')
            for j, p in enumerate(same_contents_vec(S, T.fields['breakpoints_'], cum)):
                S.ensures(p, 'trajectory_breakpoints_are_knot_times_%d' % j)
            for j, p in enumerate(same_contents_mat(S, T.fields['coefficients_'], C, D)):
                S.ensures(p, 'trajectory_coefficients_are_spline_coefficients_%d' % j)

    class UpdateSplineInternal(Contract):
        key = cls + '.updateSplineInternal'

        def spec(self, S):
            seg = S.v('time_segments_')
            P = S.v('spatial_points_')
            S.requires((seg.size() >= 1) & (seg.size() <= NMAX) & P.R.eq(seg.size() + 1), 'sizes')
            S.requires(S.forall(0, seg.size(), lambda i: seg.at(i) > 0), 'positive_durations')
            S.assume_nonzero_divisors_in('Inverse2x2', 'Inverse3x3')
            S.terms(0, seg.size() - 1, seg.size(), S.sk(0) - 1, S.sk(0) + 1)
            S.assigns(*spline_state(S, cls))
            for label, p in published(S, cls):
                S.ensures(p, label)

    InitializePPoly.__name__ = cls + 'InitializePPoly'
    UpdateSplineInternal.__name__ = cls + 'UpdateSplineInternal'
    register(InitializePPoly)
    register(UpdateSplineInternal)

    def inputs_stored(S, by_points):
        D = S.cfg['DIM']
        out = []
        bcm = S.v(BC_MEMBER[cls])
        bcp = S.v([k for k in S.ns if k.startswith('boundary')and not k.endswith('_')][0])
        for f in bcm.fields:
            out.append(('stores_%s' % f, conj([bcm.fields[f].at(d, 0).eq(bcp.fields[f].at(d, 0)) for d in range(D)])))
        for j, p in enumerate(same_contents_mat(S, S.v('spatial_points_'), S.v('spatial_points'), D)):
            out.append(('stores_waypoints_%d' % j, p))
        return out

    class UpdateByDurations(Contract):
        key = cls + '.update'
        nparams = 4

        def spec(self, S):
            ts = S.v('time_segments')
            P = S.v('spatial_points')
            S.requires((ts.size() >= 1) & (ts.size() <= NMAX) & P.R.eq(ts.size() + 1), 'sizes')
            S.requires(S.forall(0, ts.size(), lambda i: ts.at(i) > 0), 'positive_durations')
            S.assume_nonzero_divisors_in('Inverse2x2', 'Inverse3x3')
            S.terms(0, ts.size() - 1, ts.size(), S.sk(0) - 1, S.sk(0) + 1)
            S.assigns(S.v('time_segments_'), S.v('spatial_points_'), S.v(BC_MEMBER[cls]), S.v('start_time_'), *spline_state(S, cls))
            S.ensures(S.start_time_.eq(S.start_time), 'stores_start_time')
            for j, p in enumerate(same_contents_vec(S, S.v('time_segments_'), ts)):
                S.ensures(p, 'stores_durations_%d' % j)
            for label, p in inputs_stored(S, False):
                S.ensures(p, label)
            for label, p in published(S, cls):
                S.ensures(p, label)

    class UpdateByTimePoints(Contract):
        key = cls + '.update'
        nparams = 3

        def spec(self, S):
            tp = S.v('t_points')
            P = S.v('spatial_points')
            seg = S.v('time_segments_')
            cum = S.v('cumulative_times_')
            S.requires((tp.size() >= 2) & (tp.size() <= NMAX) & P.R.eq(tp.size()), 'sizes')
            S.requires(S.forall(0, tp.size() - 1, lambda i: tp.at(i) < tp.at(i + 1)), 'increasing_time_points')
            S.assume_nonzero_divisors_in('Inverse2x2', 'Inverse3x3')
            S.terms(0, tp.size() - 2, tp.size() - 1, S.sk(0) - 1, S.sk(0) + 1)
            S.assigns(S.v('time_segments_'), S.v('spatial_points_'), S.v(BC_MEMBER[cls]), S.v('start_time_'), *spline_state(S, cls))
            S.ensures(S.start_time_.eq(tp.at(0)), 'start_time_is_first_time_point')
            S.ensures(seg.size().eq(tp.size() - 1), 'one_duration_per_interval')
            S.ensures(S.forall(0, tp.size() - 1, lambda i: seg.at(i).eq(tp.at(i + 1) - tp.at(i))), 'durations_are_differences')
            S.ensures(S.forall(0, tp.size(), lambda k: cum.at(k).eq(tp.at(k))), 'knot_times_are_the_time_points')
            for label, p in inputs_stored(S, True):
                S.ensures(p, label)
            for label, p in published(S, cls):
                S.ensures(p, label)
            if S.mode == 'verify':
                S.ghost('exit', lambda G: G.induction(0, tp.size(), lambda k: cum.at(k).eq(tp.at(k)), 'knot_times_telescope'))

    UpdateByDurations.__name__ = cls + 'UpdateByDurations'
    UpdateByTimePoints.__name__ = cls + 'UpdateByTimePoints'
    register(UpdateByDurations)
    register(UpdateByTimePoints)


for _c in ORDER_OF:
    make_assembly_contracts(_c)


# ------------------------------------------------------------------------------------------------ energy partial gradients (C06 i)
import ad


def d_wrt_cell(expr, cell):
    """partial derivative of a spec expression with respect to one stored double (an array cell or a scalar)"""
    if cell.op == 'idx':
        seeds = {('@', cell.args[0], cell.args[1].key()): E.const(Fraction(1))}
    else:
        seeds = {cell.args[0]: E.const(Fraction(1))}
    return ad.d_expr(expr, seeds)


def make_energy_partials(cls):
    s = ORDER_OF[cls]
    nc = 2 * s

    def Tcell(S, i):
        return tp_field(S, i, 'h') if cls == 'CubicSplineND' else S.v('time_segments_').at(i)

    def seg_total(S, i):
        D = S.cfg['DIM']
        return esum([seg_energy(S.v('coeffs_'), nc, i, s, Tcell(S, i), d) for d in range(D)])

    def common_requires(S):
        n = S.num_segments_
        S.requires((n >= 0) & (n <= NMAX) & S.v('coeffs_').R.eq(nc * n), 'sizes')
        if cls == 'CubicSplineND':
            S.requires(S.v('time_powers_').size().eq(n), 'durations_size')
        else:
            S.requires(S.v('time_segments_').size().eq(n), 'durations_size')

    class PartialByCoeffs(Contract):
        """dE/dC with T held fixed: tangent of the spec energy integral in each coefficient"""
        key = cls + '.getEnergyPartialGradByCoeffs'
        nparams = 1

        def spec(self, S):
            D = S.cfg['DIM']
            n = S.num_segments_
            C = S.v('coeffs_')
            G = S.v('gdC')
            common_requires(S)
            S.assigns(G)
            S.ensures(G.R.eq(nc * n), 'rows')
            want = lambda i, m, d: d_wrt_cell(seg_total(S, i), C.at(E.const(i) * nc + m, d))
            S.ensures(S.forall(0, n, lambda i: [G.at(i * nc + m, d).eq(want(i, m, d)) for m in range(nc) for d in range(D)]), 'partial_derivative_in_each_coefficient')
            S.loop(0, inv=lambda L: [
                ('range', (L.i >= 0) & (L.i <= n)),
                ('rows', G.R.eq(nc * n)),
                ('done', S.forall(0, L.i, lambda k: [G.at(k * nc + m, d).eq(want(k, m, d)) for m in range(nc) for d in range(D)])),
                ('untouched_rows_zero', S.forall(L.i, n, lambda k: [G.at(k * nc + m, d).eq(0) for m in range(nc) for d in range(D)])),
            ], variant=lambda L: n - L.i, terms=lambda L: [L.i],
                local=dict(pre=lambda L: [('zero_%d_%d' % (m, d), G.at(L.i * nc + m, d).eq(0)) for m in range(nc) for d in range(D)],
                           post=lambda L: [('d_%d_%d' % (m, d), G.at(L.i * nc + m, d).eq(want(L.i, m, d))) for m in range(nc) for d in range(D)]))
            S.terms(*[S.sk(0) * nc + m for m in range(nc)])

    class PartialByTimes(Contract):
        """dE/dT_i with the coefficients held fixed"""
        key = cls + '.getEnergyPartialGradByTimes'
        nparams = 1

        def spec(self, S):
            n = S.num_segments_
            G = S.v('gdT')
            common_requires(S)
            S.assigns(G)
            S.ensures(G.R.eq(n), 'size')
            want = lambda i: d_wrt_cell(seg_total(S, i), Tcell(S, i))
            S.ensures(S.forall(0, n, lambda i: G.at(i, 0).eq(want(i))), 'partial_derivative_in_each_duration')
            S.loop(0, inv=lambda L: [
                ('range', (L.i >= 0) & (L.i <= n)),
                ('size', G.R.eq(n)),
                ('done', S.forall(0, L.i, lambda k: G.at(k, 0).eq(want(k)))),
            ], variant=lambda L: n - L.i, terms=lambda L: [L.i],
                local=dict(pre=lambda L: [], post=lambda L: [('dT', G.at(L.i, 0).eq(want(L.i)))]))

    PartialByCoeffs.__name__ = cls + 'PartialByCoeffs'
    PartialByTimes.__name__ = cls + 'PartialByTimes'
    register(PartialByCoeffs)
    register(PartialByTimes)


for _c in ORDER_OF:
    make_energy_partials(_c)
