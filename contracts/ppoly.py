"""Contracts for PPolyND (properties C03, C11, C16, C20)."""
from base import *


def ppoly_shape(S):
    """representation invariant established by initializeInternal / the default constructor"""
    n = S.num_segments_
    bp = S.v('breakpoints_')
    return conj([n >= 0, n <= 1 << 24,
                 implies(n.eq(0), bp.size().eq(0)),
                 implies(n > 0, bp.size().eq(n + 1))])


def sorted_bp(S):
    bp = S.v('breakpoints_')
    return S.forall(0, S.num_segments_, lambda k: bp.at(k) < bp.at(k + 1))


def seg_post(S, r, t):
    """r is the piece of the half-open lookup with clamping (spec function seg_of)"""
    n = S.num_segments_
    bp = S.v('breakpoints_')
    return conj([r >= 0, r < n,
                 r.eq(0) | (bp.at(r) <= t),
                 r.eq(n - 1) | (t < bp.at(r + 1))])


@register
class FindSegment(Contract):
    key = 'PPolyND.findSegment'
    nparams = 1

    def spec(self, S):
        n = S.num_segments_
        S.requires(ppoly_shape(S), 'shape')
        S.requires(sorted_bp(S), 'sorted')
        S.terms(0, n - 1)
        S.assigns()
        S.ensures(implies(n.eq(0), S.result.eq(0)), 'empty')
        S.ensures(implies(n > 0, seg_post(S, S.result, S.t)), 'piece')
        bp = S.v('breakpoints_')
        S.loop(0, inv=lambda L: [
            ('range', (L.i >= 0) & (L.i <= n)),
            ('below', implies(L.i >= 1, bp.at(L.i) <= L.t)),
        ], variant=lambda L: n - L.i)


@register
class FindSegmentHinted(Contract):
    key = 'PPolyND.findSegment'
    nparams = 2

    def spec(self, S):
        n = S.num_segments_
        h = S.v('last_idx_hint')
        S.requires(ppoly_shape(S), 'shape')
        S.requires(sorted_bp(S), 'sorted')
        S.terms(0, n - 1)
        S.assigns(h.target)
        S.ensures(implies(n.eq(0), S.result.eq(0)), 'empty')
        S.ensures(implies(n > 0, seg_post(S, S.result, S.t)), 'piece')
        S.ensures(implies(mk_not(h.null), h.target.rd().eq(S.result)), 'hint_refreshed')


# ------------------------------------------------------------------------------------------------ lazy caches (C03, C11)
from speclib import ff, der, power
from fractions import Fraction


def nc_of(S):
    nc = S.num_coeffs_
    if not nc.is_const():
        raise ValueError('PPolyND contracts need num_coeffs_ pinned to a configuration constant')
    return int(nc.cval())


def coeff_shape(S):
    nc = nc_of(S)
    return S.v('coefficients_').R.eq(S.num_segments_ * nc)


def dcoeffs_ok(S, d, inst=None):
    """derivative_coeffs_[d] is the d-times differentiated coefficient table of the *current* coefficients"""
    nc = nc_of(S)
    D = S.cfg['DIM']
    C = S.v('coefficients_')
    M = S.v('derivative_coeffs_').mats[d]
    od = nc - d
    return [M.R.eq(S.num_segments_ * od),
            S.forall(0, S.num_segments_, lambda s: [M.at(s * od + k, c).eq(Fraction(ff(k + d, d)) * C.at(s * nc + k + d, c))
                                                    for k in range(od) for c in range(D)], inst=inst)]


def cache_inv(S, inst=None):
    """CacheInv: a ready flag implies contents that match the current coefficients / coefficient count"""
    nc = nc_of(S)
    out = []
    ready = S.derivative_coeffs_ready_
    if nc > 0:
        out.append(implies(ready & (S.num_segments_ > 0), S.v('derivative_coeffs_').size().eq(nc)))
        for d in range(nc):
            shp, q = dcoeffs_ok(S, d, inst)
            out.append(implies(ready & (S.num_segments_ > 0), shp))
            out.append(Quant(q.lo, q.hi, (lambda s, q=q: implies(ready, conj(q.body(s)))), inst=inst))
    return out


def factor_table_ok(S):
    nc = nc_of(S)
    T = S.v('derivative_factor_table_')
    out = [T.rows_var.rd().eq(nc), T.cols_var.rd().eq(nc)]
    for n in range(nc):
        for k in range(nc):
            out.append(T.at(n, k).eq(Fraction(ff(n, k)) if k <= n else Fraction(0)))
    return conj(out)


def table_inv(S):
    nc = nc_of(S)
    if nc <= 0:
        return E.const(True)
    return implies(S.derivative_factor_table_ready_, factor_table_ok(S))


@register
class BuildDerivativeCoefficients(Contract):
    key = 'PPolyND.buildDerivativeCoefficients'

    def spec(self, S):
        nc = nc_of(S)
        S.requires(ppoly_shape(S), 'shape')
        S.requires(coeff_shape(S), 'coeff_rows')
        S.requires(table_inv(S), 'table_inv')
        S.assigns(S.v('derivative_coeffs_'), S.v('derivative_coeffs_ready_'), S.v('derivative_factor_table_'),
                  S.v('derivative_factor_table_ready_'))
        S.ensures(S.derivative_coeffs_ready_, 'ready')
        S.ensures(table_inv(S), 'table_inv')
        for p in cache_inv(S):
            S.ensures(p, 'cache')
        # loops: outer over d is unrolled (nc is pinned); loop ordinal 1 runs over segments, once per d
        for d in range(nc):
            S.loop(1, repl=((0, d),), inv=(lambda L, d=d: self.seg_inv(S, L, d)), variant=lambda L: S.num_segments_ - L.i)

    def seg_inv(self, S, L, d):
        nc = nc_of(S)
        D = S.cfg['DIM']
        od = nc - d
        C = S.v('coefficients_')
        M = L.coeffs_d
        return [('range', (L.i >= 0) & (L.i <= S.num_segments_)),
                ('table', table_inv(S)),
                ('rows', M.R.eq(S.num_segments_ * od)),
                ('filled', S.forall(0, L.i, lambda s: [M.at(s * od + k, c).eq(Fraction(ff(k + d, d)) * C.at(s * nc + k + d, c))
                                                       for k in range(od) for c in range(D)]))]


def ff_sel(n, k, nmax):
    """ff(n,k) for symbolic 0 <= n < nmax (0 when k < 0 or k > n), as a selection over the constant table"""
    n, k = E.const(n), E.const(k)
    if n.is_const() and k.is_const():
        nn, kk = int(n.cval()), int(k.cval())
        return E.const(Fraction(ff(nn, kk) if 0 <= kk <= nn else 0))
    res = E.const(Fraction(0))
    for a in range(nmax):
        for b in range(a + 1):
            res = ite(n.eq(a) & k.eq(b), Fraction(ff(a, b)), res)
    return res


TABLE_STATE = ('derivative_factor_table_', 'derivative_factor_table_ready_')


@register
class BuildDynamicDerivativeFactorTable(Contract):
    key = 'PPolyND.buildDynamicDerivativeFactorTable'

    def spec(self, S):
        nc = nc_of(S)
        S.assigns(*[S.v(x) for x in TABLE_STATE])
        S.ensures(S.derivative_factor_table_ready_, 'ready')
        S.ensures(table_inv(S), 'table')


@register
class EnsureDerivativeFactorTable(Contract):
    key = 'PPolyND.ensureDerivativeFactorTable'

    def spec(self, S):
        S.requires(table_inv(S), 'table_inv')
        S.assigns(*[S.v(x) for x in TABLE_STATE])
        S.ensures(S.derivative_factor_table_ready_, 'ready')
        S.ensures(table_inv(S), 'table')


@register
class DerivativeFactor(Contract):
    key = 'PPolyND.derivativeFactor'

    def spec(self, S):
        nc = nc_of(S)
        S.requires(table_inv(S), 'table_inv')
        S.requires((S.n >= 0) & (S.n < nc), 'n_range')
        S.assigns(*[S.v(x) for x in TABLE_STATE])
        S.ensures(S.result.eq(ff_sel(S.n, S.k, nc)), 'value')
        S.ensures(table_inv(S), 'table')


@register
class EvaluateSegmentHorner(Contract):
    """result = k-th derivative of piece `segment_idx` at local time t (spec function der), for pinned (nc, k)"""
    key = 'PPolyND.evaluateSegmentHorner'

    def spec(self, S):
        nc = nc_of(S)
        D = S.cfg['DIM']
        k = S.derivative_order
        seg = S.segment_idx
        S.requires(ppoly_shape(S), 'shape')
        S.requires(coeff_shape(S), 'coeff_rows')
        S.requires(table_inv(S), 'table_inv')
        for p in cache_inv(S):
            S.requires(p, 'cache_inv')
        S.requires((seg >= 0) & (seg < S.num_segments_), 'segment_in_range')
        S.terms(seg)
        S.assigns(S.v('derivative_coeffs_'), S.v('derivative_coeffs_ready_'), *[S.v(x) for x in TABLE_STATE])
        C = S.v('coefficients_')
        if not k.is_const():
            raise ValueError('evaluateSegmentHorner contract needs derivative_order pinned')
        kk = int(k.cval())
        for d in range(D):
            if kk < 0 or kk >= nc:
                S.ensures(S.result.at(d, 0).eq(0), 'zero_beyond_degree_%d' % d)
            else:
                S.ensures(S.result.at(d, 0).eq(der(C, nc, seg, kk, S.t, d)), 'value_%d' % d)
        S.ensures(table_inv(S), 'table')
        for p in cache_inv(S):
            S.ensures(p, 'cache')
