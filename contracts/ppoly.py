"""Contracts for PPolyND (properties C03, C11, C16, C20)."""
from base import *


def ppoly_shape(S):
    """representation invariant established by initializeInternal / the default constructor"""
    n = S.num_segments_
    bp = S.v('breakpoints_')
    return conj([n >= 0, n <= 1 << 24,
                 implies(n.eq(0), bp.size().eq(0)),
                 implies(n > 0, bp.size().eq(n + 1))])


def sorted_bp(S):
    bp = S.v('breakpoints_')
    return S.forall(0, S.num_segments_, lambda k: bp.at(k) < bp.at(k + 1))


def seg_post(S, r, t):
    """r is the piece of the half-open lookup with clamping (spec function seg_of)"""
    n = S.num_segments_
    bp = S.v('breakpoints_')
    return conj([r >= 0, r < n,
                 r.eq(0) | (bp.at(r) <= t),
                 r.eq(n - 1) | (t < bp.at(r + 1))])


@register
class FindSegment(Contract):
    key = 'PPolyND.findSegment'
    nparams = 1

    def spec(self, S):
        n = S.num_segments_
        S.requires(ppoly_shape(S), 'shape')
        S.requires(sorted_bp(S), 'sorted')
        S.terms(0, n - 1)
        if S.mode == 'call':
            S.terms(S.result, S.result + 1)
        S.assigns()
        S.ensures(implies(n.eq(0), S.result.eq(0)), 'empty')
        S.ensures(implies(n > 0, seg_post(S, S.result, S.t)), 'piece')
        bp = S.v('breakpoints_')
        S.loop(0, inv=lambda L: [
            ('range', (L.i >= 0) & (L.i <= n)),
            ('below', implies(L.i >= 1, bp.at(L.i) <= L.t)),
        ], variant=lambda L: n - L.i)


@register
class FindSegmentHinted(Contract):
    key = 'PPolyND.findSegment'
    nparams = 2

    def spec(self, S):
        n = S.num_segments_
        h = S.v('last_idx_hint')
        S.requires(ppoly_shape(S), 'shape')
        S.requires(sorted_bp(S), 'sorted')
        S.terms(0, n - 1)
        if S.mode == 'call':
            S.terms(S.result, S.result + 1)
        S.assigns(h.target)
        S.ensures(implies(n.eq(0), S.result.eq(0)), 'empty')
        S.ensures(implies(n > 0, seg_post(S, S.result, S.t)), 'piece')
        S.ensures(implies(mk_not(h.null), h.target.rd().eq(S.result)), 'hint_refreshed')


# ------------------------------------------------------------------------------------------------ lazy caches (C03, C11)
from speclib import ff, der, power
from fractions import Fraction


def nc_of(S):
    nc = S.num_coeffs_
    if not nc.is_const():
        raise ValueError('PPolyND contracts need num_coeffs_ pinned to a configuration constant')
    return int(nc.cval())


def coeff_shape(S):
    nc = nc_of(S)
    return S.v('coefficients_').R.eq(S.num_segments_ * nc)


def dcoeffs_ok(S, d, inst=None):
    """derivative_coeffs_[d] is the d-times differentiated coefficient table of the *current* coefficients"""
    nc = nc_of(S)
    D = S.cfg['DIM']
    C = S.v('coefficients_')
    M = S.v('derivative_coeffs_').mats[d]
    od = nc - d
    return [M.R.eq(S.num_segments_ * od),
            S.forall(0, S.num_segments_, lambda s: [M.at(s * od + k, c).eq(Fraction(ff(k + d, d)) * C.at(s * nc + k + d, c))
                                                    for k in range(od) for c in range(D)], inst=inst)]


def cache_inv(S, inst=None):
    """CacheInv: a ready flag implies contents that match the current coefficients / coefficient count"""
    nc = nc_of(S)
    out = []
    ready = S.derivative_coeffs_ready_
    if nc > 0:
        out.append(implies(ready & (S.num_segments_ > 0), S.v('derivative_coeffs_').size().eq(nc)))
        for d in range(nc):
            shp, q = dcoeffs_ok(S, d, inst)
            out.append(implies(ready & (S.num_segments_ > 0), shp))
            out.append(Quant(q.lo, q.hi, (lambda s, q=q: implies(ready, conj(q.body(s)))), inst=inst))
    return out


def factor_table_ok(S):
    nc = nc_of(S)
    T = S.v('derivative_factor_table_')
    out = [T.rows_var.rd().eq(nc), T.cols_var.rd().eq(nc)]
    for n in range(nc):
        for k in range(nc):
            out.append(T.at(n, k).eq(Fraction(ff(n, k)) if k <= n else Fraction(0)))
    return conj(out)


def table_inv(S):
    nc = nc_of(S)
    if nc <= 0:
        return E.const(True)
    return implies(S.derivative_factor_table_ready_, factor_table_ok(S))


@register
class BuildDerivativeCoefficients(Contract):
    key = 'PPolyND.buildDerivativeCoefficients'

    def spec(self, S):
        nc = nc_of(S)
        S.requires(ppoly_shape(S), 'shape')
        S.requires(coeff_shape(S), 'coeff_rows')
        S.requires(table_inv(S), 'table_inv')
        S.assigns(S.v('derivative_coeffs_'), S.v('derivative_coeffs_ready_'), S.v('derivative_factor_table_'),
                  S.v('derivative_factor_table_ready_'))
        S.ensures(S.derivative_coeffs_ready_, 'ready')
        S.ensures(table_inv(S), 'table_inv')
        for p in cache_inv(S):
            S.ensures(p, 'cache')
        # loops: outer over d is unrolled (nc is pinned); loop ordinal 1 runs over segments, once per d
        for d in range(nc):
            S.loop(1, repl=((0, d),), inv=(lambda L, d=d: self.seg_inv(S, L, d)), variant=lambda L: S.num_segments_ - L.i)

    def seg_inv(self, S, L, d):
        nc = nc_of(S)
        D = S.cfg['DIM']
        od = nc - d
        C = S.v('coefficients_')
        M = L.coeffs_d
        return [('range', (L.i >= 0) & (L.i <= S.num_segments_)),
                ('table', table_inv(S)),
                ('rows', M.R.eq(S.num_segments_ * od)),
                ('filled', S.forall(0, L.i, lambda s: [M.at(s * od + k, c).eq(Fraction(ff(k + d, d)) * C.at(s * nc + k + d, c))
                                                       for k in range(od) for c in range(D)]))]


def ff_sel(n, k, nmax):
    """ff(n,k) for symbolic 0 <= n < nmax (0 when k < 0 or k > n), as a selection over the constant table"""
    n, k = E.const(n), E.const(k)
    if n.is_const() and k.is_const():
        nn, kk = int(n.cval()), int(k.cval())
        return E.const(Fraction(ff(nn, kk) if 0 <= kk <= nn else 0))
    res = E.const(Fraction(0))
    for a in range(nmax):
        for b in range(a + 1):
            res = ite(n.eq(a) & k.eq(b), Fraction(ff(a, b)), res)
    return res


TABLE_STATE = ('derivative_factor_table_', 'derivative_factor_table_ready_')


@register
class BuildDynamicDerivativeFactorTable(Contract):
    key = 'PPolyND.buildDynamicDerivativeFactorTable'

    def spec(self, S):
        nc = nc_of(S)
        S.assigns(*[S.v(x) for x in TABLE_STATE])
        S.ensures(S.derivative_factor_table_ready_, 'ready')
        S.ensures(table_inv(S), 'table')


@register
class EnsureDerivativeFactorTable(Contract):
    key = 'PPolyND.ensureDerivativeFactorTable'

    def spec(self, S):
        S.requires(table_inv(S), 'table_inv')
        S.assigns(*[S.v(x) for x in TABLE_STATE])
        S.ensures(S.derivative_factor_table_ready_, 'ready')
        S.ensures(table_inv(S), 'table')


@register
class DerivativeFactor(Contract):
    key = 'PPolyND.derivativeFactor'

    def spec(self, S):
        nc = nc_of(S)
        S.requires(table_inv(S), 'table_inv')
        S.requires((S.n >= 0) & (S.n < nc), 'n_range')
        S.assigns(*[S.v(x) for x in TABLE_STATE])
        S.ensures(S.result.eq(ff_sel(S.n, S.k, nc)), 'value')
        S.ensures(table_inv(S), 'table')


@register
class EvaluateSegmentHorner(Contract):
    """result = k-th derivative of piece `segment_idx` at local time t (spec function der), for pinned (nc, k)"""
    key = 'PPolyND.evaluateSegmentHorner'

    def spec(self, S):
        nc = nc_of(S)
        D = S.cfg['DIM']
        k = S.derivative_order
        seg = S.segment_idx
        S.requires(ppoly_shape(S), 'shape')
        S.requires(coeff_shape(S), 'coeff_rows')
        S.requires(table_inv(S), 'table_inv')
        for p in cache_inv(S, inst=[S.sk(0)] + ([seg] if S.mode == 'verify' else [])):
            S.requires(p, 'cache_inv')
        S.requires((seg >= 0) & (seg < S.num_segments_), 'segment_in_range')
        if S.mode == 'verify':
            S.terms(seg)
        S.assigns(S.v('derivative_coeffs_'), S.v('derivative_coeffs_ready_'), *[S.v(x) for x in TABLE_STATE])
        C = S.v('coefficients_')
        if not k.is_const():
            raise ValueError('evaluateSegmentHorner contract needs derivative_order pinned')
        kk = int(k.cval())
        for d in range(D):
            if kk < 0 or kk >= nc:
                S.ensures(S.result.at(d, 0).eq(0), 'zero_beyond_degree_%d' % d)
            else:
                S.ensures(S.result.at(d, 0).eq(der(C, nc, seg, kk, S.t, d)), 'value_%d' % d)
        S.ensures(table_inv(S), 'table')
        for p in cache_inv(S, inst=[S.sk(0)]):
            S.ensures(p, 'cache')


# ------------------------------------------------------------------------------------------------ (re)initialisation (C11, C16)
PP_STATE = ('breakpoints_', 'coefficients_', 'derivative_coeffs_', 'derivative_factor_table_', 'derivative_factor_table_ready_',
            'derivative_coeffs_ready_', 'num_segments_', 'num_coeffs_', 'is_initialized_')


def accept_cond(S):
    """the acceptance condition stated by property C16"""
    bp = S.v('breakpoints')
    C = S.v('coefficients')
    ncf = S.num_coefficients
    c = (bp.size() >= 2) & C.R.eq((bp.size() - 1) * ncf)
    order = S.cfg.get('ORDER')
    if order is not None:
        c = c & (ncf > 0) & (ncf <= order)
    return c


def same_contents_vec(S, a, b):
    return [a.size().eq(b.size()), S.forall(0, b.size(), lambda k: a.at(k).eq(b.at(k)))]


def same_contents_mat(S, A, B, D):
    return [A.R.eq(B.R), S.forall(0, B.R, lambda r: [A.at(r, c).eq(B.at(r, c)) for c in range(D)])]


@register
class InitializeInternal(Contract):
    key = 'PPolyND.initializeInternal'

    def spec(self, S):
        D = S.cfg['DIM']
        bp = S.v('breakpoints')
        S.requires((bp.size() >= 0) & (bp.size() <= (1 << 24) + 1) & (S.v("coefficients").R >= 0) & (S.num_coefficients >= -64) & (S.num_coefficients <= 64), 'sizes_sane')
        S.assigns(*[S.v(x) for x in PP_STATE])
        acc = accept_cond(S)
        # C16: rejected <=> uninitialised object with no segments
        S.ensures(S.is_initialized_.eq(acc), 'accept_iff')
        S.ensures(implies(mk_not(acc), S.num_segments_.eq(0) & S.num_coeffs_.eq(0) & S.v('breakpoints_').size().eq(0) & S.v('coefficients_').R.eq(0)), 'rejected_is_empty')
        S.ensures(implies(acc, S.num_segments_.eq(bp.size() - 1) & S.num_coeffs_.eq(S.num_coefficients)), 'accepted_counts')
        for j, p in enumerate(same_contents_vec(S, S.v('breakpoints_'), bp)):
            S.ensures(_under(acc, p), 'accepted_breakpoints_%d' % j)
        for j, p in enumerate(same_contents_mat(S, S.v('coefficients_'), S.v('coefficients'), D)):
            S.ensures(_under(acc, p), 'accepted_coefficients_%d' % j)
        # C11: no path keeps a ready flag (so no stale cache can be served)
        S.ensures(mk_not(S.derivative_coeffs_ready_), 'coeff_cache_invalidated')
        S.ensures(mk_not(S.derivative_factor_table_ready_), 'factor_table_invalidated')


def _under(c, p):
    if isinstance(p, Quant):
        return Quant(p.lo, p.hi, (lambda k, p=p: implies(c, conj_q(p.body(k)))), inst=p.inst)
    return implies(c, p)


def conj_q(b):
    if isinstance(b, (list, tuple)):
        return conj([conj_q(x) for x in b])
    return b


# ------------------------------------------------------------------------------------------------ evaluation routes (C03)
def sorted_trans(S):
    """strictly increasing breakpoints, in transitive form (what uniqueness of the piece needs)"""
    bp = S.v('breakpoints_')
    n = S.num_segments_
    return S.forall(0, n + 1, lambda a: S.forall(0, n + 1, lambda b: implies(a < b, bp.at(a) < bp.at(b))))


def eval_requires(S):
    S.requires(ppoly_shape(S), 'shape')
    S.requires(S.num_segments_ > 0, 'initialised_nonempty')
    S.requires(coeff_shape(S), 'coeff_rows')
    S.requires(sorted_bp(S), 'sorted')
    S.requires(sorted_trans(S), 'sorted_transitive')
    S.requires(table_inv(S), 'table_inv')
    for p in cache_inv(S, inst=[S.sk(0)]):
        S.requires(p, 'cache_inv')


CACHE_STATE = ('derivative_coeffs_', 'derivative_coeffs_ready_') + TABLE_STATE


def value_is_piece_derivative(S, res, t, kk, label, lemma=True):
    """for every piece r that the half-open lookup designates for t:  res == d^k/dt^k piece_r (t - b_r)"""
    nc = nc_of(S)
    if S.mode == 'verify' and kk < nc and lemma:
        # calc step: the piece is unique (sortedness), so the skolem piece is the one the code used; proved as its own
        # obligation and then available as an equation, which keeps the polynomial goal a congruence
        S.ghost('exit', lambda G: G.lemma(implies((S.sk(0) >= 0) & (S.sk(0) < S.num_segments_) & seg_post(S, S.sk(0), t),
                                                  S.sk(0).eq(S.local('segment_idx'))), 'piece_is_unique'))
    D = S.cfg['DIM']
    C = S.v('coefficients_')
    bp = S.v('breakpoints_')
    n = S.num_segments_
    if kk >= nc:
        for d in range(D):
            S.ensures(res(d).eq(0), '%s_zero_beyond_degree_%d' % (label, d))
        return
    for d in range(D):
        S.ensures(S.forall(0, n, lambda r, d=d: implies(seg_post(S, r, t), res(d).eq(der(C, nc, r, kk, t - bp.at(r), d)))), '%s_%d' % (label, d))


def pinned_order(S, name='derivative_order'):
    k = getattr(S, name)
    if isinstance(k, E) and k.is_const():
        return int(k.cval())
    raise ValueError('%s must be pinned' % name)


@register
class Evaluate(Contract):
    key = 'PPolyND.evaluate'
    sig = ('double', 'int')

    def spec(self, S):
        kk = pinned_order(S)
        eval_requires(S)
        S.requires(E.const(kk) >= 0, 'order_nonnegative')
        S.terms(0, S.num_segments_ - 1, S.num_segments_, S.sk(0) + 1)
        S.assigns(*[S.v(x) for x in CACHE_STATE])
        value_is_piece_derivative(S, lambda d: S.result.at(d, 0), S.t, kk, 'value', lemma=(self.key == 'PPolyND.evaluate' and self.sig != ('double', 'Deriv')))
        S.ensures(table_inv(S), 'table')
        for p in cache_inv(S, inst=[S.sk(0)]):
            S.ensures(p, 'cache')


@register
class EvaluateHinted(Contract):
    key = 'PPolyND.evaluate'
    sig = ('double', 'int*', 'int')

    def spec(self, S):
        kk = pinned_order(S)
        nc = nc_of(S)
        h = S.v('last_idx_hint')
        eval_requires(S)
        S.requires(E.const(kk) >= 0, 'order_nonnegative')
        S.terms(0, S.num_segments_ - 1, S.num_segments_, S.sk(0) + 1)
        S.assigns(h.target, *[S.v(x) for x in CACHE_STATE])
        value_is_piece_derivative(S, lambda d: S.result.at(d, 0), S.t, kk, 'value')
        if kk < nc:
            S.ensures(implies(mk_not(h.null), seg_post(S, h.target.rd(), S.t)), 'hint_is_piece_used')
        S.ensures(table_inv(S), 'table')
        for p in cache_inv(S, inst=[S.sk(0)]):
            S.ensures(p, 'cache')


# ------------------------------------------------------------------------------------------------ C11 / C16: public (re)initialisation paths
def reinit_post(S):
    """what property C11/C16 need from every (re)initialisation path: verdict, contents, and no ready flag kept"""
    D = S.cfg['DIM']
    bp = S.v('breakpoints')
    acc = accept_cond(S)
    S.ensures(S.is_initialized_.eq(acc), 'accept_iff')
    S.ensures(implies(mk_not(acc), S.num_segments_.eq(0) & S.num_coeffs_.eq(0) & S.v('breakpoints_').size().eq(0)), 'rejected_is_empty')
    S.ensures(implies(acc, S.num_segments_.eq(bp.size() - 1) & S.num_coeffs_.eq(S.num_coefficients)), 'accepted_counts')
    for j, p in enumerate(same_contents_vec(S, S.v('breakpoints_'), bp)):
        S.ensures(_under(acc, p), 'accepted_breakpoints_%d' % j)
    for j, p in enumerate(same_contents_mat(S, S.v('coefficients_'), S.v('coefficients'), D)):
        S.ensures(_under(acc, p), 'accepted_coefficients_%d' % j)
    S.ensures(mk_not(S.derivative_coeffs_ready_), 'coeff_cache_invalidated')
    S.ensures(mk_not(S.derivative_factor_table_ready_), 'factor_table_invalidated')


def sizes_sane(S):
    bp = S.v('breakpoints')
    return (bp.size() >= 0) & (bp.size() <= (1 << 24) + 1) & (S.v("coefficients").R >= 0) & (S.num_coefficients >= -64) & (S.num_coefficients <= 64)


@register
class Update(Contract):
    key = 'PPolyND.update'

    def spec(self, S):
        S.requires(sizes_sane(S), 'sizes_sane')
        S.assigns(*[S.v(x) for x in PP_STATE])
        reinit_post(S)


@register
class Ctor3(Contract):
    key = 'PPolyND.ctor3'

    def applies(self, m, nparams):
        return nparams == 3

    def spec(self, S):
        # parameter of the constructor is called `order`
        S.ns['num_coefficients'] = S.ns['order']
        S.requires(sizes_sane(S), 'sizes_sane')
        S.assigns(*[S.v(x) for x in PP_STATE])
        reinit_post(S)


@register
class Ctor0(Contract):
    key = 'PPolyND.ctor0'

    def applies(self, m, nparams):
        return nparams == 0

    def spec(self, S):
        S.assigns(*[S.v(x) for x in PP_STATE])
        S.ensures(mk_not(S.is_initialized_) & S.num_segments_.eq(0) & S.num_coeffs_.eq(0), 'empty')
        S.ensures(mk_not(S.derivative_coeffs_ready_) & mk_not(S.derivative_factor_table_ready_), 'flags_clear')
        S.ensures(S.v('breakpoints_').size().eq(0), 'no_breakpoints')


@register
class InvalidateDerivativeCaches(Contract):
    key = 'PPolyND.invalidateDerivativeCaches'

    def spec(self, S):
        S.assigns(S.v('derivative_coeffs_'), S.v('derivative_coeffs_ready_'), *[S.v(x) for x in TABLE_STATE])
        S.ensures(mk_not(S.derivative_coeffs_ready_) & mk_not(S.derivative_factor_table_ready_), 'flags_clear')


@register
class EnsureDerivativeCoefficients(Contract):
    key = 'PPolyND.ensureDerivativeCoefficients'

    def spec(self, S):
        S.requires(ppoly_shape(S), 'shape')
        S.requires(coeff_shape(S), 'coeff_rows')
        S.requires(table_inv(S), 'table_inv')
        for p in cache_inv(S):
            S.requires(p, 'cache_inv')
        S.assigns(S.v('derivative_coeffs_'), S.v('derivative_coeffs_ready_'), *[S.v(x) for x in TABLE_STATE])
        S.ensures(S.derivative_coeffs_ready_, 'ready')
        S.ensures(table_inv(S), 'table')
        for p in cache_inv(S):
            S.ensures(p, 'cache')


# ------------------------------------------------------------------------------------------------ C20: sampling helpers and factories
EPS_END = Fraction(1, 10 ** 6)


@register
class GenerateTimeSequence(Contract):
    key = 'PPolyND.generateTimeSequence'
    nparams = 3

    def spec(self, S):
        S.i2r_axioms()
        s, e, dt = S.start_t, S.end_t, S.dt
        res = S.v('result')
        f = lambda k: E.idx('I2R', k, REAL)
        S.requires(dt > 0, 'positive_step')
        S.requires(e >= s, 'interval_not_reversed')
        S.requires((e - s) < dt * Fraction(1 << 24), 'step_count_fits')     # floor(duration/dt) is converted to int
        S.i2r_const(1 << 24)
        S.assigns()
        n = res.size()
        S.ensures(n >= 1, 'non_empty')
        S.ensures(res.at(0).eq(s), 'starts_at_start')
        S.ensures(S.forall(0, n - 1, lambda i: res.at(i).eq(s + f(i) * dt)), 'advances_by_step')
        S.ensures(S.forall(0, n - 1, lambda i: res.at(i) < res.at(i + 1)), 'strictly_increasing')
        S.ensures(S.forall(0, n, lambda i: res.at(i) <= e), 'no_sample_beyond_end')
        S.ensures((res.at(n - 1) <= e) & (e - res.at(n - 1) <= EPS_END), 'ends_within_1e-6_of_end')
        S.ensures(res.at(n - 1).eq(e) | res.at(n - 1).eq(s + f(n - 1) * dt), 'last_sample_is_the_end_or_a_grid_point')
        S.terms(0, -1, S.sk(0) + 1)
        seq = S.local('time_sequence') if S.mode == 'verify' else None
        S.loop(0, inv=lambda L: [
            ('range', (L.i >= 0) & (L.i <= L.num_steps + 1)),
            ('size', L.time_sequence.size().eq(L.i)),
            ('values', S.forall(0, L.i, lambda j: L.time_sequence.at(j).eq(s + f(j) * dt))),
        ], variant=lambda L: L.num_steps + 1 - L.i, terms=lambda L: [L.i, L.i - 1, L.num_steps, L.num_steps - 1, L.num_steps + 1])


@register
class EvaluateBatch(Contract):
    """batch evaluation = pointwise evaluation: every row j is the k-th derivative of the piece designated for t[j]"""
    key = 'PPolyND.evaluate'
    sig = ('vector', 'int')

    def spec(self, S):
        kk = pinned_order(S)
        nc = nc_of(S)
        D = S.cfg['DIM']
        C = S.v('coefficients_')
        bp = S.v('breakpoints_')
        n = S.num_segments_
        tv = S.v('t')
        eval_requires(S)
        S.requires(E.const(kk) >= 0, 'order_nonnegative')
        S.requires((tv.size() >= 0) & (tv.size() <= 1 << 24), 'size_sane')
        S.terms(0, n - 1, n, S.sk(1) + 1)
        S.assigns(*[S.v(x) for x in CACHE_STATE])
        res = S.v('result')
        S.ensures(res.R.eq(tv.size()), 'one_row_per_time')

        def rows_ok(M, hi):
            if kk >= nc:
                return S.forall(0, hi, lambda j: [M.at(j, d).eq(0) for d in range(D)])
            return S.forall(0, hi, lambda j: S.forall(0, n, lambda r: implies(seg_post(S, r, tv.at(j)),
                            conj([M.at(j, d).eq(der(C, nc, r, kk, tv.at(j) - bp.at(r), d)) for d in range(D)]))))
        S.ensures(rows_ok(res, tv.size()), 'rows_are_pointwise_values')
        S.ensures(table_inv(S), 'table')
        for p in cache_inv(S, inst=[S.sk(0)]):
            S.ensures(p, 'cache')
        S.loop(0, inv=lambda L: [
            ('range', (L.i >= 0) & (L.i <= tv.size())),
            ('rows', L.results.R.eq(L.i)),
            ('values', rows_ok(L.results, L.i)),
            ('table', table_inv(S)),
        ] + [('cache', p) for p in cache_inv(S, inst=[S.sk(0)])], variant=lambda L: tv.size() - L.i)


@register
class SegmentEvaluate(Contract):
    """Segment::evaluate(t, k) = k-th derivative of that piece at local time t (the route reached by operator[], at(), iteration)"""
    key = 'Segment.evaluate'
    sig = ('double', 'int')

    def spec(self, S):
        P = S.v('parent_').target
        PS = _sub(S, P)
        kk = pinned_order(S)
        nc = nc_of(PS)
        D = S.cfg['DIM']
        idx = S.idx_
        S.requires(mk_not(S.v('parent_').null()), 'parent_set')
        S.requires(ppoly_shape(PS), 'shape')
        S.requires(coeff_shape(PS), 'coeff_rows')
        S.requires(table_inv(PS), 'table_inv')
        for p in cache_inv(PS, inst=[S.sk(0), idx]):
            S.requires(p, 'cache_inv')
        S.requires((idx >= 0) & (idx < PS.num_segments_), 'index_in_range')
        S.terms(idx)
        S.assigns(*[PS.v(x) for x in CACHE_STATE])
        C = PS.v('coefficients_')
        for d in range(D):
            if kk < 0 or kk >= nc:
                S.ensures(S.result.at(d, 0).eq(0), 'zero_beyond_degree_%d' % d)
            else:
                S.ensures(S.result.at(d, 0).eq(der(C, nc, idx, kk, S.t, d)), 'value_%d' % d)


class _SubSpec(object):
    """view of a Spec whose namespace is the fields of another object (the parent of a Segment)"""

    def __init__(self, S, obj):
        self._S = S
        self._obj = obj
        self.cfg = obj.cfg
        self.mode = S.mode

    def v(self, name):
        return self._obj.fields[name]

    def __getattr__(self, name):
        obj = self.__dict__.get('_obj')
        if obj is not None and name in obj.fields:
            return self._S.wrap(obj.fields[name])
        return getattr(self._S, name)

    def forall(self, *a, **k):
        return self._S.forall(*a, **k)

    def sk(self, l=0):
        return self._S.sk(l)


def _sub(S, obj):
    return _SubSpec(S, obj)


# ------------------------------------------------------------------------------------------------ access routes (C03 / C16)
def _designates(seg_obj, parent_field, this):
    slot = seg_obj.fields[parent_field]
    return E.const(slot.target is this) & mk_not(slot.null())


@register
class OperatorIndex(Contract):
    key = 'PPolyND.operator[]'

    def spec(self, S):
        S.assigns()
        r = S.v('result')
        S.ensures(r.fields['idx_'].rd().eq(S.idx), 'index')
        S.ensures(_designates(r, 'parent_', S.v('this')), 'parent_is_this')


@register
class At(Contract):
    key = 'PPolyND.at'

    def spec(self, S):
        thrown = E.var('thrown', BOOL)
        S.requires(mk_not(thrown), 'no_pending_exception')
        S.assigns()
        bad = (S.idx < 0) | (S.idx >= S.num_segments_)
        S.ensures(thrown.eq(bad), 'throws_iff_out_of_range')
        r = S.v('result')
        S.ensures(implies(mk_not(bad), r.fields['idx_'].rd().eq(S.idx) & _designates(r, 'parent_', S.v('this'))), 'segment_of_index')


@register
class Begin(Contract):
    key = 'PPolyND.begin'

    def spec(self, S):
        S.assigns()
        r = S.v('result')
        S.ensures(r.fields['idx_'].rd().eq(0) & _designates(r, 'ptr_', S.v('this')), 'first')


@register
class End(Contract):
    key = 'PPolyND.end'

    def spec(self, S):
        S.assigns()
        r = S.v('result')
        S.ensures(r.fields['idx_'].rd().eq(S.num_segments_) & _designates(r, 'ptr_', S.v('this')), 'past_last')


@register
class IterDeref(Contract):
    key = 'ConstIterator.operator*'

    def spec(self, S):
        S.assigns()
        r = S.v('result')
        S.ensures(r.fields['idx_'].rd().eq(S.idx_), 'same_index')
        S.ensures(E.const(r.fields['parent_'].target is S.v('ptr_').target) & r.fields['parent_'].null().eq(S.v('ptr_').null()), 'same_parent')


@register
class IterIncr(Contract):
    key = 'ConstIterator.operator++'
    nparams = 0

    def spec(self, S):
        S.requires((S.idx_ >= -(1 << 30)) & (S.idx_ < (1 << 30)), 'index_sane')
        S.assigns(S.v('idx_'))
        S.ensures(S.idx_.eq(S.old.idx_ + 1), 'next_piece')


@register
class SegTimes(Contract):
    key = 'Segment.startTime'

    def spec(self, S):
        P = S.v('parent_').target
        S.requires(mk_not(S.v('parent_').null()), 'parent_set')
        S.assigns()
        S.ensures(S.result.eq(P.fields['breakpoints_'].at(S.idx_)), 'start')


@register
class SegEnd(Contract):
    key = 'Segment.endTime'

    def spec(self, S):
        P = S.v('parent_').target
        S.requires(mk_not(S.v('parent_').null()), 'parent_set')
        S.requires((S.idx_ >= 0) & (S.idx_ < (1 << 30)), 'index_sane')
        S.assigns()
        S.ensures(S.result.eq(P.fields['breakpoints_'].at(S.idx_ + 1)), 'end')


@register
class SegDuration(Contract):
    key = 'Segment.duration'

    def spec(self, S):
        P = S.v('parent_').target
        bp = P.fields['breakpoints_']
        S.requires(mk_not(S.v('parent_').null()), 'parent_set')
        S.requires((S.idx_ >= 0) & (S.idx_ < (1 << 30)), 'index_sane')
        S.assigns()
        S.ensures(S.result.eq(bp.at(S.idx_ + 1) - bp.at(S.idx_)), 'duration')


@register
class EvaluateDeriv(Contract):
    """the Deriv-enum overload forwards to the integer derivative order of the same value"""
    key = 'PPolyND.evaluate'
    sig = ('double', 'Deriv')

    def spec(self, S):
        kk = pinned_order(S, 'type')
        eval_requires(S)
        S.terms(0, S.num_segments_ - 1, S.num_segments_, S.sk(0) + 1)
        S.assigns(*[S.v(x) for x in CACHE_STATE])
        value_is_piece_derivative(S, lambda d: S.result.at(d, 0), S.t, kk, 'value', lemma=(self.key == 'PPolyND.evaluate' and self.sig != ('double', 'Deriv')))
        S.ensures(table_inv(S), 'table')
        for p in cache_inv(S, inst=[S.sk(0)]):
            S.ensures(p, 'cache')


@register
class Derivative(Contract):
    """derivative(k): the returned trajectory has the differentiated coefficients, hence evaluates (order 0) to the k-th
    derivative of the original (same spec function der)"""
    key = 'PPolyND.derivative'

    def spec(self, S):
        nc = nc_of(S)
        kk = pinned_order(S)
        D = S.cfg['DIM']
        n = S.num_segments_
        C = S.v('coefficients_')
        bp = S.v('breakpoints_')
        R = S.v('result')
        RC, Rbp = R.fields['coefficients_'], R.fields['breakpoints_']
        S.requires(ppoly_shape(S), 'shape')
        S.requires(coeff_shape(S), 'coeff_rows')
        S.requires(table_inv(S), 'table_inv')
        S.requires(E.const(kk) >= 0, 'order_nonnegative')
        S.assigns(*[S.v(x) for x in TABLE_STATE])
        S.ensures(table_inv(S), 'table')
        S.ensures(implies(n.eq(0), mk_not(R.fields['is_initialized_'].rd()) & R.fields['num_segments_'].rd().eq(0)), 'empty_gives_empty')
        no_flags = mk_not(R.fields['derivative_coeffs_ready_'].rd()) & mk_not(R.fields['derivative_factor_table_ready_'].rd())
        S.ensures(no_flags, 'fresh_caches')
        ok = n > 0
        new_nc = nc - kk if kk < nc else 1
        S.ensures(implies(ok, R.fields['is_initialized_'].rd() & R.fields['num_segments_'].rd().eq(n) & R.fields['num_coeffs_'].rd().eq(new_nc)), 'initialised')
        for j, p in enumerate(same_contents_vec(S, Rbp, bp)):
            S.ensures(_under(ok, p), 'same_breakpoints_%d' % j)
        S.ensures(implies(ok, RC.R.eq(n * new_nc)), 'rows')
        T = S.fresh_real('T')
        S.terms(*[S.sk(0) * new_nc + j for j in range(new_nc)])
        if kk < nc:
            S.ensures(S.forall(0, n, lambda s: [RC.at(s * new_nc + j, c).eq(Fraction(ff(j + kk, kk)) * C.at(s * nc + j + kk, c))
                                              for j in range(new_nc) for c in range(D)]), 'differentiated_coefficients')
            S.ensures(S.forall(0, n, lambda s: [der(RC, new_nc, s, 0, T, c).eq(der(C, nc, s, kk, T, c)) for c in range(D)]),
                      'order0_of_result_is_orderk_of_original')
        else:
            S.ensures(S.forall(0, n, lambda s: [RC.at(s, c).eq(0) for c in range(D)]), 'zero_beyond_degree')
        if kk < nc:
            S.loop(0, inv=lambda L: [
                ('range', (L.i >= 0) & (L.i <= n)),
                ('table', table_inv(S)),
                ('rows', L.new_coeffs.R.eq(n * new_nc)),
                ('filled', S.forall(0, L.i, lambda s: [L.new_coeffs.at(s * new_nc + j, c).eq(Fraction(ff(j + kk, kk)) * C.at(s * nc + j + kk, c))
                                                       for j in range(new_nc) for c in range(D)])),
            ], variant=lambda L: n - L.i)


@register
class ZeroFactory(Contract):
    key = 'PPolyND.zero'

    def spec(self, S):
        D = S.cfg['DIM']
        bp = S.v('breakpoints')
        ncf = S.num_coefficients
        R = S.v('result')
        RC, Rbp = R.fields['coefficients_'], R.fields['breakpoints_']
        S.requires((bp.size() >= 0) & (bp.size() <= 1 << 20) & (ncf >= 1) & (ncf <= 64), 'sizes_sane')
        order = S.cfg.get('ORDER')
        ok = bp.size() >= 2
        if order is not None:
            ok = ok & (ncf <= order)
        S.assigns()
        S.ensures(R.fields['is_initialized_'].rd().eq(ok), 'initialised_iff_two_breakpoints')
        for j, p in enumerate(same_contents_vec(S, Rbp, bp)):
            S.ensures(_under(ok, p), 'on_the_given_breakpoints_%d' % j)
        S.ensures(implies(ok, R.fields['num_coeffs_'].rd().eq(ncf) & R.fields['num_segments_'].rd().eq(bp.size() - 1)), 'counts')
        S.ensures(S.forall(0, RC.R, lambda r: implies(ok, conj([RC.at(r, c).eq(0) for c in range(D)]))), 'all_coefficients_zero')


@register
class ConstantFactory(Contract):
    key = 'PPolyND.constant'

    def spec(self, S):
        D = S.cfg['DIM']
        bp = S.v('breakpoints')
        cv = S.v('constant_value')
        R = S.v('result')
        RC, Rbp = R.fields['coefficients_'], R.fields['breakpoints_']
        S.requires((bp.size() >= 0) & (bp.size() <= 1 << 20), 'sizes_sane')
        ok = bp.size() >= 2
        S.assigns()
        S.ensures(R.fields['is_initialized_'].rd().eq(ok), 'initialised_iff_two_breakpoints')
        for j, p in enumerate(same_contents_vec(S, Rbp, bp)):
            S.ensures(_under(ok, p), 'on_the_given_breakpoints_%d' % j)
        S.ensures(implies(ok, R.fields['num_coeffs_'].rd().eq(1) & R.fields['num_segments_'].rd().eq(bp.size() - 1) & RC.R.eq(bp.size() - 1)), 'one_coefficient_per_piece')
        S.ensures(S.forall(0, bp.size() - 1, lambda r: implies(ok, conj([RC.at(r, c).eq(cv.at(c, 0)) for c in range(D)]))), 'every_piece_is_the_constant')
        S.loop(0, inv=lambda L: [
            ('range', (L.i >= 0) & (L.i <= L.num_segments)),
            ('rows', L.coeffs.R.eq(L.num_segments)),
            ('filled', S.forall(0, L.i, lambda r: [L.coeffs.at(r, c).eq(cv.at(c, 0)) for c in range(D)])),
        ], variant=lambda L: L.num_segments - L.i)


@register
class GenerateTimeSequence1(Contract):
    key = 'PPolyND.generateTimeSequence'
    nparams = 1

    def spec(self, S):
        # forwards to the three-argument form on [first breakpoint, last breakpoint]
        S.i2r_axioms()
        S.i2r_const(1 << 24)
        bp = S.v('breakpoints_')
        s, e, dt = bp.at(0), bp.at(bp.size() - 1), S.dt
        res = S.v('result')
        f = lambda k: E.idx('I2R', k, REAL)
        S.requires((bp.size() >= 1) & (dt > 0) & (e >= s) & ((e - s) < dt * Fraction(1 << 24)), 'preconditions_of_the_general_form')
        S.assigns()
        n = res.size()
        S.ensures((n >= 1) & res.at(0).eq(s), 'starts_at_trajectory_start')
        S.ensures((res.at(n - 1) <= e) & (e - res.at(n - 1) <= EPS_END), 'ends_within_1e-6_of_trajectory_end')
        S.ensures(S.forall(0, n - 1, lambda i: res.at(i) < res.at(i + 1)), 'strictly_increasing')


@register
class TrajectoryLength3(Contract):
    """getTrajectoryLength(start, end, dt): what is under contract is the frame (only the lazy caches may change, and they stay
    valid for the current coefficients), that every sample is evaluated through the contracts of generateTimeSequence and
    evaluate(t, Vel) (their preconditions are proved at the call sites for every iteration), and that the result is a sum of
    non-negative terms (speed >= 0 times a step of the strictly increasing sequence).  The value of the Riemann sum itself is
    not stated (see DESIGN s12.2, C20)."""
    key = 'PPolyND.getTrajectoryLength'
    nparams = 3

    def spec(self, S):
        S.i2r_axioms()
        S.i2r_const(1 << 24)
        s, e, dt = S.start_t, S.end_t, S.dt
        eval_requires(S)
        S.requires(dt > 0, 'positive_step')
        S.requires(e >= s, 'interval_not_reversed')
        S.requires((e - s) < dt * Fraction(1 << 24), 'step_count_fits')
        S.terms(0, S.num_segments_ - 1, S.num_segments_, S.sk(0) + 1)
        S.assigns(*[S.v(x) for x in CACHE_STATE])
        S.ensures(S.result >= 0, 'length_is_non_negative')
        S.ensures(implies(e.eq(s), S.result.eq(0)), 'empty_interval_has_zero_length')
        S.terms(1)
        S.ensures(table_inv(S), 'table')
        for p in cache_inv(S, inst=[S.sk(0)]):
            S.ensures(p, 'cache')
        S.loop(0, inv=lambda L: [
            ('range', (L.i >= 0) & (L.i <= L.time_sequence.size() - 1)),
            ('partial_sum_non_negative', L.total_length >= 0),
            ('nothing_added_on_an_empty_interval', implies(L.i.eq(0), L.total_length.eq(0))),

            ('table', table_inv(S)),
        ] + [('cache', p) for p in cache_inv(S, inst=[S.sk(0)])], variant=lambda L: L.time_sequence.size() - 1 - L.i,
            terms=lambda L: [L.i, L.i + 1])


@register
class TrajectoryLength1(Contract):
    """getTrajectoryLength(dt) forwards to the three-argument form on [first breakpoint, last breakpoint]"""
    key = 'PPolyND.getTrajectoryLength'
    nparams = 1

    def spec(self, S):
        S.i2r_axioms()
        S.i2r_const(1 << 24)
        bp = S.v('breakpoints_')
        s, e, dt = bp.at(0), bp.at(bp.size() - 1), S.dt
        eval_requires(S)
        S.requires((bp.size() >= 1) & (dt > 0) & (e >= s) & ((e - s) < dt * Fraction(1 << 24)), 'preconditions_of_the_general_form')
        S.terms(0, S.num_segments_ - 1, S.num_segments_, S.sk(0) + 1)
        S.assigns(*[S.v(x) for x in CACHE_STATE])
        S.ensures(S.result >= 0, 'length_is_non_negative')
        S.ensures(table_inv(S), 'table')
        for p in cache_inv(S, inst=[S.sk(0)]):
            S.ensures(p, 'cache')
