"""Contracts for gradient propagation (property C05): the adjoint-state equations of the spline construction map.

The construction map is   theta = (waypoints P, durations h, boundary states)  |->  C = F(theta, X(theta)),
where per segment the coefficients C_i are the first-principles Hermite coefficients of (P_i, P_i+1, X_i, X_i+1, h_i) and
the interior knot derivatives X solve the optimality rows R_k(theta, X) = 0 (k = interior knot - 1).  For an upstream
gradient g = dJ/dC, gT = dJ/dh the total derivative is, by the adjoint-state (Lagrange multiplier) theorem,

   (E1)  sum_k (dR_k/dX_m)^T lam_k  =  sum_i (dF_i/dX_m)^T g_i                      for every interior knot m
   (E2..E4)  dJ/dtheta  =  gT + sum_i (dF_i/dtheta)^T g_i  -  sum_k (dR_k/dtheta)^T lam_k

for SOME multipliers lam (existence of a solution of (E1) is all that matters; the witness is the code's workspace).
Every Jacobian entry on the right is obtained here by symbolic differentiation of the spec-side Hermite pieces and jump
conditions (speclib + BlockSpec); no constant of the adjoint code is copied.  The theorem itself is cited (DESIGN.md s5)."""
from splines import *
import ad
from expr import subst, free_vars

ZERO = E.const(Fraction(0))
ONE = E.const(Fraction(1))


def cell_key(e):
    if e.op == 'idx':
        return ('@', e.args[0], e.args[1].key())
    if e.op == 'var':
        return e.args[0]
    raise ValueError('not a cell: %r' % (e,))


class HermiteJac(object):
    """Jacobian of the 2s Hermite coefficients of one segment with respect to its end values, end derivatives and duration"""
    _cache = {}

    def __new__(cls, s):
        if s in cls._cache:
            return cls._cache[s]
        o = object.__new__(cls)
        cls._cache[s] = o
        b = s - 1
        o.s, o.b, o.nc = s, b, 2 * s
        v = lambda n: E.var('HS_' + n, REAL)
        o.P0, o.P1, o.IV = v('P0'), v('P1'), v('IV')
        o.X0 = [v('X0_%d' % j) for j in range(1, s)]
        o.X1 = [v('X1_%d' % j) for j in range(1, s)]
        o.c = hermite_coeffs(s, lambda p: power(o.IV, p), [o.P0] + o.X0, [o.P1] + o.X1)
        jac = lambda var: [ad.d_expr(cm, {var.args[0]: ONE}) for cm in o.c]
        o.dP0, o.dP1 = jac(o.P0), jac(o.P1)
        o.dX0 = [jac(x) for x in o.X0]
        o.dX1 = [jac(x) for x in o.X1]
        o.dH = [ad.d_expr(cm, {'HS_IV': -(o.IV * o.IV)}) for cm in o.c]        # d(1/h)/dh = -(1/h)^2
        return o

    def bind(self, e, P, X, iv, i, d):
        i = E.const(i)
        m = {'HS_P0': P.at(i, d), 'HS_P1': P.at(i + 1, d), 'HS_IV': iv}
        for j in range(1, self.s):
            m['HS_X0_%d' % j] = X[j].at(i, d)
            m['HS_X1_%d' % j] = X[j].at(i + 1, d)
        return subst(e, m)


class Adjoint(object):
    """spec-side terms of the adjoint-state equations for one spline class, bound to the storage of a Spec"""

    def __init__(self, S, cls, gC, gT):
        self.S, self.cls = S, cls
        self.s = ORDER_OF[cls]
        self.b = self.s - 1
        self.nc = 2 * self.s
        self.D = S.cfg['DIM']
        self.P = S.v('spatial_points_')
        self.X = [self.P] + [S.v(f) for f in KNOT_FIELDS.get(cls, [])]
        self.gC, self.gT = gC, gT
        self.HJ = HermiteJac(self.s)
        self.top = {2: 3, 3: 6, 4: 7}[self.s]

    def g(self, i, m, d):
        return self.gC.at(E.const(i) * self.nc + m, d)

    def iv(self, i):
        return tp_field(self.S, i, 'h_inv')

    def pull(self, J, i, d):
        """sum_m g(i,m) * dC_m/dvar  for segment i, coordinate d"""
        key = (id(J), E.const(i).key(), d)
        c = self.__dict__.setdefault('_pull', {})
        if key not in c:
            c[key] = self._pull_uncached(J, i, d)
        return c[key]

    def _pull_uncached(self, J, i, d):
        return esum([self.g(i, m, d) * self.HJ.bind(J[m], self.P, self.X, self.iv(i), i, d) for m in range(self.nc)])

    # pull-backs of the upstream coefficient gradient through one segment's Hermite closure
    def PBP0(self, i, d): return self.pull(self.HJ.dP0, i, d)
    def PBP1(self, i, d): return self.pull(self.HJ.dP1, i, d)
    def PBX0(self, i, j, d): return self.pull(self.HJ.dX0[j - 1], i, d)
    def PBX1(self, i, j, d): return self.pull(self.HJ.dX1[j - 1], i, d)
    def PBH(self, i, d): return self.pull(self.HJ.dH, i, d)

    def GX(self, m, j, d):
        """right-hand side of the adjoint system at interior knot m for unknown j (1 = velocity, 2 = acceleration, 3 = jerk)"""
        m = E.const(m)
        return self.PBX0(m, j, d) + self.PBX1(m - 1, j, d)

    # ---- optimality rows of block k (interior knot k+1) and their partial derivatives
    def rowjac(self, k, d):
        key = (E.const(k).key(), d)
        c = self.__dict__.setdefault('_rj', {})
        if key not in c:
            c[key] = RowJac(self, k, d)
        return c[key]


class RowJac(object):
    def __init__(self, A, k, d):
        S, cls = A.S, A.cls
        k = E.const(k)
        BS = BlockSpec(S, cls, k, d)
        b = A.b
        bind = {}
        for nm, kn in (('xp', k), ('xc', k + 1), ('xn', k + 2)):
            for j in range(b):
                bind['BX_%s_%d' % (nm, j)] = A.X[j + 1].at(kn, d)
        P = BS_P(S)
        self.L, self.D, self.U = BS.L, BS.D, BS.U
        self.rows = [subst(r, bind) for r in BS.rows]
        dd = lambda seeds: [subst(ad.d_expr(r, seeds), bind) for r in BS.rows]
        self.dP = [dd({cell_key(P.at(k + q, d)): ONE}) for q in range(3)]

        def hseeds(seg):
            out = {}
            for p in range(1, A.top + 1):
                f = tp_field(S, seg, 'h_inv' if p == 1 else 'h%d_inv' % p)
                nxt = tp_field(S, seg, 'h%d_inv' % (p + 1)) if p + 1 <= A.top else tp_field(S, seg, 'h%d_inv' % p) * tp_field(S, seg, 'h_inv')
                out[cell_key(f)] = -(E.const(Fraction(p)) * nxt)
            return out
        self.dhL = dd(hseeds(k))
        self.dhR = dd(hseeds(k + 1))


def BS_P(S):
    return S.v('spatial_points_') if S.has('spatial_points_') and not S.has('P') else S.v('P')


def vdot(a, b):
    return esum([x * y for x, y in zip(a, b)])


_ADJ = {}


def Tv(M, v):
    """M^T v"""
    n = len(M)
    return [esum([M[r][c] * v[r] for r in range(n)]) for c in range(len(M[0]))]


def adj_residuals(b, f, l, Dk, Lk, Up, Ln, Ik, Ip, Tk, Tp, g, yk, yp, lp, lk, ln):
    """residuals of the transposed-elimination facts for block k (f: first block, l: last block) and the adjoint row"""
    Z = [ZERO] * b
    ZM = [[ZERO] * b for _ in range(b)]
    Dt = Dk if f else msub(Dk, mm(Lk, mm(Ip, Up)))
    w = g if f else vsub(g, Tv(Up, yp))
    z1 = vsub(yk, Tv(Ik, w))
    z2 = vsub(lk, yk if l else vsub(yk, mv(Tk, ln)))
    z4 = Z if f else vsub(lp, vsub(yp, mv(Tp, lk)))
    Z3 = ZM if f else msub(Tp, tr_(mm(Lk, Ip)))
    Z3n = ZM if l else msub(Tk, tr_(mm(Ln, Ik)))
    Z5 = msub(tr_(mm(Ik, Dt)), ident(b))
    lnn = Z if l else Tv(Ln, ln)
    row = vsub([x + (ZERO if f else y) + z for x, y, z in zip(Tv(Dk, lk), Tv(Up, lp) if not f else Z, lnn)], g)
    return Dt, w, z1, z2, z4, Z3, Z3n, Z5, lnn, row


def adj_certificate(b, f, l):
    """pure lemma (polynomial identity):  row_k == D~^T (z1 + z2) + Z5 (w - L_next^T lam_next) - D~^T Z3n lam_next + U_prev^T z4 - U_prev^T Z3 lam_k"""
    key = (b, f, l)
    if key in _ADJ:
        return _ADJ[key]
    nbase = 8 * b * b + 6 * b
    n = nbase + 3 * b + 3 * b * b

    def split(a):
        a = list(a)
        pos = [0]

        def take(k):
            r = a[pos[0]:pos[0] + k]
            pos[0] += k
            return r
        mats = [unflat(take(b * b), b) for _ in range(8)]
        vecs = [take(b) for _ in range(6)]
        z1, z2, z4 = take(b), take(b), take(b)
        Z3, Z3n, Z5 = unflat(take(b * b), b), unflat(take(b * b), b), unflat(take(b * b), b)
        return mats + vecs, (z1, z2, z4, Z3, Z3n, Z5)

    def hyp(*a):
        base, (z1, z2, z4, Z3, Z3n, Z5) = split(a)
        Dt, w, e1, e2, e4, E3, E3n, E5, lnn, row = adj_residuals(b, f, l, *base)
        return conj(veq(z1, e1) + veq(z2, e2) + veq(z4, e4) + meq(Z3, E3) + meq(Z3n, E3n) + meq(Z5, E5))

    def concl(*a):
        base, (z1, z2, z4, Z3, Z3n, Z5) = split(a)
        Up = base[2]
        lk, ln = base[12], base[13]
        Dt, w, e1, e2, e4, E3, E3n, E5, lnn, row = adj_residuals(b, f, l, *base)
        rhs = [a1 + a2 - a3 + a4 - a5 for a1, a2, a3, a4, a5 in zip(
            mv(tr_(Dt), [x + y for x, y in zip(z1, z2)]), mv(Z5, vsub(w, lnn)), mv(tr_(Dt), mv(Z3n, ln)), Tv(Up, z4), Tv(Up, mv(Z3, lk)))]
        return conj([x.eq(y) for x, y in zip(row, rhs)])
    lem = PureLemma('adjoint_certificate_b%d_f%d_l%d' % (b, f, l), n, hyp, concl)
    _ADJ[key] = lem
    return lem


def make_adjoint_contracts(cls):
    s = ORDER_OF[cls]
    b = s - 1
    nc = 2 * s
    kf = KNOT_FIELDS[cls]
    BCN = ['v', 'a', 'j'][:b]

    class PropagateGradInternal(Contract):
        key = cls + '.propagateGradInternal'

        def spec(self, S):
            D = S.cfg['DIM']
            DS = dims(S)
            n = S.num_segments_
            nb = n - 1
            gC, gT = S.v('partialGradByCoeffs'), S.v('partialGradByTimes')
            GP, GT, SG, EG = S.v('innerPointsGrad'), S.v('gradByTimes'), S.v('startGrads'), S.v('endGrads')
            GD, LAM = S.v('ws_gd_internal_'), S.v('ws_lambda_')
            P = S.v('spatial_points_')
            A = Adjoint(S, cls, gC, gT)
            X = A.X
            Lc, Uc, Dinv, DTL = S.v('L_blocks_cache_'), S.v('U_blocks_cache_'), S.v('D_inv_cache_'), S.v('D_inv_T_mul_L_next_T_cache_')
            Lm = lambda i: mat_of(Lc, i, b)
            Um = lambda i: mat_of(Uc, i, b)
            Dm = lambda i: mat_of(Dinv, i, b)
            Tm = lambda i: mat_of(DTL, i, b)
            GDc = lambda r, j, d: GD.at(r, (j - 1) * D + d)
            lam = lambda k, d: [LAM.at(E.const(k) * b + r, d) for r in range(b)]
            # ---- a built spline (representation invariant established by update(): C01/C02)
            # ---- a built spline: exactly the representation invariant update() establishes (C01/C02: clause for clause, see the meta-check)
            for lab, p in built_invariant(S, cls):
                S.requires(p, 'built_' + lab)
            S.requires(gC.R.eq(nc * n) & gT.R.eq(n), 'one_upstream_row_per_coefficient_and_duration')
            factor_facts = lambda k: block_factor_facts(S, cls, k, DS[0])
            S.terms(0, 1, n, n - 1, n - 2, S.sk(0) - 1, S.sk(0) - 2, S.sk(0) + 1, S.sk(0) + 2)
            S.assigns(GP, GT, SG, EG, GD, LAM)
            # ---- shapes
            S.ensures(GT.R.eq(n) & GP.R.eq(ite(n > 1, n - 1, 0)), 'shapes')
            # ---- (E1) the multipliers solve the transposed optimality system
            def adjoint_row(k, j, d):
                k = E.const(k)
                RJ = A.rowjac(k, d)
                RJp = A.rowjac(k - 1, d)
                RJn = A.rowjac(k + 1, d)
                lhs = vdot([RJ.D[r][j - 1] for r in range(b)], lam(k, d))
                lhs_p = vdot([RJp.U[r][j - 1] for r in range(b)], lam(k - 1, d))
                lhs_n = vdot([RJn.L[r][j - 1] for r in range(b)], lam(k + 1, d))
                return lhs, lhs_p, lhs_n
            # names for the right-hand sides of the adjoint system (spec arrays over state the function does not assign)
            GXA = {}
            for d in DS:
                GXA[d] = {}
                for j in range(1, s):
                    acc, full = S.spec_array('GX_%d_%d' % (j, d))
                    fact = S.forall(0, n + 1, lambda m, j=j, d=d, acc=acc: [acc(m).eq(A.GX(m, j, d))])
                    S.definitions.append((full, [fact]))
                    (S.ensures if S.mode == 'call' else S.requires)(fact, 'def_GX_%d_%d' % (j, d))
                    GXA[d][j] = acc

            def e1_named(k, d):
                k = E.const(k)
                out = []
                for j in range(1, s):
                    lhs, lhs_p, lhs_n = adjoint_row(k, j, d)
                    out.append((lhs + ite(k > 0, lhs_p, 0) + ite(k < nb - 1, lhs_n, 0)).eq(GXA[d][j](k + 1)))
                return out

            def e1_rows(k, d):
                k = E.const(k)
                out = []
                for j in range(1, s):
                    lhs, lhs_p, lhs_n = adjoint_row(k, j, d)
                    out.append((lhs + ite(k > 0, lhs_p, 0) + ite(k < nb - 1, lhs_n, 0)).eq(A.GX(k + 1, j, d)))
                return out

            for d in DS:
                S.ensures(S.forall(0, nb, lambda k, d=d: e1_rows(k, d), inst=[S.sk(0), S.sk(0) - 1, S.sk(0) + 1]), 'multipliers_solve_the_transposed_optimality_system_%d' % d)
            # ---- (E2..E4) the returned gradients are the adjoint-state combination
            HL = lambda k, d: -vdot(lam(k, d), A.rowjac(k, d).dhL)
            HR = lambda k, d: -vdot(lam(k, d), A.rowjac(k, d).dhR)
            PQ = lambda k, q, d: -vdot(lam(k, d), A.rowjac(k, d).dP[q])
            PBHsum = lambda k: esum([A.PBH(k, d) for d in range(D)])

            def times_at(k, done):
                """duration gradient of segment k after the blocks < done have been processed"""
                k = E.const(k)
                return gT.at(k, 0) + PBHsum(k) + esum([ite((k < done) & (k < nb), HL(k, d), 0) + ite((k >= 1) & (k - 1 < done), HR(k - 1, d), 0) for d in range(D)])

            def inner_at(r, d, done):
                r = E.const(r)
                return (A.PBP0(r, d) + A.PBP1(r - 1, d) + ite((r >= 2) & (r - 2 < done), PQ(r - 2, 2, d), 0) + ite(r - 1 < done, PQ(r - 1, 1, d), 0)
                        + ite(r < done, PQ(r, 0, d), 0))
            start_p_at = lambda d, done: A.PBP0(0, d) + ite(E.const(done) > 0, PQ(0, 0, d), 0)
            end_p_at = lambda d, done: A.PBP1(n - 1, d) + ite((nb > 0) & E.const(done).eq(nb), PQ(nb - 1, 2, d), 0)
            S.ensures(S.forall(0, n, lambda k: [GT.at(k, 0).eq(times_at(k, nb))], inst=[S.sk(0), S.sk(0) - 1, S.sk(0) + 1]), 'duration_gradient_is_adjoint_state_combination')
            for d in DS:
                S.ensures(S.forall(1, n, lambda r, d=d: [GP.at(r - 1, d).eq(inner_at(r, d, nb))], inst=[S.sk(0), S.sk(0) - 1, S.sk(0) - 2, S.sk(0) + 1]), 'inner_point_gradient_is_adjoint_state_combination_%d' % d)
                S.ensures(SG.fields['p'].at(d, 0).eq(start_p_at(d, nb)) & EG.fields['p'].at(d, 0).eq(end_p_at(d, nb)), 'end_point_gradients_are_adjoint_state_combination_%d' % d)
                for j, nm in enumerate(BCN, 1):
                    L0 = A.rowjac(0, d).L
                    Ul = A.rowjac(nb - 1, d).U
                    S.ensures(SG.fields[nm].at(d, 0).eq(A.PBX0(0, j, d) - ite(nb > 0, vdot([L0[r][j - 1] for r in range(b)], lam(0, d)), 0)), 'start_%s_gradient_%d' % (nm, d))
                    S.ensures(EG.fields[nm].at(d, 0).eq(A.PBX1(n - 1, j, d) - ite(nb > 0, vdot([Ul[r][j - 1] for r in range(b)], lam(nb - 1, d)), 0)), 'end_%s_gradient_%d' % (nm, d))
            self.A = A
            if S.mode != 'verify':
                return
            # =========================================================================== phase A: per-segment pull-backs
            def gd_full(r, d):
                return [GDc(r, j, d).eq(A.PBX0(r, j, d) + A.PBX1(r - 1, j, d)) for j in range(1, s)]

            def inner_full(r, d):
                return [GP.at(r - 1, d).eq(A.PBP0(r, d) + A.PBP1(r - 1, d))]
            PBHsum = lambda k: esum([A.PBH(k, d) for d in range(D)])

            def loop0_inv(L):
                i = L.i
                out = [('range', (i >= 0) & (i <= n)), ('shapes', GD.R.eq(n + 1) & GT.R.eq(n) & GP.R.eq(ite(n > 1, n - 1, 0)))]
                for d in DS:
                    out.append(('gd_first_%d' % d, implies(i > 0, conj([GDc(0, j, d).eq(A.PBX0(0, j, d)) for j in range(1, s)]))))
                    out.append(('gd_done_%d' % d, S.forall(1, i, lambda r, d=d: gd_full(r, d))))
                    out.append(('gd_half_%d' % d, implies(i > 0, conj([GDc(i, j, d).eq(A.PBX1(i - 1, j, d)) for j in range(1, s)]))))
                    out.append(('gd_zero_at_i_%d' % d, implies(i.eq(0), conj([GDc(0, j, d).eq(0) for j in range(1, s)]))))
                    out.append(('gd_untouched_%d' % d, S.forall(i + 1, n + 1, lambda r, d=d: [GDc(r, j, d).eq(0) for j in range(1, s)])))
                    out.append(('start_p_%d' % d, SG.fields['p'].at(d, 0).eq(ite(i > 0, A.PBP0(0, d), 0))))
                    out.append(('end_p_%d' % d, EG.fields['p'].at(d, 0).eq(ite(i.eq(n), A.PBP1(n - 1, d), 0))))
                    out.append(('inner_done_%d' % d, S.forall(1, i, lambda r, d=d: inner_full(r, d))))
                    out.append(('inner_half_%d' % d, implies((i > 0) & (i < n), GP.at(i - 1, d).eq(A.PBP1(i - 1, d)))))
                    out.append(('inner_untouched_%d' % d, S.forall(i + 1, n, lambda r, d=d: [GP.at(r - 1, d).eq(0)])))
                    for nm in BCN:
                        out.append(('boundary_%s_zero_%d' % (nm, d), SG.fields[nm].at(d, 0).eq(0) & EG.fields[nm].at(d, 0).eq(0)))
                out.append(('times_done', S.forall(0, i, lambda k: [GT.at(k, 0).eq(gT.at(k, 0) + PBHsum(k))])))
                out.append(('times_untouched', S.forall(i, n, lambda k: [GT.at(k, 0).eq(gT.at(k, 0))])))
                return out

            SP0 = dict((d, S.fresh_real('start_p_in_%d' % d)) for d in DS)

            def loop0_pre(L):
                i = L.i
                out = [('tp', conj(tp_ok(S, i, cls))), ('pd', conj([S.v('point_diffs_').at(i, d).eq(P.at(i + 1, d) - P.at(i, d)) for d in range(D)])),
                       ('i', (i >= 0) & (i < n) & L.n.eq(n)), ('t_in', GT.at(i, 0).eq(gT.at(i, 0)))]
                for d in DS:
                    out.append(('gd_in_%d' % d, conj([GDc(i, j, d).eq(ite(i > 0, A.PBX1(i - 1, j, d), 0)) & GDc(i + 1, j, d).eq(0) for j in range(1, s)])))
                    out.append(('p_in_%d' % d, SG.fields['p'].at(d, 0).eq(SP0[d]) & EG.fields['p'].at(d, 0).eq(0)))
                    out.append(('inner_in_%d' % d, implies((i > 0) & (i < n), GP.at(i - 1, d).eq(A.PBP1(i - 1, d))) & implies(i + 1 < n, GP.at(i, d).eq(0))))
                return out

            def loop0_post(L):
                i = L.i
                out = [('t_out', GT.at(i, 0).eq(gT.at(i, 0) + PBHsum(i)))]
                for d in DS:
                    for j in range(1, s):
                        out.append(('gd_out_%d_%d' % (j, d), GDc(i, j, d).eq(A.PBX0(i, j, d) + ite(i > 0, A.PBX1(i - 1, j, d), 0)) & GDc(i + 1, j, d).eq(A.PBX1(i, j, d))))
                    out.append(('start_p_out_%d' % d, SG.fields['p'].at(d, 0).eq(SP0[d] + ite(i.eq(0), A.PBP0(i, d), 0))))
                    out.append(('end_p_out_%d' % d, EG.fields['p'].at(d, 0).eq(ite((i + 1).eq(n), A.PBP1(i, d), 0))))
                    out.append(('inner_out_%d' % d, implies((i > 0) & (i < n), GP.at(i - 1, d).eq(A.PBP0(i, d) + A.PBP1(i - 1, d))) &
                                implies(i + 1 < n, GP.at(i, d).eq(A.PBP1(i, d)))))
                return out
            S.loop(0, inv=loop0_inv, variant=lambda L: n - L.i, terms=lambda L: [L.i, L.i - 1, L.i + 1],
                   local=dict(pre=loop0_pre, post=loop0_post, names=lambda L: [(SP0[d], SG.fields['p'].at(d, 0)) for d in DS],
                              cases=[('first_last', lambda L: L.i.eq(0) & (L.i + 1).eq(n)), ('first', lambda L: L.i.eq(0) & (L.i + 1 < n)),
                                     ('last', lambda L: (L.i > 0) & (L.i + 1).eq(n)), ('middle', lambda L: (L.i > 0) & (L.i + 1 < n))]))
            ORD = {'QuinticSplineND': (1, 2, 3, 4), 'SepticSplineND': (2, 3, 4, 5)}[cls]
            o_copy, o_fwd, o_bwd, o_b = ORD
            gxv = lambda m, d: [GXA[d][j](m) for j in range(1, s)]
            YS, YSname = S.spec_array('YS_%d' % DS[0])
            ysv = lambda k, d: [YS(E.const(k) * b + r) for r in range(b)]
            lam_shape = lambda: LAM.R.eq(nb * b) & (nb > 0)
            gd_named = lambda: [('gd_named_%d' % d, S.forall(1, n, lambda r, d=d: [GDc(r, j, d).eq(GXA[d][j](r)) for j in range(1, s)])) for d in DS]
            def gd_named_proof(G):
                r = S.sk(0)
                inr = (r >= 1) & (r < n)
                for d in DS:
                    G.abstract_lemma('gd_is_rhs_%d' % d, [implies(inr, x) for x in gd_full(r, d)] + [implies(inr, GXA[d][j](r).eq(A.GX(r, j, d))) for j in range(1, s)],
                                     [implies(inr, GDc(r, j, d).eq(GXA[d][j](r))) for j in range(1, s)])
            S.ghost('loop0.after', gd_named_proof)
            S.ghost('loop0.after', lambda G: [G.lemma(GDc(n, j, d).eq(A.PBX1(n - 1, j, d)) & GDc(0, j, d).eq(A.PBX0(0, j, d)), 'gd_end_rows_%d_%d' % (j, d))
                                              for d in DS for j in range(1, s)] and None)
            # ---- copy of the right-hand sides
            S.loop(o_copy, inv=lambda L: [('range', (L.i >= 0) & (L.i <= nb)), ('shape', lam_shape() & L.num_blocks.eq(nb) & GD.R.eq(n + 1))] + gd_named() +
                   [('copied_%d' % d, S.forall(0, L.i, lambda k, d=d: veq(lam(k, d), gxv(k + 1, d)))) for d in DS],
                   variant=lambda L: nb - L.i, terms=lambda L: [L.i, L.i + 1])
            # ---- forward elimination with the transposed cached blocks
            def yfact(vec, k, d, first, rhs=None):
                k = E.const(k)
                g = rhs if rhs is not None else gxv(k + 1, d)
                w = g if first else vsub(g, Tv(Um(k - 1), vec(k - 1, d)))
                return veq(vec(k, d), Tv(Dm(k), w))
            YIN = dict((d, [S.fresh_real('y_in_%d_%d' % (d, r)) for r in range(b)]) for d in DS)
            S.loop(o_fwd, inv=lambda L: [('range', (L.i >= 0) & (L.i <= nb - 1)), ('shape', lam_shape() & L.num_blocks.eq(nb))] +
                   [('y_first_%d' % d, conj(yfact(lam, 0, d, True))) for d in DS] +
                   [('y_done_%d' % d, S.forall(1, L.i + 1, lambda k, d=d: yfact(lam, k, d, False))) for d in DS] +
                   [('y_todo_%d' % d, S.forall(L.i + 1, nb, lambda k, d=d: veq(lam(k, d), gxv(k + 1, d)))) for d in DS],
                   variant=lambda L: nb - 1 - L.i, terms=lambda L: [L.i, L.i + 1, L.i + 2],
                   local=dict(names=lambda L: [(YIN[d][r], lam(L.i + 1, d)[r]) for d in DS for r in range(b)],
                              pre=lambda L: [('k', (L.i >= 0) & (L.i < nb - 1))],
                              post=lambda L: [('y_%d_%d' % (d, j), x) for d in DS for j, x in enumerate(yfact(lam, L.i + 1, d, False, rhs=YIN[d]))]))
            # ---- back substitution; YS names the workspace after the forward pass
            S.ghost('loop%d.before' % o_bwd, lambda G: G.copy_array(YSname, LAM.col(DS[0])))

            def lfact(k, d, last, base=None):
                k = E.const(k)
                y = base if base is not None else ysv(k, d)
                return veq(lam(k, d), y if last else vsub(y, mv(Tm(k), lam(k + 1, d))))
            LIN = dict((d, [S.fresh_real('l_in_%d_%d' % (d, r)) for r in range(b)]) for d in DS)
            S.loop(o_bwd, inv=lambda L: [('range', (L.i >= -1) & (L.i <= nb - 2)), ('shape', lam_shape() & L.num_blocks.eq(nb))] +
                   [('ys_first_%d' % d, conj(yfact(ysv, 0, d, True))) for d in DS] +
                   [('ys_%d' % d, S.forall(1, nb, lambda k, d=d: yfact(ysv, k, d, False))) for d in DS] +
                   [('l_last_%d' % d, conj(lfact(nb - 1, d, True))) for d in DS] +
                   [('l_done_%d' % d, S.forall(L.i + 1, nb - 1, lambda k, d=d: lfact(k, d, False))) for d in DS] +
                   [('l_todo_%d' % d, S.forall(0, L.i + 1, lambda k, d=d: veq(lam(k, d), ysv(k, d)))) for d in DS],
                   variant=lambda L: L.i + 1, terms=lambda L: [L.i, L.i + 1, L.i + 2],
                   local=dict(names=lambda L: [(LIN[d][r], lam(L.i, d)[r]) for d in DS for r in range(b)],
                              pre=lambda L: [('k', (L.i >= 0) & (L.i < nb - 1))],
                              post=lambda L: [('l_%d_%d' % (d, j), x) for d in DS for j, x in enumerate(lfact(L.i, d, False, base=LIN[d]))]))

            # ---- (E1) from the elimination facts, by the transposed-elimination certificate
            def cached_facts(k, case):
                """cached blocks of block k are the spec blocks; pivot inverse; product block (syntactically the required facts)"""
                f, l = case
                k = E.const(k)
                RJ = A.rowjac(k, DS[0])
                out = meq(Lm(k), RJ.L) + meq(Um(k), RJ.U)
                Dt = RJ.D if f else msub(RJ.D, mm(Lm(k), mm(Dm(k - 1), Um(k - 1))))
                out += meq(mm(Dm(k), Dt), ident(b))
                if not f:
                    out += meq(Tm(k - 1), tr_(mm(Lm(k), Dm(k - 1))))
                return out

            def e1_proof(G):
                k = S.sk(0)
                inr = (k >= 0) & (k < nb)
                for d in DS:
                    for f in (1, 0):
                        for l in (1, 0):
                            guard = inr & (k.eq(0) if f else k > 0) & (k.eq(nb - 1) if l else k < nb - 1)
                            facts = cached_facts(k, (f, l))
                            if not l:
                                facts += cached_facts(k + 1, (0, 0))
                            if not f:
                                facts += meq(Um(k - 1), A.rowjac(k - 1, d).U)
                            facts += yfact(ysv, k, d, f) + lfact(k, d, l) + ([] if f else lfact(k - 1, d, False))
                            base = [A.rowjac(k, d).D, Lm(k), Um(k - 1), Lm(k + 1), Dm(k), Dm(k - 1), Tm(k), Tm(k - 1),
                                    gxv(k + 1, d), ysv(k, d), ysv(k - 1, d), lam(k - 1, d), lam(k, d), lam(k + 1, d)]
                            Dt, w, e1, e2, e4, E3, E3n, E5, lnn, row = adj_residuals(b, f, l, *base)
                            zs = []
                            for nm, vals in (('z1', e1), ('z2', e2), ('z4', e4), ('Z3', flat(E3)), ('Z3n', flat(E3n)), ('Z5', flat(E5))):
                                for j_, v in enumerate(vals):
                                    z = S.fresh_real('%s_%d%d%d_%d' % (nm, d, f, l, j_))
                                    G.set(LV(z.args[0], REAL), v)
                                    zs.append(z)
                            lem = adj_certificate(b, f, l)
                            args = [x for M in base[:8] for x in flat(M)] + [x for v in base[8:] for x in v] + zs
                            G.use(lem, *args)
                            defs = [z.eq(v) for z, v in zip(zs, e1 + e2 + e4 + flat(E3) + flat(E3n) + flat(E5))]
                            cert = implies(lem.hyp(*args), lem.concl(*args))
                            G.abstract_lemma('adjoint_system_%d_f%d_l%d' % (d, f, l), [implies(guard, x) for x in facts] + defs + [cert],
                                             [implies(guard, x) for x in e1_named(k, d)])
            S.ghost('loop%d.after' % o_bwd, e1_proof)
            # =========================================================================== phase B: multiplier terms
            NM = {}
            for nm_ in ['t0', 't1', 'sp', 'ep'] + ['pm_%d' % d for d in range(D)] + ['pp_%d' % d for d in range(D)] + ['pn_%d' % d for d in range(D)]:
                NM[nm_] = S.fresh_real('b_in_' + nm_)

            # names for the (large, nonlinear) terms, so that the bookkeeping over segments is linear arithmetic:
            # HLA/HRA/PQA name multiplier terms (over the workspace as it stands from here on: nothing below assigns it),
            # PHA/P0A/P1A name pull-backs (over state the function never assigns)
            mk = lambda nm: S.spec_array(nm)[0]
            HLA, HRA, PHA = mk('HLA'), mk('HRA'), mk('PHA')
            PQA = dict(((q, d), mk('PQA_%d_%d' % (q, d))) for q in range(3) for d in DS)
            P0A = dict((d, mk('P0A_%d' % d)) for d in DS)
            P1A = dict((d, mk('P1A_%d' % d)) for d in DS)

            def naming():
                out = [('name_hl', S.forall(0, nb, lambda k: [HLA(k).eq(esum([HL(k, d) for d in range(D)])), HRA(k).eq(esum([HR(k, d) for d in range(D)]))])),
                       ('name_ph', S.forall(0, n, lambda k: [PHA(k).eq(PBHsum(k))]))]
                for d in DS:
                    out.append(('name_pq_%d' % d, S.forall(0, nb, lambda k, d=d: [PQA[(q, d)](k).eq(PQ(k, q, d)) for q in range(3)])))
                    out.append(('name_pp_%d' % d, S.forall(0, n, lambda k, d=d: [P0A[d](k).eq(A.PBP0(k, d)), P1A[d](k).eq(A.PBP1(k, d))])))
                return out

            def times_named(k, done):
                k = E.const(k)
                return gT.at(k, 0) + PHA(k) + ite((k < done) & (k < nb), HLA(k), 0) + ite((k >= 1) & (k - 1 < done), HRA(k - 1), 0)

            def inner_named(r, d, done):
                r = E.const(r)
                return (P0A[d](r) + P1A[d](r - 1) + ite((r >= 2) & (r - 2 < done), PQA[(2, d)](r - 2), 0) + ite(r - 1 < done, PQA[(1, d)](r - 1), 0)
                        + ite(r < done, PQA[(0, d)](r), 0))
            S.ghost('loop%d.before' % o_b, lambda G: [G.assume_fact(q, 'naming ' + lab) for lab, q in naming()] and None)

            def loopb_inv(L):
                i = L.i
                out = [('range', (i >= 0) & (i <= nb)), ('shape', lam_shape() & L.num_blocks.eq(nb) & GT.R.eq(n) & GP.R.eq(n - 1) & L.n.eq(n))]
                out += naming()
                out.append(('times', S.forall(0, n, lambda k: [GT.at(k, 0).eq(times_named(k, i))])))
                for d in DS:
                    out.append(('inner_%d' % d, S.forall(1, n, lambda r, d=d: [GP.at(r - 1, d).eq(inner_named(r, d, i))])))
                    out.append(('ends_%d' % d, SG.fields['p'].at(d, 0).eq(P0A[d](0) + ite(i > 0, PQA[(0, d)](0), 0)) &
                                EG.fields['p'].at(d, 0).eq(P1A[d](n - 1) + ite(i.eq(nb), PQA[(2, d)](nb - 1), 0))))
                    out.append(('adjoint_system_%d' % d, S.forall(0, nb, lambda k, d=d: e1_named(k, d))))
                return out

            def loopb_names(L):
                i = L.i
                out = [(NM['t0'], GT.at(i, 0)), (NM['t1'], GT.at(i + 1, 0))]
                for d in DS:
                    out += [(NM['pm_%d' % d], GP.at(i, d)), (NM['pp_%d' % d], ite(i.eq(0), SG.fields['p'].at(d, 0), GP.at(i - 1, d))),
                            (NM['pn_%d' % d], ite((i + 2).eq(n), EG.fields['p'].at(d, 0), GP.at(i + 1, d)))]
                return out

            def loopb_pre(L):
                i = L.i
                out = [('k', (i >= 0) & (i < nb) & L.n.eq(n)), ('tp', conj(tp_ok(S, i, cls) + tp_ok(S, i + 1, cls))),
                       ('pd', conj([S.v('point_diffs_').at(i + q, d).eq(P.at(i + q + 1, d) - P.at(i + q, d)) for d in range(D) for q in (0, 1)]))]
                return out

            def loopb_post(L):
                i = L.i
                out = [('t0', GT.at(i, 0).eq(NM['t0'] + esum([HL(i, d) for d in range(D)]))), ('t1', GT.at(i + 1, 0).eq(NM['t1'] + esum([HR(i, d) for d in range(D)])))]
                for d in DS:
                    out.append(('p_mid_%d' % d, GP.at(i, d).eq(NM['pm_%d' % d] + PQ(i, 1, d))))
                    out.append(('p_prev_%d' % d, ite(i.eq(0), SG.fields['p'].at(d, 0), GP.at(i - 1, d)).eq(NM['pp_%d' % d] + PQ(i, 0, d))))
                    out.append(('p_next_%d' % d, ite((i + 2).eq(n), EG.fields['p'].at(d, 0), GP.at(i + 1, d)).eq(NM['pn_%d' % d] + PQ(i, 2, d))))
                return out
            def tail_proof(G):
                for d in DS:
                    for j, nm in enumerate(BCN, 1):
                        L0 = A.rowjac(0, d).L
                        Ul = A.rowjac(nb - 1, d).U
                        cs = vdot([Lm(0)[r][j - 1] for r in range(b)], lam(0, d))
                        ce = vdot([Um(nb - 1)[r][j - 1] for r in range(b)], lam(nb - 1, d))
                        hyps = [SG.fields[nm].at(d, 0).eq(GDc(0, j, d) - ite(nb > 0, cs, 0)), EG.fields[nm].at(d, 0).eq(GDc(n, j, d) - ite(nb > 0, ce, 0)),
                                GDc(0, j, d).eq(A.PBX0(0, j, d)), GDc(n, j, d).eq(A.PBX1(n - 1, j, d))]
                        hyps += [implies(nb > 0, x) for x in meq(Lm(0), L0) + meq(Um(nb - 1), Ul)]
                        G.abstract_lemma('boundary_%s_%d' % (nm, d), hyps,
                                         [SG.fields[nm].at(d, 0).eq(A.PBX0(0, j, d) - ite(nb > 0, vdot([L0[r][j - 1] for r in range(b)], lam(0, d)), 0)),
                                          EG.fields[nm].at(d, 0).eq(A.PBX1(n - 1, j, d) - ite(nb > 0, vdot([Ul[r][j - 1] for r in range(b)], lam(nb - 1, d)), 0))])
            S.ghost('exit', tail_proof)

            def unfold_inner(G):
                r = S.sk(0)
                inr = (r >= 1) & (r < n)
                for d in DS:
                    hyps = [implies(inr, GP.at(r - 1, d).eq(inner_named(r, d, nb)))]
                    hyps += [implies(inr, P0A[d](r).eq(A.PBP0(r, d)) & P1A[d](r - 1).eq(A.PBP1(r - 1, d)))]
                    for q, off in ((2, 2), (1, 1), (0, 0)):
                        kk = r - off
                        hyps.append(implies(inr & (kk >= 0) & (kk < nb), PQA[(q, d)](kk).eq(PQ(kk, q, d))))
                    G.abstract_lemma('unfold_inner_%d' % d, hyps, [implies(inr, GP.at(r - 1, d).eq(inner_at(r, d, nb)))])
            S.ghost('exit', unfold_inner)
            S.loop(o_b, inv=loopb_inv, variant=lambda L: nb - L.i, terms=lambda L: [L.i, L.i - 1, L.i + 1, L.i + 2],
                   local=dict(names=loopb_names, pre=loopb_pre, post=loopb_post,
                              cases=[('first_last', lambda L: L.i.eq(0) & (L.i + 2).eq(n)), ('first', lambda L: L.i.eq(0) & (L.i + 2 < n)),
                                     ('last', lambda L: (L.i > 0) & (L.i + 2).eq(n)), ('middle', lambda L: (L.i > 0) & (L.i + 2 < n))]))

    PropagateGradInternal.__name__ = cls + 'PropagateGradInternal'
    register(PropagateGradInternal)
    return PropagateGradInternal


for _c in KNOT_FIELDS:
    make_adjoint_contracts(_c)


# ================================================================================================ analytic energy gradients (C06 ii)
# For the energy J = E the right-hand side of the adjoint system is, knot by knot, a multiple of the jump of a derivative of
# order s..2s-2 (first variation of the integral with respect to end data = boundary terms), which vanishes by the optimality
# conditions (C02).  Hence lam = 0 solves (E1) and the total derivative is the direct part of (E2..E4):
#      dE/dh_i = dE/dT_i|_C + sum_m dE/dc_im * dc_im/dh_i,   dE/dP_j = pull-backs of the two adjacent segments,   etc.
# with dE/dc the partial derivatives of the spec energy integral.  Each of these is a per-segment identity.
class SpecColumns(object):
    """a matrix-like view of per-coordinate specification arrays: at(row, d)"""

    def __init__(self, accs, rows):
        self.accs, self.R = accs, rows

    def at(self, r, d):
        return self.accs[d](E.const(r))


class EnergyAdjoint(Adjoint):
    def __init__(self, S, cls):
        Adjoint.__init__(self, S, cls, None, None)
        self.C = S.v('coeffs_')
        if cls == 'CubicSplineND':
            # the cubic class stores knot second derivatives; the Hermite parametrisation needs the knot slopes, which are named
            # here: VK[k] = slope of piece k at its left end (k < n), of the last piece at its right end (k = n)
            n = S.num_segments_
            accs = {}
            for d in dims(S):
                acc, full = S.spec_array('VK_%d' % d)
                facts = [S.forall(0, n, lambda k, d=d, acc=acc: [acc(k).eq(self.C.at(k * 4 + 1, d))]),
                         acc(n).eq(der(self.C, 4, n - 1, 1, tp_field(S, n - 1, 'h'), d))]
                S.definitions.append((full, facts))
                for j, f in enumerate(facts):
                    (S.ensures if S.mode == 'call' else S.requires)(f, 'def_knot_slopes_%d_%d' % (d, j))
                accs[d] = acc
            self.X = [self.P, SpecColumns(accs, n + 1)]
            self.T = lambda i: tp_field(S, i, 'h')
        else:
            self.T = lambda i: S.v('time_segments_').at(i)

    def seg_total_d(self, i, d):
        return seg_energy(self.C, self.nc, i, self.s, self.T(i), d)

    def g(self, i, m, d):
        i = E.const(i)
        return d_wrt_cell(self.seg_total_d(i, d), self.C.at(i * self.nc + m, d))

    def dEdT(self, i):
        i = E.const(i)
        return esum([d_wrt_cell(self.seg_total_d(i, d), self.T(i)) for d in range(self.D)])


def make_energy_grad_contracts(cls):
    s = ORDER_OF[cls]
    b = s - 1
    nc = 2 * s
    BCN = ['v', 'a', 'j'][:b]
    cubic = cls == 'CubicSplineND'

    def built(S, A):
        """a built spline: clause for clause what update() ensures (C01/C02) -- the representation invariant, the published facts
        about the coefficients, and the published trajectory (for code that reads it instead of coeffs_)"""
        n = S.num_segments_
        for lab, p in built_invariant(S, cls):
            S.requires(p, 'built_' + lab)
        pub = dict(published(S, cls))
        need = ['one_coefficient_block_per_segment']
        for d in dims(S):
            need += ['interpolates_left_end_%d' % d, 'interpolates_right_end_%d' % d, 'continuous_derivative_1_%d' % d] if cubic else ['hermite_coefficients_%d' % d]
        for lab in need:
            S.requires(pub[lab], 'published_' + lab)
        for label, p in published(S, cls):
            if label.startswith('trajectory_') or label.startswith('knot_times') or label == 'segment_count':
                S.requires(p, 'published_' + label)
        if cubic:
            # the Hermite form over the named knot slopes is derived from the published interpolation and slope-continuity facts
            seg = S.v('time_segments_')
            hseg = lambda i: seg.at(i)
            S.terms(S.sk(0) + 1, n - 1, n)
            if S.mode == 'verify':
                def derive(G):
                    i = S.sk(0)
                    inr = (i >= 0) & (i < n)
                    V = A.X[1]
                    hyps = [implies(inr, x) for x in tp_ok(S, i, cls)] + [implies(n >= 1, x) for x in tp_ok(S, n - 1, cls)]
                    concls = []
                    for d in dims(S):
                        hyps += [implies(inr, A.C.at(i * nc, d).eq(A.P.at(i, d))), implies(inr, der(A.C, nc, i, 0, hseg(i), d).eq(A.P.at(i + 1, d))),
                                 implies(inr, V.at(i, d).eq(A.C.at(i * nc + 1, d))),
                                 implies(inr & (i + 1 < n), V.at(i + 1, d).eq(A.C.at((i + 1) * nc + 1, d)) & der(A.C, nc, i + 1, 1, 0, d).eq(der(A.C, nc, i, 1, hseg(i), d))),
                                 implies(inr & (i + 1).eq(n), V.at(i + 1, d).eq(der(A.C, nc, i, 1, tp_field(S, i, 'h'), d)))]
                        concls += [implies(inr, x) for x in herm(S, A, i, d)]
                    G.abstract_lemma('hermite_form_from_interpolation_and_slopes', hyps, concls)
                    for d in dims(S):
                        q = S.forall(0, n, lambda k, d=d: herm(S, A, k, d))
                        G.assume_fact(q, 'generalisation of the lemma over its arbitrary segment index')
                        if not any(lab == 'derived_hermite_form_%d' % d for lab, _ in G.gen.stable_quants):
                            G.gen.stable_quants.append(('derived_hermite_form_%d' % d, q))
                S.ghost('entry', derive)

    def herm(S, A, i, d):
        hc = hermite_coeffs(s, iv_pow_of(S, i), [A.X[k].at(i, d) for k in range(s)], [A.X[k].at(E.const(i) + 1, d) for k in range(s)])
        return [A.C.at(E.const(i) * nc + m, d).eq(hc[m]) for m in range(nc)]

    def local_pre(S, A, i, DSall):
        return [('tp', conj(tp_ok(S, i, cls)))] + [('herm_%d' % d, conj(herm(S, A, i, d))) for d in DSall]

    class EnergyGradTimes(Contract):
        key = cls + '.getEnergyGradTimes'

        def spec(self, S):
            D = S.cfg['DIM']
            n = S.num_segments_
            A = EnergyAdjoint(S, cls)
            G = S.v('result')
            built(S, A)
            S.assigns()
            want = lambda i: A.dEdT(i) + esum([A.PBH(i, d) for d in range(D)])
            S.ensures(G.R.eq(n), 'size')
            S.ensures(S.forall(0, n, lambda i: [G.at(i, 0).eq(want(i))]), 'duration_gradient_is_partial_plus_pullback_of_coefficient_partials')
            S.terms(0, n)
            S.loop(0, inv=lambda L: [('range', (L.i >= 0) & (L.i <= n)), ('size', L.grad.R.eq(n)),
                                     ('done', S.forall(0, L.i, lambda k: [L.grad.at(k, 0).eq(want(k))]))],
                   variant=lambda L: n - L.i, terms=lambda L: [L.i],
                   local=dict(pre=lambda L: local_pre(S, A, L.i, range(D)), post=lambda L: [('dT', L.grad.at(L.i, 0).eq(want(L.i)))]))

    class EnergyGradInnerPoints(Contract):
        key = cls + '.getEnergyGradInnerPoints'

        def spec(self, S):
            D = S.cfg['DIM']
            DS = dims(S)
            n = S.num_segments_
            A = EnergyAdjoint(S, cls)
            G = S.v('result')
            built(S, A)
            S.assigns()
            want = lambda j, d: A.PBP0(j, d) + A.PBP1(j - 1, d)
            S.ensures(G.R.eq(n - 1), 'rows')
            for d in DS:
                S.ensures(S.forall(1, n, lambda j, d=d: [G.at(j - 1, d).eq(want(j, d))]), 'inner_point_gradient_is_pullback_of_coefficient_partials_%d' % d)
            # the right-hand side of the adjoint system vanishes (so that zero multipliers solve it): consequence of the
            # continuity of the derivatives of order s..2s-2 at interior knots
            seg_ = S.v('time_segments_')
            hfun = lambda i: seg_.at(i)
            pub = dict(published(S, cls))
            for d in DS:
                for k in range(s, 2 * s - 1):
                    S.requires(pub['continuous_derivative_%d_%d' % (k, d)], 'published_continuous_derivative_%d_%d' % (k, d))
                S.ensures(S.forall(1, n, lambda m, d=d: [A.GX(m, j, d).eq(0) for j in range(1, s)], inst=[S.sk(0), S.sk(0) - 1]), 'adjoint_right_hand_side_vanishes_%d' % d)
            S.terms(0, 1, n, n - 1, S.sk(0) - 1, S.sk(0) + 1)
            if S.mode != 'verify':
                return

            def rhs_zero(G_):
                m = S.sk(0)
                inr = (m >= 1) & (m < n)
                for d in DS:
                    hyps = [implies(inr, x) for x in herm(S, A, m - 1, d) + herm(S, A, m, d) + tp_ok(S, m - 1, cls) + tp_ok(S, m, cls)]
                    hyps += [implies(inr, der(A.C, nc, m, k, 0, d).eq(der(A.C, nc, m - 1, k, hfun(m - 1), d))) for k in range(s, 2 * s - 1)]
                    G_.abstract_lemma('rhs_zero_%d' % d, hyps, [implies(inr, A.GX(m, j, d).eq(0)) for j in range(1, s)])
            S.ghost('exit', rhs_zero)
            S.loop(0, inv=lambda L: [('range', (L.i >= 1) & (L.i <= n)), ('rows', L.grad.R.eq(n - 1))] +
                   [('done_%d' % d, S.forall(1, L.i, lambda j, d=d: [L.grad.at(j - 1, d).eq(want(j, d))])) for d in DS],
                   variant=lambda L: n - L.i, terms=lambda L: [L.i, L.i - 1],
                   local=dict(pre=lambda L: [('j', (L.i >= 1) & (L.i < n))] + local_pre(S, A, L.i, DS) +
                              [('tp_prev', conj(tp_ok(S, L.i - 1, cls)))] + [('herm_prev_%d' % d, conj(herm(S, A, L.i - 1, d))) for d in DS],
                              post=lambda L: [('dP_%d' % d, L.grad.at(L.i - 1, d).eq(want(L.i, d))) for d in DS]))

    class EnergyGradBoundary(Contract):
        key = cls + '.getEnergyGradBoundary'

        def spec(self, S):
            DS = dims(S)
            n = S.num_segments_
            A = EnergyAdjoint(S, cls)
            R = S.v('result')
            built(S, A)
            S.assigns()
            S.terms(0, n - 1, n)
            SG, EG = R.fields['start'], R.fields['end']
            posts = []
            for d in DS:
                posts.append(('start_point_gradient_is_pullback_%d' % d, SG.fields['p'].at(d, 0).eq(A.PBP0(0, d))))
                posts.append(('end_point_gradient_is_pullback_%d' % d, EG.fields['p'].at(d, 0).eq(A.PBP1(n - 1, d))))
                for j, nm in enumerate(BCN, 1):
                    posts.append(('start_%s_gradient_is_pullback_%d' % (nm, d), SG.fields[nm].at(d, 0).eq(A.PBX0(0, j, d))))
                    posts.append(('end_%s_gradient_is_pullback_%d' % (nm, d), EG.fields[nm].at(d, 0).eq(A.PBX1(n - 1, j, d))))
            for lab, p_ in posts:
                S.ensures(p_, lab)
            if S.mode == 'verify':
                pre = [('n', n >= 1), ('tp_first', conj(tp_ok(S, 0, cls))), ('tp_last', conj(tp_ok(S, n - 1, cls)))]
                for d in DS:
                    pre += [('herm_first_%d' % d, conj(herm(S, A, 0, d))), ('herm_last_%d' % d, conj(herm(S, A, n - 1, d)))]
                S.body_lemma(pre, posts)

    for c in (EnergyGradTimes, EnergyGradInnerPoints, EnergyGradBoundary):
        c.__name__ = cls + c.__name__
        register(c)


for _c in ORDER_OF:
    make_energy_grad_contracts(_c)


# ================================================================================================ cubic: gradient propagation (C05)
from speclib import moment_coeffs


class MomentJac(object):
    """Jacobian of the four coefficients of a cubic piece with respect to (P0, P1, M0, M1, h), and of its end slopes"""
    _inst = None

    def __new__(cls):
        if cls._inst is not None:
            return cls._inst
        o = object.__new__(cls)
        cls._inst = o
        v = lambda n: E.var('MS_' + n, REAL)
        o.P0, o.P1, o.M0, o.M1, o.H, o.IV = v('P0'), v('P1'), v('M0'), v('M1'), v('H'), v('IV')
        o.c = moment_coeffs(o.H, o.IV, o.P0, o.P1, o.M0, o.M1)
        o.slope0 = o.c[1]                                                   # p'(0)
        o.slope1 = o.c[1] + 2 * o.c[2] * o.H + 3 * o.c[3] * o.H * o.H       # p'(h)
        hseed = {'MS_H': ONE, 'MS_IV': -(o.IV * o.IV)}
        o.seeds = {'P0': {'MS_P0': ONE}, 'P1': {'MS_P1': ONE}, 'M0': {'MS_M0': ONE}, 'M1': {'MS_M1': ONE}, 'H': hseed}
        return o

    def d(self, e, var):
        return ad.d_expr(e, self.seeds[var])

    def bind(self, e, S, P, M, i, d):
        i = E.const(i)
        return subst(e, {'MS_P0': P.at(i, d), 'MS_P1': P.at(i + 1, d), 'MS_M0': M.at(i, d), 'MS_M1': M.at(i + 1, d),
                         'MS_H': tp_field(S, i, 'h'), 'MS_IV': tp_field(S, i, 'h_inv')})


class CubicAdjoint(object):
    def __init__(self, S, gC):
        self.S, self.gC = S, gC
        self.P, self.M = S.v('spatial_points_'), S.v('internal_derivatives_')
        self.J = MomentJac()
        self.D = S.cfg['DIM']
        self._c = {}

    def g(self, i, m, d):
        return self.gC.at(E.const(i) * 4 + m, d)

    def pull(self, var, i, d):
        key = (var, E.const(i).key(), d)
        if key not in self._c:
            self._c[key] = esum([self.g(i, m, d) * self.J.bind(self.J.d(self.J.c[m], var), self.S, self.P, self.M, i, d) for m in range(4)])
        return self._c[key]

    def slope(self, which, var, i, d):
        """d/dvar of p_i'(0) (which = 0) or p_i'(h_i) (which = 1)"""
        key = ('s', which, var, E.const(i).key(), d)
        if key not in self._c:
            e = self.J.slope0 if which == 0 else self.J.slope1
            self._c[key] = self.J.bind(self.J.d(e, var), self.S, self.P, self.M, i, d)
        return self._c[key]


@register
class CubicSolveWithCachedLU(Contract):
    """X := A^-1 X for the clamped second-derivative system, from the cached factors (c', 1/pivot) of the forward solve"""
    key = 'CubicSplineND.solveWithCachedLU'

    def spec(self, S):
        n = S.num_segments_
        X = S.v('X')
        R = S.old.get('X')
        cp, inv = S.v('cached_c_prime_'), S.v('cached_inv_denoms_')
        DS = dims(S)
        S.requires((n >= 1) & (n <= NMAX) & X.R.eq(n + 1) & cp.R.eq(n) & inv.R.eq(n + 1), 'sizes')
        for p in h_positive(S):
            S.requires(p, 'positive_durations')
        S.requires(cubic_factor_first(S), 'cached_factor_first')
        S.requires(S.forall(1, n, lambda k: cubic_factor_mid(S, k)), 'cached_factors')
        S.requires(cubic_factor_last(S, n), 'cached_factor_last')
        S.terms(0, 1, n - 1, n, S.sk(0) - 1, S.sk(0) + 1)
        S.assigns(X)
        S.ensures(X.R.eq(n + 1), 'rows')
        for d in DS:
            first, mid, last = cubic_rows(S, X, R, n, d)
            S.ensures(first, 'first_row_%d' % d)
            S.ensures(mid, 'interior_rows_%d' % d)
            S.ensures(last, 'last_row_%d' % d)
        Xp = dict((d, S.spec_array('Xp%d' % d)) for d in DS)
        Xpv = lambda k, d: Xp[d][0](k)
        Xcur = lambda k, d: X.at(k, d)
        h = lambda j: cubic_h(S, j)
        fw0 = lambda Mx, d: Mx(0, d).eq(R.at(0, d) * inv.at(0, 0))
        fw = lambda Mx, k, d: Mx(k, d).eq((R.at(k, d) - h(k - 1) * Mx(k - 1, d)) * inv.at(k, 0))
        S.loop(0, inv=lambda L: [
            ('range', (L.i >= 1) & (L.i <= n + 1) & L.n.eq(n + 1)), ('rows', X.R.eq(n + 1)),
            ('eliminated0', conj([fw0(Xcur, d) for d in DS])),
            ('eliminated', S.forall(1, L.i, lambda k: [fw(Xcur, k, d) for d in DS])),
            ('untouched', S.forall(L.i, n + 1, lambda k: [X.at(k, d).eq(R.at(k, d)) for d in DS])),
        ], variant=lambda L: n + 1 - L.i, terms=lambda L: [L.i - 1, L.i, L.i + 1])

        def snapshot(G):
            for d in DS:
                G.copy_array(Xp[d][1], X.col(d))
        S.ghost('loop1.before', snapshot)
        S.loop(1, inv=lambda L: [
            ('range', (L.i >= -1) & (L.i <= n - 1) & L.n.eq(n + 1)), ('rows', X.R.eq(n + 1)),
            ('forward0', conj([fw0(Xpv, d) for d in DS])),
            ('forward', S.forall(1, n + 1, lambda k: [fw(Xpv, k, d) for d in DS])),
            ('solved_last', conj([X.at(n, d).eq(Xpv(n, d)) for d in DS])),
            ('solved', S.forall(L.i + 1, n, lambda k: [X.at(k, d).eq(Xpv(k, d) - cp.at(k, 0) * X.at(k + 1, d)) for d in DS])),
            ('pending', S.forall(0, L.i + 1, lambda k: [X.at(k, d).eq(Xpv(k, d)) for d in DS])),
        ], variant=lambda L: L.i + 1, terms=lambda L: [L.i, L.i + 1, L.i + 2])


@register
class CubicPropagateGradInternal(Contract):
    """adjoint-state equations for the cubic spline: unknowns are the knot second derivatives M_0..M_n, rows are the slope
    conditions  R_0 = p_0'(0) - v_0,  R_k = p_k'(0) - p_(k-1)'(h_(k-1)),  R_n = v_n - p_(n-1)'(h_(n-1));  multipliers mu = 6 lambda"""
    key = 'CubicSplineND.propagateGradInternal'

    def spec(self, S):
        D = S.cfg['DIM']
        DS = dims(S)
        n = S.num_segments_
        gC, gT = S.v('partialGradByCoeffs'), S.v('partialGradByTimes')
        GP, GT, SG, EG = S.v('innerPointsGrad'), S.v('gradByTimes'), S.v('startGrads'), S.v('endGrads')
        LAM = S.v('ws_lambda_')
        P, M = S.v('spatial_points_'), S.v('internal_derivatives_')
        cp, inv = S.v('cached_c_prime_'), S.v('cached_inv_denoms_')
        A = CubicAdjoint(S, gC)
        cls = 'CubicSplineND'
        for lab, p in built_invariant(S, cls):
            S.requires(p, 'built_' + lab)
        S.requires(gC.R.eq(4 * n) & gT.R.eq(n), 'one_upstream_row_per_coefficient_and_duration')
        S.terms(0, 1, n, n - 1, S.sk(0) - 1, S.sk(0) + 1)
        S.assigns(GP, GT, SG, EG, LAM)
        mu = lambda k, d: 6 * LAM.at(k, d)
        gM = lambda m, d: ite(E.const(m) < n, A.pull('M0', m, d), 0) + ite(E.const(m) >= 1, A.pull('M1', E.const(m) - 1, d), 0)
        # names for the right-hand sides of the adjoint system
        GMA = {}
        for d in DS:
            acc, full = S.spec_array('GM_%d' % d)
            fact = S.forall(0, n + 1, lambda m, d=d, acc=acc: [acc(m).eq(gM(m, d))])
            S.definitions.append((full, [fact]))
            (S.ensures if S.mode == 'call' else S.requires)(fact, 'def_GM_%d' % d)
            GMA[d] = acc
        h = lambda j: cubic_h(S, j)

        def e1(m, d, rhs):
            # sum_k mu_k dR_k/dM_m + gM_m == 0, rows R_k as above (dR/dM by differentiation of the moment-form slopes)
            m = E.const(m)
            t_own_right = ite(m < n, mu(m, d) * A.slope(0, 'M0', m, d), 0)                       # R_m = p_m'(0) - ...
            t_own_left = ite(m >= 1, -mu(m, d) * A.slope(1, 'M1', m - 1, d), 0)                  # R_m = ... - p_(m-1)'(h)
            t_prev = ite(m >= 1, mu(m - 1, d) * A.slope(0, 'M1', m - 1, d), 0)                   # R_(m-1) = p_(m-1)'(0) - ..., depends on M_m
            t_next = ite(m < n, -mu(m + 1, d) * A.slope(1, 'M0', m, d), 0)                       # R_(m+1) = ... - p_m'(h), depends on M_m
            return (t_own_right + t_own_left + t_prev + t_next + rhs).eq(0)
        S.ensures(GT.R.eq(n) & GP.R.eq(ite(n > 1, n - 1, 0)) & LAM.R.eq(n + 1), 'shapes')
        for d in DS:
            S.ensures(S.forall(0, n + 1, lambda m, d=d: [e1(m, d, gM(m, d))], inst=[S.sk(0), S.sk(0) - 1, S.sk(0) + 1]), 'multipliers_solve_the_transposed_slope_system_%d' % d)
        PBHsum = lambda k: esum([A.pull('H', k, d) for d in range(D)])
        HT = lambda k, d: mu(k, d) * A.slope(0, 'H', k, d) - mu(E.const(k) + 1, d) * A.slope(1, 'H', k, d)
        S.ensures(S.forall(0, n, lambda k: [GT.at(k, 0).eq(gT.at(k, 0) + PBHsum(k) + esum([HT(k, d) for d in range(D)]))]), 'duration_gradient_is_adjoint_state_combination')
        PQ0 = lambda j, d: mu(j, d) * A.slope(0, 'P0', j, d) - mu(E.const(j) + 1, d) * A.slope(1, 'P0', j, d)        # segment j, its left point
        PQ1 = lambda j, d: mu(j, d) * A.slope(0, 'P1', j, d) - mu(E.const(j) + 1, d) * A.slope(1, 'P1', j, d)        # segment j, its right point
        for d in DS:
            S.ensures(S.forall(1, n, lambda j, d=d: [GP.at(j - 1, d).eq(A.pull('P0', j, d) + A.pull('P1', j - 1, d) + PQ0(j, d) + PQ1(j - 1, d))],
                               inst=[S.sk(0), S.sk(0) - 1, S.sk(0) + 1]), 'inner_point_gradient_is_adjoint_state_combination_%d' % d)
            S.ensures(SG.fields['p'].at(d, 0).eq(A.pull('P0', 0, d) + PQ0(0, d)) & EG.fields['p'].at(d, 0).eq(A.pull('P1', n - 1, d) + PQ1(n - 1, d)), 'end_point_gradients_%d' % d)
            S.ensures(SG.fields['v'].at(d, 0).eq(-mu(0, d)) & EG.fields['v'].at(d, 0).eq(mu(n, d)), 'boundary_velocity_gradients_%d' % d)
        if S.mode != 'verify':
            return
        # ============================================================ phase A
        NM = dict((nm, S.fresh_real('ca_in_' + nm)) for nm in ['t', 'sp', 'ep'] + ['l0_%d' % d for d in DS] + ['l1_%d' % d for d in DS] + ['pm_%d' % d for d in DS] + ['pn_%d' % d for d in DS])

        def loop0_inv(L):
            i = L.i
            out = [('range', (i >= 0) & (i <= n) & L.n.eq(n)), ('shapes', LAM.R.eq(n + 1) & GT.R.eq(n) & GP.R.eq(ite(n > 1, n - 1, 0)))]
            out.append(('times_done', S.forall(0, i, lambda k: [GT.at(k, 0).eq(gT.at(k, 0) + PBHsum(k))])))
            out.append(('times_untouched', S.forall(i, n, lambda k: [GT.at(k, 0).eq(gT.at(k, 0))])))
            for d in DS:
                out.append(('lam_first_%d' % d, implies(i > 0, LAM.at(0, d).eq(A.pull('M0', 0, d)))))
                out.append(('lam_done_%d' % d, S.forall(1, i, lambda r, d=d: [LAM.at(r, d).eq(A.pull('M0', r, d) + A.pull('M1', r - 1, d))])))
                out.append(('lam_half_%d' % d, implies(i > 0, LAM.at(i, d).eq(A.pull('M1', i - 1, d)))))
                out.append(('lam_zero_%d' % d, implies(i.eq(0), LAM.at(0, d).eq(0))))
                out.append(('lam_untouched_%d' % d, S.forall(i + 1, n + 1, lambda r, d=d: [LAM.at(r, d).eq(0)])))
                out.append(('start_p_%d' % d, SG.fields['p'].at(d, 0).eq(ite(i > 0, A.pull('P0', 0, d), 0)) & SG.fields['v'].at(d, 0).eq(0) & EG.fields['v'].at(d, 0).eq(0)))
                out.append(('end_p_%d' % d, EG.fields['p'].at(d, 0).eq(ite(i.eq(n), A.pull('P1', n - 1, d), 0))))
                out.append(('inner_done_%d' % d, S.forall(1, i, lambda r, d=d: [GP.at(r - 1, d).eq(A.pull('P0', r, d) + A.pull('P1', r - 1, d))])))
                out.append(('inner_half_%d' % d, implies((i > 0) & (i < n), GP.at(i - 1, d).eq(A.pull('P1', i - 1, d)))))
                out.append(('inner_untouched_%d' % d, S.forall(i + 1, n, lambda r, d=d: [GP.at(r - 1, d).eq(0)])))
            return out

        def loop0_names(L):
            i = L.i
            out = [(NM['t'], GT.at(i, 0))]
            for d in DS:
                out += [(NM['l0_%d' % d], LAM.at(i, d)), (NM['l1_%d' % d], LAM.at(i + 1, d)),
                        (NM['pm_%d' % d], ite(i.eq(0), SG.fields['p'].at(d, 0), GP.at(i - 1, d))), (NM['pn_%d' % d], ite((i + 1).eq(n), EG.fields['p'].at(d, 0), GP.at(i, d)))]
            return out

        def loop0_pre(L):
            i = L.i
            return [('tp', conj(tp_ok(S, i, cls))), ('pd', conj([S.v('point_diffs_').at(i, d).eq(P.at(i + 1, d) - P.at(i, d)) for d in range(D)])), ('i', (i >= 0) & (i < n) & L.n.eq(n))]

        def loop0_post(L):
            i = L.i
            out = [('t', GT.at(i, 0).eq(NM['t'] + PBHsum(i)))]
            for d in DS:
                out.append(('l0_%d' % d, LAM.at(i, d).eq(NM['l0_%d' % d] + A.pull('M0', i, d))))
                out.append(('l1_%d' % d, LAM.at(i + 1, d).eq(NM['l1_%d' % d] + A.pull('M1', i, d))))
                out.append(('p0_%d' % d, ite(i.eq(0), SG.fields['p'].at(d, 0), GP.at(i - 1, d)).eq(NM['pm_%d' % d] + A.pull('P0', i, d))))
                out.append(('p1_%d' % d, ite((i + 1).eq(n), EG.fields['p'].at(d, 0), GP.at(i, d)).eq(NM['pn_%d' % d] + A.pull('P1', i, d))))
            return out
        CASES = [('first_last', lambda L: L.i.eq(0) & (L.i + 1).eq(n)), ('first', lambda L: L.i.eq(0) & (L.i + 1 < n)),
                 ('last', lambda L: (L.i > 0) & (L.i + 1).eq(n)), ('middle', lambda L: (L.i > 0) & (L.i + 1 < n))]
        S.loop(0, inv=loop0_inv, variant=lambda L: n - L.i, terms=lambda L: [L.i, L.i - 1, L.i + 1],
               local=dict(names=loop0_names, pre=loop0_pre, post=loop0_post, cases=CASES))
        # ============================================================ the multipliers: E1 from the rows of the cached-LU solve
        def lam_named(G):
            r = S.sk(0)
            inr = (r >= 0) & (r <= n)
            for d in DS:
                G.abstract_lemma('lambda_is_rhs_%d' % d, [n >= 1, implies((r >= 1) & (r < n), LAM.at(r, d).eq(A.pull('M0', r, d) + A.pull('M1', r - 1, d))),
                                                           implies(r.eq(0), LAM.at(r, d).eq(A.pull('M0', r, d))), implies(r.eq(n), LAM.at(r, d).eq(A.pull('M1', r - 1, d))),
                                                           implies(inr, GMA[d](r).eq(gM(r, d)))],
                                 [implies(inr, LAM.at(r, d).eq(GMA[d](r)))])
        S.ghost('loop0.after', lam_named)
        LAM0 = dict((d, S.spec_array('LAM0_%d' % d)) for d in DS)

        def before_solve(G):
            for d in DS:
                G.copy_array(LAM0[d][1], LAM.col(d))
        S.ghost('call.solveWithCachedLU.before', before_solve)

        def after_solve(G):
            m = S.sk(0)
            inr = (m >= 0) & (m <= n)
            for d in DS:
                rows = []
                rows.append(n >= 1)
                rows.append(implies(m.eq(0), (2 * h(m) * LAM.at(m, d) + h(m) * LAM.at(m + 1, d)).eq(GMA[d](m))))
                rows.append(implies((m >= 1) & (m < n), (h(m - 1) * LAM.at(m - 1, d) + 2 * (h(m - 1) + h(m)) * LAM.at(m, d) + h(m) * LAM.at(m + 1, d)).eq(GMA[d](m))))
                rows.append(implies(m.eq(n), (h(m - 1) * LAM.at(m - 1, d) + 2 * h(m - 1) * LAM.at(m, d)).eq(GMA[d](m))))
                hyps = rows + [implies(inr & (m < n), x) for x in tp_ok(S, m, cls)] + [implies(inr & (m >= 1), x) for x in tp_ok(S, m - 1, cls)]
                G.abstract_lemma('adjoint_system_%d' % d, hyps, [implies(inr, e1(m, d, GMA[d](m)))])
        S.ghost('call.solveWithCachedLU.after', after_solve)
        # ============================================================ phase B
        NB = dict((nm, S.fresh_real('cb_in_' + nm)) for nm in ['t'] + ['pm_%d' % d for d in DS] + ['pn_%d' % d for d in DS])
        mkA = lambda nm: S.spec_array(nm)[0]
        HTA, PHA = mkA('HTA'), mkA('PHA')
        Q0A = dict((d, mkA('Q0A_%d' % d)) for d in DS)
        Q1A = dict((d, mkA('Q1A_%d' % d)) for d in DS)
        P0A = dict((d, mkA('P0A_%d' % d)) for d in DS)
        P1A = dict((d, mkA('P1A_%d' % d)) for d in DS)

        def naming():
            out = [('name_ht', S.forall(0, n, lambda k: [HTA(k).eq(esum([HT(k, d) for d in range(D)])), PHA(k).eq(PBHsum(k))]))]
            for d in DS:
                out.append(('name_q_%d' % d, S.forall(0, n, lambda k, d=d: [Q0A[d](k).eq(PQ0(k, d)), Q1A[d](k).eq(PQ1(k, d)), P0A[d](k).eq(A.pull('P0', k, d)), P1A[d](k).eq(A.pull('P1', k, d))])))
            return out
        S.ghost('loop1.before', lambda G: [G.assume_fact(q, 'naming ' + lab) for lab, q in naming()] and None)

        def loop1_inv(L):
            i = L.i
            out = [('range', (i >= 0) & (i <= n) & L.n.eq(n)), ('shapes', LAM.R.eq(n + 1) & GT.R.eq(n) & GP.R.eq(ite(n > 1, n - 1, 0)))] + naming()
            out.append(('times', S.forall(0, n, lambda k: [GT.at(k, 0).eq(gT.at(k, 0) + PHA(k) + ite(k < i, HTA(k), 0))])))
            for d in DS:
                out.append(('inner_%d' % d, S.forall(1, n, lambda r, d=d: [GP.at(r - 1, d).eq(P0A[d](r) + P1A[d](r - 1) + ite(r < i, Q0A[d](r), 0) + ite(r - 1 < i, Q1A[d](r - 1), 0))])))
                out.append(('ends_%d' % d, SG.fields['p'].at(d, 0).eq(P0A[d](0) + ite(i > 0, Q0A[d](0), 0)) & EG.fields['p'].at(d, 0).eq(P1A[d](n - 1) + ite(i.eq(n), Q1A[d](n - 1), 0))))
                out.append(('adjoint_system_%d' % d, S.forall(0, n + 1, lambda m, d=d: [e1(m, d, GMA[d](m))])))
                out.append(('velocity_gradients_untouched_%d' % d, SG.fields['v'].at(d, 0).eq(0) & EG.fields['v'].at(d, 0).eq(0)))
            return out

        def loop1_names(L):
            i = L.i
            out = [(NB['t'], GT.at(i, 0))]
            for d in DS:
                out += [(NB['pm_%d' % d], ite(i.eq(0), SG.fields['p'].at(d, 0), GP.at(i - 1, d))), (NB['pn_%d' % d], ite((i + 1).eq(n), EG.fields['p'].at(d, 0), GP.at(i, d)))]
            return out

        def loop1_post(L):
            i = L.i
            out = [('t', GT.at(i, 0).eq(NB['t'] + esum([HT(i, d) for d in range(D)])))]
            for d in DS:
                out.append(('p0_%d' % d, ite(i.eq(0), SG.fields['p'].at(d, 0), GP.at(i - 1, d)).eq(NB['pm_%d' % d] + PQ0(i, d))))
                out.append(('p1_%d' % d, ite((i + 1).eq(n), EG.fields['p'].at(d, 0), GP.at(i, d)).eq(NB['pn_%d' % d] + PQ1(i, d))))
            return out
        S.loop(1, inv=loop1_inv, variant=lambda L: n - L.i, terms=lambda L: [L.i, L.i - 1, L.i + 1],
               local=dict(names=loop1_names, pre=loop0_pre, post=loop1_post, cases=CASES))

        def unfold(G):
            r = S.sk(0)
            inr = (r >= 1) & (r < n)
            for d in DS:
                hyps = [implies(inr, GP.at(r - 1, d).eq(P0A[d](r) + P1A[d](r - 1) + ite(r < n, Q0A[d](r), 0) + ite(r - 1 < n, Q1A[d](r - 1), 0)))]
                hyps += [implies(inr, Q0A[d](r).eq(PQ0(r, d)) & Q1A[d](r - 1).eq(PQ1(r - 1, d)) & P0A[d](r).eq(A.pull('P0', r, d)) & P1A[d](r - 1).eq(A.pull('P1', r - 1, d)))]
                G.abstract_lemma('unfold_inner_%d' % d, hyps, [implies(inr, GP.at(r - 1, d).eq(A.pull('P0', r, d) + A.pull('P1', r - 1, d) + PQ0(r, d) + PQ1(r - 1, d)))])
        S.ghost('exit', unfold)
