"""Contracts for SplineOptimizer (properties C09, C16, ...)."""
from base import *
from fractions import Fraction

NMAX = 1 << 22
MIN_DURATION = Fraction(1, 1000)       # "at least one millisecond" (property C16)


def fin(e):
    """finiteness ghost of a stored double (see translate_call.is_finite)"""
    if e.op == 'var':
        return E.var(e.args[0] + '__fin', BOOL)
    if e.op == 'idx':
        return E.idx(e.args[0] + '__fin', e.args[1], BOOL)
    raise ValueError('no finiteness ghost for %r' % (e,))


def order_of(S):
    return {'CubicSplineND': 3, 'QuinticSplineND': 5, 'SepticSplineND': 7}[S.cfg['SplineType']['cls']]


def bc_fields_used(S):
    o = order_of(S)
    f = ['start_velocity', 'end_velocity']
    if o >= 5:
        f += ['start_acceleration', 'end_acceleration']
    if o >= 7:
        f += ['start_jerk', 'end_jerk']
    return f


def validity(S, times, wps, start, bc, nseg):
    """the acceptance condition of property C16, as a list of (label, E | Quant)"""
    D = S.cfg['DIM']
    out = [('at_least_one_segment', nseg >= 1),
           ('one_more_waypoint_than_durations', times.size().eq(nseg) & wps.R.eq(nseg + 1)),
           ('start_time_finite', fin(start))]
    out.append(('durations_finite_and_at_least_1ms', S.forall(0, times.size(), lambda i: fin(times.at(i)) & (times.at(i) >= MIN_DURATION))))
    out.append(('waypoints_finite', S.forall(0, wps.R, lambda i: [fin(wps.at(i, d)) for d in range(D)])))
    for f in bc_fields_used(S):
        out.append(('%s_finite' % f, conj([fin(bc.fields[f].at(d, 0)) for d in range(D)])))
    return out


def pnull(p):
    n = p.null
    return n() if callable(n) else n


class _NoStr(object):
    def empty(self):
        return E.const(True)


def ptarget(p):
    return p.target if p.target is not None else _NoStr()


def under(c, p):
    if isinstance(p, Quant):
        return Quant(p.lo, p.hi, (lambda k, p=p: implies(c, _cj(p.body(k)))), inst=p.inst)
    return implies(c, p)


def _cj(b):
    if isinstance(b, (list, tuple)):
        return conj([_cj(x) for x in b])
    return b


@register
class ReportError(Contract):
    key = 'SplineOptimizer.reportError'

    def spec(self, S):
        errs = S.v('errors')
        out = S.v('out')
        msg = S.v('last_error_message_')
        S.requires((errs.size() >= 0) & (errs.size() <= 1 << 26), 'count_sane')
        S.assigns(*[x for x in (msg, out.target) if x is not None])
        S.ensures(implies(errs.size() > 0, mk_not(msg.empty())), 'message_recorded')
        S.ensures(implies((errs.size() > 0) & mk_not(pnull(out)), mk_not(ptarget(out).empty())), 'message_returned')
        S.ensures(implies(errs.size().eq(0), msg.empty().eq(S.old.get('last_error_message_').empty())), 'nothing_to_report')
        S.loop(0, inv=lambda L: [('range', (L.i >= 0) & (L.i <= errs.size()))], variant=lambda L: errs.size() - L.i)


@register
class CheckValidity(Contract):
    """verdict <=> stated conditions: the two directions are two harness variants (generator option `variant`)"""
    key = 'SplineOptimizer.checkValidity'

    def spec(self, S):
        variant = S.gen.opt.get('variant', 'sound')
        n = S.num_segments_
        times, wps, bc = S.v('ref_times_'), S.v('ref_waypoints_'), S.v('ref_bc_')
        start = S.v('start_time_').rd()
        msg = S.v('last_error_message_')
        out = S.v('msg_out')
        cond = validity(S, times, wps, start, bc, n)
        S.requires((times.size() >= 0) & (times.size() <= NMAX) & (wps.R >= 0) & (wps.R <= NMAX + 1) & (n >= -NMAX) & (n <= NMAX), 'sizes_sane')
        S.assigns(*[x for x in (msg, out.target) if x is not None])
        D = S.cfg['DIM']
        if variant == 'sound':
            for label, p in cond:
                S.ensures(under(S.result, p), 'accepted_implies_' + label)
            S.ensures(implies(mk_not(S.result), mk_not(msg.empty())), 'rejection_has_message')
            S.ensures(implies(mk_not(S.result) & mk_not(pnull(out)), mk_not(ptarget(out).empty())), 'rejection_message_returned')
            S.ensures(implies(S.result & mk_not(pnull(out)), ptarget(out).empty()), 'acceptance_clears_returned_message')
            S.ensures(implies(S.result, msg.empty().eq(S.old.get('last_error_message_').empty())), 'acceptance_keeps_last_message')
            pre = lambda L: L.errors.size() >= 0
            S.loop(0, inv=lambda L: [('range', (L.i >= 0) & (L.i <= times.size())), ('count', (L.errors.size() >= 0) & (L.errors.size() <= L.i + 4)),
                                     ('earlier', implies(L.errors.size().eq(0), conj([c for _, c in cond[:3] if not isinstance(c, Quant)]))),
                                     ('durations', S.forall(0, L.i, lambda k: implies(L.errors.size().eq(0), fin(times.at(k)) & (times.at(k) >= MIN_DURATION))))],
                   variant=lambda L: times.size() - L.i)
            S.loop(1, inv=lambda L: [('range', (L.i >= 0) & (L.i <= wps.R)), ('count', (L.errors.size() >= 0) & (L.errors.size() <= times.size() + L.i + 4)),
                                     ('earlier', implies(L.errors.size().eq(0), conj([c for _, c in cond[:3] if not isinstance(c, Quant)]))),
                                     ('durations', S.forall(0, times.size(), lambda k: implies(L.errors.size().eq(0), fin(times.at(k)) & (times.at(k) >= MIN_DURATION)))),
                                     ('waypoints', S.forall(0, L.i, lambda k: implies(L.errors.size().eq(0), conj([fin(wps.at(k, d)) for d in range(D)]))))],
                   variant=lambda L: wps.R - L.i)
        else:
            for label, p in cond:
                S.requires(p, label)
            S.ensures(S.result, 'valid_problem_accepted')
            S.ensures(implies(mk_not(pnull(out)), ptarget(out).empty()), 'no_message_returned')
            S.ensures(msg.empty().eq(S.old.get('last_error_message_').empty()), 'acceptance_keeps_last_message')
            S.loop(0, inv=lambda L: [('range', (L.i >= 0) & (L.i <= times.size())), ('no_errors', L.errors.size().eq(0))],
                   variant=lambda L: times.size() - L.i, terms=lambda L: [L.i])
            S.loop(1, inv=lambda L: [('range', (L.i >= 0) & (L.i <= wps.R)), ('no_errors', L.errors.size().eq(0))],
                   variant=lambda L: wps.R - L.i, terms=lambda L: [L.i])


OPT_INIT_STATE = ('start_time_', 'ref_times_', 'ref_waypoints_', 'ref_bc_', 'num_segments_', 'layout_dirty_', 'is_valid_', 'last_error_message_')


@register
class SetInitStateDurations(Contract):
    """setInitState(durations, waypoints, start, bc): verdict <=> stated conditions on the *new* inputs, from any previous state"""
    key = 'SplineOptimizer.setInitState'
    nparams = 4

    def spec(self, S):
        variant = S.gen.opt.get('variant', 'sound')
        D = S.cfg['DIM']
        ts, wp, bc = S.v('time_segments'), S.v('waypoints'), S.v('bc')
        start = S.v('start_time')
        start_e = start.rd() if hasattr(start, 'rd') else start
        msg = S.v('last_error_message_')
        ws = S.v('internal_ws_')
        S.requires((ts.size() >= 0) & (ts.size() <= NMAX) & (wp.R >= 0) & (wp.R <= NMAX + 1), 'sizes_sane')
        assigned = [S.v(x) for x in OPT_INIT_STATE]
        if ws.target is not None:
            assigned.append(ws.target)
        S.assigns(*assigned)
        cond = validity(S, ts, wp, start_e, bc, ts.size())
        S.ensures(S.is_valid_.eq(S.result), 'flag_equals_verdict')
        S.ensures(msg.empty().eq(S.result), 'message_available_exactly_when_rejected')
        S.ensures(S.layout_dirty_, 'layout_marked_dirty')
        S.ensures(S.num_segments_.eq(ts.size()) & S.start_time_.eq(start_e), 'inputs_stored')
        if variant == 'sound':
            for label, p in cond:
                S.ensures(under(S.result, p), 'accepted_implies_' + label)
        else:
            for label, p in cond:
                S.requires(p, label)
            S.ensures(S.result, 'valid_problem_accepted')


@register
class SetInitStateTimePoints(Contract):
    key = 'SplineOptimizer.setInitState'
    nparams = 3

    def spec(self, S):
        tp = S.v('t_points')
        msg = S.v('last_error_message_')
        ws = S.v('internal_ws_')
        S.requires((tp.size() >= 0) & (tp.size() <= NMAX) & (S.v('waypoints').R >= 0) & (S.v('waypoints').R <= NMAX + 1), 'sizes_sane')
        assigned = [S.v(x) for x in OPT_INIT_STATE]
        if ws.target is not None:
            assigned.append(ws.target)
        S.assigns(*assigned)
        S.ensures(S.is_valid_.eq(S.result), 'flag_equals_verdict')
        S.ensures(msg.empty().eq(S.result), 'message_available_exactly_when_rejected')
        S.ensures(implies(tp.size().eq(0), mk_not(S.result)), 'no_time_points_rejected')
        S.ensures(implies(S.result, S.num_segments_.eq(tp.size() - 1) & S.start_time_.eq(tp.at(0))), 'accepted_stores_first_time_point_and_count')
        S.loop(0, inv=lambda L: [('range', (L.i >= 1) & (L.i <= tp.size())), ('size', L.time_segments.size().eq(L.i - 1))], variant=lambda L: tp.size() - L.i)


@register
class IsValid(Contract):
    key = 'SplineOptimizer.isValid'

    def spec(self, S):
        S.assigns()
        S.ensures(S.result.eq(S.is_valid_), 'returns_flag')
