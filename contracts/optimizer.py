"""Contracts for SplineOptimizer (properties C09, C16, ...)."""
from base import *
from fractions import Fraction

NMAX = 1 << 22
MIN_DURATION = Fraction(1, 1000)       # "at least one millisecond" (property C16)


def fin(e):
    """finiteness ghost of a stored double (see translate_call.is_finite)"""
    if e.op == 'var':
        return E.var(e.args[0] + '__fin', BOOL)
    if e.op == 'idx':
        return E.idx(e.args[0] + '__fin', e.args[1], BOOL)
    raise ValueError('no finiteness ghost for %r' % (e,))


def order_of(S):
    return {'CubicSplineND': 3, 'QuinticSplineND': 5, 'SepticSplineND': 7}[S.cfg['SplineType']['cls']]


def bc_fields_used(S):
    o = order_of(S)
    f = ['start_velocity', 'end_velocity']
    if o >= 5:
        f += ['start_acceleration', 'end_acceleration']
    if o >= 7:
        f += ['start_jerk', 'end_jerk']
    return f


def validity(S, times, wps, start, bc, nseg):
    """the acceptance condition of property C16, as a list of (label, E | Quant)"""
    D = S.cfg['DIM']
    out = [('at_least_one_segment', nseg >= 1),
           ('one_more_waypoint_than_durations', times.size().eq(nseg) & wps.R.eq(nseg + 1)),
           ('start_time_finite', fin(start))]
    out.append(('durations_finite_and_at_least_1ms', S.forall(0, times.size(), lambda i: fin(times.at(i)) & (times.at(i) >= MIN_DURATION))))
    out.append(('waypoints_finite', S.forall(0, wps.R, lambda i: [fin(wps.at(i, d)) for d in range(D)])))
    for f in bc_fields_used(S):
        out.append(('%s_finite' % f, conj([fin(bc.fields[f].at(d, 0)) for d in range(D)])))
    return out


def pnull(p):
    n = p.null
    return n() if callable(n) else n


class _NoStr(object):
    def empty(self):
        return E.const(True)


def ptarget(p):
    return p.target if p.target is not None else _NoStr()


def under(c, p):
    if isinstance(p, Quant):
        return Quant(p.lo, p.hi, (lambda k, p=p: implies(c, _cj(p.body(k)))), inst=p.inst)
    return implies(c, p)


def _cj(b):
    if isinstance(b, (list, tuple)):
        return conj([_cj(x) for x in b])
    return b


@register
class ReportError(Contract):
    key = 'SplineOptimizer.reportError'

    def spec(self, S):
        errs = S.v('errors')
        out = S.v('out')
        msg = S.v('last_error_message_')
        S.requires((errs.size() >= 0) & (errs.size() <= 1 << 26), 'count_sane')
        S.assigns(*[x for x in (msg, out.target) if x is not None])
        S.ensures(implies(errs.size() > 0, mk_not(msg.empty())), 'message_recorded')
        S.ensures(implies((errs.size() > 0) & mk_not(pnull(out)), mk_not(ptarget(out).empty())), 'message_returned')
        S.ensures(implies(errs.size().eq(0), msg.empty().eq(S.old.get('last_error_message_').empty())), 'nothing_to_report')
        S.loop(0, inv=lambda L: [('range', (L.i >= 0) & (L.i <= errs.size()))], variant=lambda L: errs.size() - L.i)


@register
class CheckValidity(Contract):
    """verdict <=> stated conditions: the two directions are two harness variants (generator option `variant`)"""
    key = 'SplineOptimizer.checkValidity'

    def spec(self, S):
        variant = S.gen.opt.get('variant', 'sound')
        n = S.num_segments_
        times, wps, bc = S.v('ref_times_'), S.v('ref_waypoints_'), S.v('ref_bc_')
        start = S.v('start_time_').rd()
        msg = S.v('last_error_message_')
        out = S.v('msg_out')
        cond = validity(S, times, wps, start, bc, n)
        S.requires((times.size() >= 0) & (times.size() <= NMAX) & (wps.R >= 0) & (wps.R <= NMAX + 1) & (n >= -NMAX) & (n <= NMAX), 'sizes_sane')
        S.assigns(*[x for x in (msg, out.target) if x is not None])
        D = S.cfg['DIM']
        if variant == 'sound':
            for label, p in cond:
                S.ensures(under(S.result, p), 'accepted_implies_' + label)
            S.ensures(implies(mk_not(S.result), mk_not(msg.empty())), 'rejection_has_message')
            S.ensures(implies(mk_not(S.result) & mk_not(pnull(out)), mk_not(ptarget(out).empty())), 'rejection_message_returned')
            S.ensures(implies(S.result & mk_not(pnull(out)), ptarget(out).empty()), 'acceptance_clears_returned_message')
            S.ensures(implies(S.result, msg.empty().eq(S.old.get('last_error_message_').empty())), 'acceptance_keeps_last_message')
            pre = lambda L: L.errors.size() >= 0
            S.loop(0, inv=lambda L: [('range', (L.i >= 0) & (L.i <= times.size())), ('count', (L.errors.size() >= 0) & (L.errors.size() <= L.i + 4)),
                                     ('earlier', implies(L.errors.size().eq(0), conj([c for _, c in cond[:3] if not isinstance(c, Quant)]))),
                                     ('durations', S.forall(0, L.i, lambda k: implies(L.errors.size().eq(0), fin(times.at(k)) & (times.at(k) >= MIN_DURATION))))],
                   variant=lambda L: times.size() - L.i)
            S.loop(1, inv=lambda L: [('range', (L.i >= 0) & (L.i <= wps.R)), ('count', (L.errors.size() >= 0) & (L.errors.size() <= times.size() + L.i + 4)),
                                     ('earlier', implies(L.errors.size().eq(0), conj([c for _, c in cond[:3] if not isinstance(c, Quant)]))),
                                     ('durations', S.forall(0, times.size(), lambda k: implies(L.errors.size().eq(0), fin(times.at(k)) & (times.at(k) >= MIN_DURATION)))),
                                     ('waypoints', S.forall(0, L.i, lambda k: implies(L.errors.size().eq(0), conj([fin(wps.at(k, d)) for d in range(D)]))))],
                   variant=lambda L: wps.R - L.i)
        else:
            for label, p in cond:
                S.requires(p, label)
            S.ensures(S.result, 'valid_problem_accepted')
            S.ensures(implies(mk_not(pnull(out)), ptarget(out).empty()), 'no_message_returned')
            S.ensures(msg.empty().eq(S.old.get('last_error_message_').empty()), 'acceptance_keeps_last_message')
            S.loop(0, inv=lambda L: [('range', (L.i >= 0) & (L.i <= times.size())), ('no_errors', L.errors.size().eq(0))],
                   variant=lambda L: times.size() - L.i, terms=lambda L: [L.i])
            S.loop(1, inv=lambda L: [('range', (L.i >= 0) & (L.i <= wps.R)), ('no_errors', L.errors.size().eq(0))],
                   variant=lambda L: wps.R - L.i, terms=lambda L: [L.i])


OPT_INIT_STATE = ('start_time_', 'ref_times_', 'ref_waypoints_', 'ref_bc_', 'num_segments_', 'layout_dirty_', 'is_valid_', 'last_error_message_')


@register
class SetInitStateDurations(Contract):
    """setInitState(durations, waypoints, start, bc): verdict <=> stated conditions on the *new* inputs, from any previous state"""
    key = 'SplineOptimizer.setInitState'
    nparams = 4

    def spec(self, S):
        variant = S.gen.opt.get('variant', 'sound')
        D = S.cfg['DIM']
        ts, wp, bc = S.v('time_segments'), S.v('waypoints'), S.v('bc')
        start = S.v('start_time')
        start_e = start.rd() if hasattr(start, 'rd') else start
        msg = S.v('last_error_message_')
        ws = S.v('internal_ws_')
        S.requires((ts.size() >= 0) & (ts.size() <= NMAX) & (wp.R >= 0) & (wp.R <= NMAX + 1), 'sizes_sane')
        assigned = [S.v(x) for x in OPT_INIT_STATE]
        if ws.target is not None:
            assigned.append(ws.target)
        S.assigns(*assigned)
        cond = validity(S, ts, wp, start_e, bc, ts.size())
        S.ensures(S.is_valid_.eq(S.result), 'flag_equals_verdict')
        S.ensures(msg.empty().eq(S.result), 'message_available_exactly_when_rejected')
        OFF = layout_defs_after(S)
        for label, q in layout_ok(S, OFF):
            S.ensures(under(mk_not(S.layout_dirty_), q), 'kept_cache_matches_new_configuration_' + label)
        S.ensures(S.num_segments_.eq(ts.size()) & S.start_time_.eq(start_e), 'inputs_stored')
        if variant == 'sound':
            for label, p in cond:
                S.ensures(under(S.result, p), 'accepted_implies_' + label)
        else:
            for label, p in cond:
                S.requires(p, label)
            S.ensures(S.result, 'valid_problem_accepted')


@register
class SetInitStateTimePoints(Contract):
    key = 'SplineOptimizer.setInitState'
    nparams = 3

    def spec(self, S):
        tp = S.v('t_points')
        msg = S.v('last_error_message_')
        ws = S.v('internal_ws_')
        S.requires((tp.size() >= 0) & (tp.size() <= NMAX) & (S.v('waypoints').R >= 0) & (S.v('waypoints').R <= NMAX + 1), 'sizes_sane')
        assigned = [S.v(x) for x in OPT_INIT_STATE]
        if ws.target is not None:
            assigned.append(ws.target)
        S.assigns(*assigned)
        S.ensures(S.is_valid_.eq(S.result), 'flag_equals_verdict')
        S.ensures(msg.empty().eq(S.result), 'message_available_exactly_when_rejected')
        S.ensures(implies(tp.size().eq(0), mk_not(S.result)), 'no_time_points_rejected')
        S.ensures(implies(S.result, S.num_segments_.eq(tp.size() - 1) & S.start_time_.eq(tp.at(0))), 'accepted_stores_first_time_point_and_count')
        S.loop(0, inv=lambda L: [('range', (L.i >= 1) & (L.i <= tp.size())), ('size', L.time_segments.size().eq(L.i - 1))], variant=lambda L: tp.size() - L.i)


@register
class IsValid(Contract):
    key = 'SplineOptimizer.isValid'

    def spec(self, S):
        S.assigns()
        S.ensures(S.result.eq(S.is_valid_), 'returns_flag')


# ------------------------------------------------------------------------------------------------ C09: decision-vector layout
from translate_call import AbstractObj
from values import ExprMat


class AbstractSpatialMap(AbstractObj):
    """a user spatial map known only through its protocol: getUnconstrainedDim(i) = DOF[i] (a fixed non-negative function)"""
    identity_tag = 7

    def call(self, tr, name, args, n):
        if name == 'getUnconstrainedDim':
            tr.globals_a['SPEC_DOF'] = INT
            return E.idx('SPEC_DOF', tr.scalar(args[0]), INT)
        from values import ExprMat
        D = tr.frame.this.cfg['DIM']
        if name == 'toPhysical':
            # (unconstrained coordinates of point i, i) -> physical point: a function of the decision vector and i; within one
            # evaluation (fixed decision vector) named by the spec arrays SPEC_PHYS_c<d>[i]
            i = tr.scalar(args[1])
            for d in range(D):
                tr.globals_a['SPEC_PHYS_c%d' % d] = REAL
            return ExprMat(D, 1, lambda r, c, i=i: E.idx('SPEC_PHYS_c%d' % r, i, REAL))
        if name == 'toUnconstrained':
            # (physical point, i) -> unconstrained coordinates of point i, DOF[i] <= 64 entries, named SPEC_UNC[64 i + r]
            i = tr.scalar(args[1])
            tr.globals_a['SPEC_UNC'] = REAL
            ns = tr.namespace()
            for j, a in enumerate(args):
                ns['arg%d' % j] = a
            tr.anchor('spatial_map.toUnconstrained', ns)
            return ExprMat(E.idx('SPEC_DOF', i, INT), 1, lambda r, c, i=i: E.idx('SPEC_UNC', i * 64 + E.const(r), REAL))
        if name == 'backwardGrad':
            # (xi, physical gradient, i) -> unconstrained gradient of point i, DOF[i] <= 64 entries: named SPEC_BACK[64 i + r]
            # (a fresh name per call site would also do; what it equals is the map's business, see C07)
            i = tr.scalar(args[2])
            tr.globals_a['SPEC_BACK'] = REAL
            ns = tr.namespace()
            for j, a in enumerate(args):
                ns['arg%d' % j] = a
            tr.anchor('spatial_map.backwardGrad', ns)
            return ExprMat(E.idx('SPEC_DOF', i, INT), 1, lambda r, c, i=i: E.idx('SPEC_BACK', i * 64 + E.const(r), REAL))
        raise ValueError('abstract spatial map: no rule for %s' % name)


def DOF(i):
    return E.idx('SPEC_DOF', i, INT)


class AbstractTimeMap(AbstractObj):
    """a time map known only through its protocol: toTime(tau) > 0 (a pure function of tau), backward(tau, T, gradT) some value
    (what it must equal for the bundled maps is C17).  Anchors 'time_map.toTime' (arg0, ret) and 'time_map.backward' (arg0..2, ret)."""
    identity_tag = 8

    def call(self, tr, name, args, n):
        from ir import Havoc, Assume
        if name not in ('toTime', 'backward', 'toTau'):
            raise ValueError('abstract time map: no rule for %s' % name)
        r = tr.new_scalar('tm_' + name, REAL)
        tr.emit(Havoc(scalars=[(r.name, REAL)]))
        if name == 'toTime':
            tr.emit(Assume(r.rd() > 0, 'protocol of time maps: durations are positive'))
        ns = tr.namespace()
        for j, a in enumerate(args):
            ns['arg%d' % j] = a
        ns['ret'] = r
        tr.anchor('time_map.' + name, ns)
        return r.rd()


def flags(S):
    f = S.v('flags_')
    return dict((k, f.fields[k].rd()) for k in f.fields)


def first_idx(S):
    return ite(flags(S)['start_p'], 0, 1)


def n_entries(S):
    """number of optimised waypoints: the inner ones always, first/last only when flagged"""
    n = S.num_segments_
    fl = flags(S)
    return (n - 1) + ite(fl['start_p'], 1, 0) + ite(fl['end_p'], 1, 0)


def n_blocks(S):
    fl = flags(S)
    o = order_of(S)
    b = ite(fl['start_v'], 1, 0) + ite(fl['end_v'], 1, 0)
    if o >= 5:
        b = b + ite(fl['start_a'], 1, 0) + ite(fl['end_a'], 1, 0)
    if o >= 7:
        b = b + ite(fl['start_j'], 1, 0) + ite(fl['end_j'], 1, 0)
    return b


def layout_ok(S, OFF):
    """the layout cache describes exactly the stated decision-vector layout"""
    n = S.num_segments_
    D = S.cfg['DIM']
    lay = S.v('spatial_layout_')
    cnt = n_entries(S)
    out = []
    out.append(('empty_problem', implies(n <= 0, lay.size().eq(0) & S.derivatives_offset_.eq(0) & S.total_dimension_.eq(0))))
    out.append(('one_entry_per_optimised_point', implies(n > 0, lay.size().eq(cnt))))
    out.append(('entries', S.forall(0, lay.size(), lambda k: implies(n > 0, conj([
        lay.elem(k).field('point_index').rd().eq(k + first_idx(S)),
        lay.elem(k).field('dof').rd().eq(DOF(k + first_idx(S))),
        lay.elem(k).field('offset').rd().eq(OFF(k))])))))
    out.append(('derivative_blocks_follow_spatial_variables', implies(n > 0, S.derivatives_offset_.eq(OFF(cnt)))))
    out.append(('dimension', implies(n > 0, S.total_dimension_.eq(S.derivatives_offset_ + n_blocks(S) * D))))
    return out


def layout_defs(S):
    """OFF[k] = n + sum of the unconstrained dimensions of the first k optimised points"""
    n = S.num_segments_
    S.gen.globals_a['SPEC_DOF'] = INT
    S.requires((n <= NMAX) & (n >= -NMAX), 'size_sane')
    S.requires(S.forall(0, NMAX + 2, lambda i: (DOF(i) >= 0) & (DOF(i) <= 64)), 'unconstrained_dimensions_sane')
    acc, full = S.spec_array('OFF', INT, shared=True)
    facts = [acc(0).eq(n), S.forall(0, NMAX + 2, lambda k: acc(k + 1).eq(acc(k) + DOF(k + first_idx(S))))]
    S.definitions.append((full, facts))
    for j, f in enumerate(facts):
        (S.ensures if S.mode == 'call' else S.requires)(f, 'def_OFF_%d' % j)
    (S.ensures if S.mode == 'call' else S.requires)(S.forall(0, NMAX + 2, lambda k: (acc(k) >= n) & (acc(k) <= n + 64 * k)), 'offsets_bounded')
    return acc


def layout_defs_after(S):
    """OFF for the configuration *after* a setter: an arbitrary array satisfying the recurrence over the post-state (the
    postcondition is stated for every such array, i.e. for the one the next rebuild would compute)"""
    S.gen.globals_a['SPEC_DOF'] = INT
    acc, full = S.spec_array('OFFNEW', INT)
    return acc


LAYOUT_STATE = ('spatial_layout_', 'derivatives_offset_', 'total_dimension_', 'layout_dirty_')


@register
class RebuildLayoutCache(Contract):
    key = 'SplineOptimizer.rebuildLayoutCache'

    def spec(self, S):
        OFF = layout_defs(S)
        n = S.num_segments_
        lay = S.v('spatial_layout_')
        fl = flags(S)
        S.assigns(*[S.v(x) for x in LAYOUT_STATE])
        S.ensures(mk_not(S.layout_dirty_), 'clean')
        for label, p in layout_ok(S, OFF):
            S.ensures(p, label)
        S.terms(0, n, n - 1)
        seen = lambda i: i - ite(mk_not(fl['start_p']) & (i > 0), 1, 0) - ite(mk_not(fl['end_p']) & (i > n), 1, 0)
        S.loop(0, inv=lambda L: [
            ('range', (L.i >= 0) & (L.i <= n + 1)),
            ('count', lay.size().eq(seen(L.i))),
            ('offset', L.offset.eq(OFF(lay.size()))),
            ('entries', S.forall(0, lay.size(), lambda k: conj([
                lay.elem(k).field('point_index').rd().eq(k + first_idx(S)),
                lay.elem(k).field('dof').rd().eq(DOF(k + first_idx(S))),
                lay.elem(k).field('offset').rd().eq(OFF(k))]))),
        ], variant=lambda L: n + 1 - L.i, terms=lambda L: [L.i, lay.size(), lay.size() - 1, lay.size() + 1])


@register
class EnsureLayoutCache(Contract):
    key = 'SplineOptimizer.ensureLayoutCache'

    def spec(self, S):
        OFF = layout_defs(S)
        for label, p in layout_ok(S, OFF):
            S.requires(under(mk_not(S.layout_dirty_), p), 'layout_invariant_' + label)
        S.assigns(*[S.v(x) for x in LAYOUT_STATE])
        S.ensures(mk_not(S.layout_dirty_), 'clean')
        for label, p in layout_ok(S, OFF):
            S.ensures(p, label)


@register
class GetDimension(Contract):
    key = 'SplineOptimizer.getDimension'

    def spec(self, S):
        OFF = layout_defs(S)
        n = S.num_segments_
        D = S.cfg['DIM']
        for label, p in layout_ok(S, OFF):
            S.requires(under(mk_not(S.layout_dirty_), p), 'layout_invariant_' + label)
        S.assigns(*[S.v(x) for x in LAYOUT_STATE])
        S.ensures(implies(n > 0, S.result.eq(OFF(n_entries(S)) + n_blocks(S) * D)), 'dimension_is_times_plus_spatial_plus_derivative_blocks')
        S.ensures(implies(n <= 0, S.result.eq(0)), 'empty_problem')
        for label, p in layout_ok(S, OFF):
            S.ensures(p, 'cache_' + label)
        S.ensures(mk_not(S.layout_dirty_), 'clean')


@register
class SetOptimizationFlags(Contract):
    key = 'SplineOptimizer.setOptimizationFlags'

    def spec(self, S):
        f = S.v('flags_')
        p = S.v('flags')
        OFF = layout_defs_after(S)
        # the cache described the old configuration (layout invariant); offsets of the old and the new configuration coincide
        # when the first optimised point is the same (both satisfy one recurrence from the same base)
        OFFOLD, _ = S.spec_array('OFFOLD', INT)
        if S.mode == 'verify':
            S.requires((S.num_segments_ <= NMAX) & (S.num_segments_ >= -NMAX), 'size_sane')
            for label, q in layout_ok(S, OFFOLD):
                S.requires(under(mk_not(S.layout_dirty_), q), 'layout_invariant_' + label)
            S.requires(S.forall(0, NMAX + 2, lambda k: implies(f.fields['start_p'].rd().eq(p.fields['start_p'].rd()), OFFOLD(k).eq(OFF(k)))), 'same_first_point_same_offsets')
        S.assigns(f, S.v('layout_dirty_'))
        S.ensures(conj([f.fields[k].rd().eq(p.fields[k].rd()) for k in f.fields]), 'flags_stored')
        # the lazily rebuilt cache may only be kept if it still describes the layout of the new configuration
        for label, q in layout_ok(S, OFF):
            S.ensures(under(mk_not(S.layout_dirty_), q), 'kept_cache_matches_new_configuration_' + label)


@register
class SetSpatialMap(Contract):
    key = 'SplineOptimizer.setSpatialMap'

    def spec(self, S):
        OFF = layout_defs_after(S)
        S.assigns(S.v('active_spatial_map_'), S.v('layout_dirty_'))
        for label, q in layout_ok(S, OFF):
            S.ensures(under(mk_not(S.layout_dirty_), q), 'kept_cache_matches_new_configuration_' + label)
        S.ensures(mk_not(S.v('active_spatial_map_').null()), 'never_null')


# ================================================================================================ running-cost quadrature (C08, C12, C07)
from values import Mat, ScalarVar, CellRef, LambdaV, VOID
from ir import Havoc, Assume
from speclib import der, ff, power


class AbstractIntegralCost(AbstractObj):
    """user running-cost functor, known only through its protocol
         double operator()(t, t_global, i, p, v, a, j, s, gp&, gv&, ga&, gj&, gs&, gt&)
    it returns some value and may write its six by-reference gradient outputs; nothing else is assumed about it.
    Ghost anchors 'integral_cost.call' (names arg0..arg13) and 'integral_cost.ret' (additionally ret) let the caller's
    contract state what every sample must carry."""

    def call(self, tr, name, args, n):
        ns = tr.namespace()
        for j, a in enumerate(args):
            ns['arg%d' % j] = a
        tr.anchor('integral_cost.call', ns)
        for o in args[8:14]:
            if isinstance(o, Mat):
                R, C = tr.dims_const(o)
                tr.emit(Havoc(scalars=[(o.lv(r, c).name, REAL) for r in range(R) for c in range(C)]))
            elif isinstance(o, (ScalarVar, CellRef)):
                tr.emit(Havoc(scalars=[(o.lv().name, REAL)]))
            else:
                raise ValueError('running-cost functor: unexpected gradient output %r' % (o,))
        r = tr.new_scalar('cost_val', REAL)
        tr.emit(Havoc(scalars=[(r.name, REAL)]))
        ns = dict(ns)
        ns['ret'] = r
        tr.anchor('integral_cost.ret', ns)
        return r.rd()


class ParallelForExecutor(AbstractObj):
    """executor(start, end, f), known only through its protocol: f(i) is invoked exactly once for every start <= i < end, in
    any order and on any threads.  The callback is translated once, for an arbitrary fixed index (a never-assigned int
    'seg_i' with start <= seg_i < end); anchors 'executor.begin' / 'executor.end' (name idx) carry the contract's per-index
    pre/postcondition, after which the contract generalises over all indices.  The generalisation is the parallel-for rule;
    its side condition (the callback for index i writes only cells owned by i and reads no cell owned by another index) is
    discharged as the frame obligations of property C12."""

    def call(self, tr, name, args, n):
        start, end, f = args
        i = tr.new_scalar('seg_i', INT)
        tr.never_assigned_globals = getattr(tr, 'never_assigned_globals', []) + [i.name]
        tr.emit(Assume((i.rd() >= tr.scalar(start)) & (i.rd() < tr.scalar(end)), 'executor calls f(i) for start <= i < end'))
        ns = tr.namespace()
        ns['idx'] = i
        tr.anchor('executor.begin', ns)
        before_s, before_a = set(tr.globals_s), set(tr.globals_a)
        mark = len(tr.block)
        if not isinstance(f, LambdaV):
            raise ValueError('executor callback is not a lambda')
        tr.call_lambda(f, [i.rd()], n)
        self.index = i
        self.stmts = tr.block[mark:]
        self.local_scalars = set(tr.globals_s) - before_s
        self.local_arrays = set(tr.globals_a) - before_a
        tr.anchor('executor.end', ns)
        return VOID


def trap_weight(k, K):
    return ite(k.eq(0) | k.eq(K), E.const(Fraction(1, 2)), E.const(Fraction(1)))


@register
class CalculateIntegralCost(Contract):
    """segment start times are the prefix sums of the durations; every sample handed to the running cost carries
    (k T_i / K, start of segment i + that, i, and the 0th..4th derivatives of piece i there); the cost grows by the sum over
    segments of the composite trapezoid rule with K steps applied to the values the functor returned."""
    key = 'SplineOptimizer.calculateIntegralCost'

    def spec(self, S):
        D = S.cfg['DIM']
        nc = order_of(S) + 1
        N, K = S.num_segments_, S.integral_num_steps_
        ws = S.v('ws')
        T, SS, SC, XB = (ws.fields[f] for f in ('cache_times', 'segment_start_times', 'segment_costs', 'explicit_time_grad_buffer'))
        C = ws.fields['spline'].fields['trajectory_'].fields['coefficients_']
        gdC, gdT = S.v('gdC'), S.v('gdT')
        S.requires((N >= 1) & (N <= NMAX) & (K >= 1) & (K <= NMAX), 'sizes_sane')
        S.requires(T.size().eq(N) & SS.size().eq(N) & SC.size().eq(N) & XB.R.eq(N) & gdT.R.eq(N) & gdC.R.eq(nc * N) & C.R.eq(nc * N), 'workspace_sized_for_N')
        S.i2r_axioms()
        RK, _ = S.spec_array('RK')
        rk = RK(0)
        (S.ensures if S.mode == 'call' else S.requires)((to_real(K) * rk).eq(1), 'def_one_over_K')      # definition of 1/K (K >= 1)
        PT = S.define_prefix_sum('PT', N, lambda i: T.at(i))
        TRAP, _ = S.spec_array('TRAP', shared=True)
        PTRAP = S.define_prefix_sum('PTRAP', N, lambda i: TRAP(i))
        S.assigns(SS, SC, XB, gdC, gdT, S.v('cost'))
        S.ensures(S.forall(0, N, lambda i: SS.at(i).eq(S.start_time_ + PT(i))), 'segment_start_is_start_time_plus_elapsed_durations')
        S.ensures(S.cost.eq(S.old.cost + PTRAP(N)), 'cost_grows_by_sum_of_segment_trapezoid_sums')
        S.ensures(SS.size().eq(N) & SC.size().eq(N) & XB.R.eq(N) & gdT.R.eq(N) & gdC.R.eq(nc * N), 'buffer_sizes_unchanged')
        # ---- gradient side (C07): per-segment sums named by spec arrays (their meaning is fixed, sample by sample, inside the callback)
        #   QT[i]: d/dT_i of segment i's quadrature (value term, drift of the sample point, explicit time through t_global)
        #   QX[i]: sum over the samples of segment i of  w_k dt_i dc/dt_global  (acts on every EARLIER duration)
        #   QC[m,d][i]: d/dc_(i,m,d) of segment i's quadrature
        QT, _ = S.spec_array('QT', shared=True)
        QX, _ = S.spec_array('QX', shared=True)
        QC = dict(((m, d), S.spec_array('QC_%d_%d' % (m, d), shared=True)[0]) for m in range(nc) for d in range(D))
        PQX = S.define_prefix_sum('PQX', N, lambda i: QX(i))
        G0T, G0C = S.old.get('gdT'), S.old.get('gdC')
        S.ensures(S.forall(0, N, lambda j: [gdT.at(j, 0).eq(G0T.at(j, 0) + QT(j) + (PQX(N) - PQX(j + 1)))]),
                  'duration_gradient_gains_own_segment_terms_and_explicit_time_terms_of_later_segments')
        S.ensures(S.forall(0, N, lambda i: [gdC.at(i * nc + m, d).eq(G0C.at(i * nc + m, d) + QC[(m, d)](i)) for m in range(nc) for d in range(D)]),
                  'coefficient_gradient_gains_the_segment_quadrature_partials')
        S.terms(0, N, N - 1)
        if S.mode != 'verify':
            return
        ex = S.gen.fn.params['executor']
        S.loop(0, inv=lambda L: [
            ('range', (L.i >= 0) & (L.i <= N)),
            ('running_time', L.running_time.eq(S.start_time_ + PT(L.i))),
            ('start_times', S.forall(0, L.i, lambda j: SS.at(j).eq(S.start_time_ + PT(j)))),
        ], variant=lambda L: N - L.i, terms=lambda L: [L.i])
        # ---- one callback invocation, arbitrary index
        CV, _ = S.spec_array('CV')           # CV[k]: the value the functor returned for sample k of this segment (a name)
        idx = lambda: ex.index.rd()
        S.terms(idx(), idx() + 1)
        Ti = lambda: T.at(idx())
        PS = S.define_prefix_sum('PS', K + 1, lambda k: trap_weight(k, K) * (Ti() * rk) * CV(k))
        kvar = {}

        NR = 5                                   # gp, gv, ga, gj, gs
        GRA = dict(((r, d), S.spec_array('GR_%d_%d' % (r, d))[0]) for r in range(NR) for d in range(D))     # names: functor outputs of sample k
        GTA, _ = S.spec_array('GTk')
        tk = lambda k: to_real(k) * rk * Ti()
        wk = lambda k: trap_weight(k, K)
        dti = lambda: Ti() * rk

        def dder_dc(m, r, t):
            # d/dc_m of the r-th derivative of the piece at local time t (power rule)
            return E.const(Fraction(ff(m, r))) * power(t, m - r) if m >= r else E.const(Fraction(0))

        def c_term(m, d, k, g):
            return wk(k) * dti() * esum([g(r, d) * dder_dc(m, r, tk(k)) for r in range(NR)])

        def t_term(k, cv, g, gt):
            drift = esum([g(r, d) * der(C, nc, idx(), r + 1, tk(k), d) for r in range(NR) for d in range(D)])
            alpha = to_real(k) * rk
            return cv * wk(k) * rk + drift * alpha * wk(k) * dti() + gt * alpha * wk(k) * dti()
        named = lambda k: (lambda r, d: GRA[(r, d)](k))
        PSC = dict(((m, d), S.define_prefix_sum('PSC_%d_%d' % (m, d), K + 1, lambda k, m=m, d=d: c_term(m, d, k, named(k)))) for m in range(nc) for d in range(D))
        PST = S.define_prefix_sum('PST', K + 1, lambda k: t_term(k, CV(k), named(k), GTA(k)))
        PSX = S.define_prefix_sum('PSX', K + 1, lambda k: GTA(k) * wk(k) * dti())
        AIN = dict((nm, S.fresh_real('acc_in_' + nm)) for nm in ['cost', 'gdT', 'x'] + ['c_%d_%d' % (m, d) for m in range(nc) for d in range(D)])

        def loop1_inv(L):
            kvar['k'] = L.i
            out = [('range', (L.i >= 0) & (L.i <= K + 1)),
                   ('partial_trapezoid_sum', L.local_acc_cost.eq(PS(L.i))),
                   ('partial_duration_gradient', L.local_acc_gdT.eq(PST(L.i))),
                   ('partial_explicit_time_gradient', L.local_acc_explicit_time_grad.eq(PSX(L.i)))]
            out += [('partial_coefficient_gradient_%d_%d' % (m, d), L.local_acc_gdC.at(m, d).eq(PSC[(m, d)](L.i))) for m in range(nc) for d in range(D)]
            return out

        def loop1_names(L):
            out = [(AIN['cost'], L.local_acc_cost), (AIN['gdT'], L.local_acc_gdT), (AIN['x'], L.local_acc_explicit_time_grad)]
            out += [(AIN['c_%d_%d' % (m, d)], L.local_acc_gdC.at(m, d)) for m in range(nc) for d in range(D)]
            return out

        def loop1_pre(L):
            return [('k', (L.i >= 0) & (L.i <= K)), ('one_over_K', L.inv_K.eq(rk) & L.K.eq(K)), ('dt', L.dt.eq(dti()) & L.T.eq(Ti())), ('seg', L.i.eq(L.i) & S.wrap(L.ns['i']).eq(idx())),
                    ('coefficients_of_the_piece', conj([L.coeff_block.at(m, d).eq(C.at(idx() * nc + m, d)) for m in range(nc) for d in range(D)]))]

        def loop1_post(L):
            k = L.i
            loc = [L.gp, L.gv, L.ga, L.gj, L.gs]
            g = lambda r, d: loc[r].at(d, 0)
            out = [('cost', L.local_acc_cost.eq(AIN['cost'] + wk(k) * dti() * L.c_val)),
                   ('gdT', L.local_acc_gdT.eq(AIN['gdT'] + t_term(k, L.c_val, g, L.gt))),
                   ('explicit', L.local_acc_explicit_time_grad.eq(AIN['x'] + L.gt * wk(k) * dti()))]
            out += [('gdC_%d_%d' % (m, d), L.local_acc_gdC.at(m, d).eq(AIN['c_%d_%d' % (m, d)] + c_term(m, d, k, g))) for m in range(nc) for d in range(D)]
            return out
        S.loop(1, inv=loop1_inv, variant=lambda L: K + 1 - L.i, terms=lambda L: [L.i],
               local=dict(names=loop1_names, pre=loop1_pre, post=loop1_post))

        def at_call(G):
            ns = G.ctx
            k = kvar['k']
            t = ns.arg0
            G.lemma(t.eq(to_real(k) * rk * Ti()), 'sample_local_time_is_k_T_over_K')
            G.lemma(ns.arg1.eq(S.start_time_ + PT(idx()) + t), 'sample_global_time_is_start_plus_elapsed_plus_local')
            G.lemma(ns.arg2.eq(idx()), 'sample_segment_index')
            for m, nm in enumerate(['position', 'velocity', 'acceleration', 'jerk', 'snap']):
                val = ns.v('arg%d' % (3 + m))
                for d in range(D):
                    G.lemma(val.at(d, 0).eq(der(C, nc, idx(), m, t, d)), 'sample_%s_is_derivative_%d_of_piece_coord%d' % (nm, m, d))
        S.ghost('integral_cost.call', at_call)
        def at_ret(G):
            ns = G.ctx
            k = kvar['k']
            G.assume_fact(ns.ret.eq(CV(k)), 'CV[k] names the value returned for sample k')
            for r in range(NR):
                out_ = ns.v('arg%d' % (8 + r))
                for d in range(D):
                    G.assume_fact(out_.at(d, 0).eq(GRA[(r, d)](k)), 'GR[r][d][k] names the gradient output r of sample k')
            G.assume_fact(ns.arg13.eq(GTA(k)), 'GTk[k] names the explicit-time gradient output of sample k')
        S.ghost('integral_cost.ret', at_ret)

        def at_end(G):
            G.lemma(SC.at(idx()).eq(PS(K + 1)), 'segment_cost_is_trapezoid_sum')
            G.lemma(gdT.at(idx(), 0).eq(G0T.at(idx(), 0) + PST(K + 1)), 'segment_duration_gradient')
            G.lemma(XB.at(idx(), 0).eq(PSX(K + 1)), 'segment_explicit_time_gradient')
            for m in range(nc):
                for d in range(D):
                    G.lemma(gdC.at(idx() * nc + m, d).eq(G0C.at(idx() * nc + m, d) + PSC[(m, d)](K + 1)), 'segment_coefficient_gradient_%d_%d' % (m, d))
            G.assume_fact(TRAP(idx()).eq(PS(K + 1)), 'TRAP[i] names the trapezoid sum of segment i')
            G.assume_fact(QT(idx()).eq(PST(K + 1)) & QX(idx()).eq(PSX(K + 1)), 'QT[i], QX[i] name the duration-gradient sums of segment i')
            for m in range(nc):
                for d in range(D):
                    G.assume_fact(QC[(m, d)](idx()).eq(PSC[(m, d)](K + 1)), 'QC[m,d][i] names the coefficient-gradient sum of segment i')
            # parallel-for rule: every index has been processed exactly once, each writing only its own cells
            G.havoc(arrays=[(SC.arr, REAL), (gdT.col(0), REAL), (XB.col(0), REAL)] + [(gdC.col(d), REAL) for d in range(D)])
            G.assume_fact(S.forall(0, N, lambda i: [SC.at(i).eq(TRAP(i)), gdT.at(i, 0).eq(G0T.at(i, 0) + QT(i)), XB.at(i, 0).eq(QX(i))] +
                                   [gdC.at(i * nc + m, d).eq(G0C.at(i * nc + m, d) + QC[(m, d)](i)) for m in range(nc) for d in range(D)]),
                          'parallel-for: per-index postcondition for all indices')
        S.ghost('executor.end', at_end)
        S.loop(3, inv=lambda L: [
            ('range', (L.i >= 0) & (L.i <= N)),
            ('partial_cost', S.cost.eq(S.old.cost + PTRAP(L.i))),
        ], variant=lambda L: N - L.i, terms=lambda L: [L.i])
        keep = lambda: [('coefficient_gradient', S.forall(0, N, lambda i: [gdC.at(i * nc + m, d).eq(G0C.at(i * nc + m, d) + QC[(m, d)](i)) for m in range(nc) for d in range(D)])),
                        ('explicit_buffer', S.forall(0, N, lambda i: [XB.at(i, 0).eq(QX(i))]))]
        S.loop(4, inv=lambda L: [('range', (L.i >= -1) & (L.i <= N - 1) & ((N >= 1) | L.i.eq(-1))),
                                 ('accumulator', L.accumulator.eq(PQX(N) - PQX(L.i + 1)))] + keep() +
               [('done', S.forall(L.i, N, lambda j: [gdT.at(j, 0).eq(G0T.at(j, 0) + QT(j) + (PQX(N) - PQX(j + 1)))])),
                ('pending', S.forall(0, L.i, lambda j: [gdT.at(j, 0).eq(G0T.at(j, 0) + QT(j))]))],
               variant=lambda L: L.i, terms=lambda L: [L.i, L.i - 1, L.i + 1])


class AbstractCostFunctor(AbstractObj):
    """user time cost / waypoint cost: double operator()(const Data&, Gradient& out); returns some value, may overwrite the
    contents of its gradient buffer (not its size).  Anchors '<tag>.call' (arg0, arg1) and '<tag>.ret' (ret)."""

    def __init__(self, tag):
        self.tag = tag

    def call(self, tr, name, args, n):
        ns = tr.namespace()
        for j, a in enumerate(args):
            ns['arg%d' % j] = a
        tr.anchor(self.tag + '.call', ns)
        out = args[1]
        _, arrs = out.storage()
        tr.emit(Havoc(arrays=arrs))
        r = tr.new_scalar(self.tag + '_val', REAL)
        tr.emit(Havoc(scalars=[(r.name, REAL)]))
        ns = dict(ns)
        ns['ret'] = r
        tr.anchor(self.tag + '.ret', ns)
        return r.rd()


def optimised_point(S, p):
    """waypoint p is a decision variable: inner points always, first/last when flagged"""
    return (p >= first_idx(S)) & (p < first_idx(S) + n_entries(S))


def bc_slots(S):
    """(field, flag) of the boundary-derivative blocks in decision-vector order"""
    o = order_of(S)
    out = [('start_velocity', 'start_v')]
    if o >= 5:
        out.append(('start_acceleration', 'start_a'))
    if o >= 7:
        out.append(('start_jerk', 'start_j'))
    out.append(('end_velocity', 'end_v'))
    if o >= 5:
        out.append(('end_acceleration', 'end_a'))
    if o >= 7:
        out.append(('end_jerk', 'end_j'))
    return out


def quad_inv_time_is(T, tau):
    """T = toTime(tau) of the bundled quadratic-inverse map, stated without division"""
    half = E.const(Fraction(1, 2))
    return ite(tau > 0, T.eq(half * tau * tau + tau + 1), (T * (half * tau * tau - tau + 1)).eq(1))


WS_BUFFERS = [('cache_waypoints', 1), ('cache_gdT', 0), ('user_gdT_buffer', 0), ('explicit_time_grad_buffer', 0), ('discrete_grad_q_buffer', 1)]


def workspace_sized(S, ws, m):
    nc = order_of(S) + 1
    W = lambda f: ws.fields[f]
    return (W('cache_times').size().eq(m) & W('segment_start_times').size().eq(m) & W('segment_costs').size().eq(m) &
            W('cache_gdC').R.eq(nc * m) & conj([W(f).R.eq(m + extra) for f, extra in WS_BUFFERS]))


def evaluate_requires(S, OFF, x, ws):
    """precondition of evaluate: a configured problem, a decision vector of the layout's dimension, a workspace whose buffers are
    sized consistently (any earlier problem size), the layout cache either dirty or correct"""
    D = S.cfg['DIM']
    N, K = S.num_segments_, S.integral_num_steps_
    out = [('layout_invariant_' + label, under(mk_not(S.layout_dirty_), p)) for label, p in layout_ok(S, OFF)]
    dim = OFF(n_entries(S)) + n_blocks(S) * D
    out.append(('configured_problem', (N >= 1) & (N <= NMAX) & (K >= 1) & (K <= NMAX) & S.v('ref_waypoints_').R.eq(N + 1)))
    out.append(('decision_vector_has_the_layout_dimension', x.R.eq(dim)))
    m = ws.fields['cache_times'].size()
    out.append(('workspace_buffers_sized_consistently', (m >= 0) & (m <= NMAX) & workspace_sized(S, ws, m)))
    return out


@register
class Evaluate(Contract):
    """three-cost evaluate with a caller-supplied workspace: decode, cost assembly (C08); gradient assembly (C07)"""
    key = 'SplineOptimizer.evaluate'
    nparams = 7

    def spec(self, S):
        D = S.cfg['DIM']
        nc = order_of(S) + 1
        N, K = S.num_segments_, S.integral_num_steps_
        x, gout = S.v('x'), S.v('grad_out')
        ws = S.v('ws').target
        builtin = ws is None
        if builtin:
            # ws == nullptr: the optimizer's own lazily created workspace
            slot = S.v('internal_ws_')
            ws = slot.target
        fl = flags(S)
        W = lambda f: ws.fields[f]
        T = W('cache_times')
        OFF = layout_defs(S)
        cnt = n_entries(S)
        doff = OFF(cnt)
        dim = doff + n_blocks(S) * D
        for label, p in evaluate_requires(S, OFF, x, ws):
            # the built-in workspace, if it does not exist yet, is created empty (all sizes zero): the sizing invariant is required only
            # of one that exists
            S.requires(under(mk_not(slot.null()), p) if (builtin and label == 'workspace_buffers_sized_consistently') else p, label)
        S.terms(0, N, N - 1, cnt, cnt - 1)
        S.assigns(ws, gout, *([S.v(v) for v in LAYOUT_STATE] + ([slot] if builtin else [])))
        if builtin:
            S.ensures(mk_not(slot.null()), 'built_in_workspace_exists_afterwards')
        # what a following evaluation on the same optimizer and workspace may rely on
        S.ensures(mk_not(S.layout_dirty_), 'layout_cache_clean')
        for label, p in layout_ok(S, OFF):
            S.ensures(p, 'layout_' + label)
        S.ensures(workspace_sized(S, ws, N), 'workspace_sized_for_this_problem')
        tc, wc, trap, en = (S.fresh_real(b) for b in ('tcv', 'wcv', 'trapv', 'env'))
        S.ensures(S.result.eq(tc + wc + trap + ite(S.rho_energy_ > 0, S.rho_energy_ * en, 0)),
                  'cost_is_time_cost_plus_waypoint_cost_plus_quadrature_plus_weighted_energy')
        # ---- gradient assembly (C07): names for the results of the gradient sources, then the chain-rule combination
        GR, EGr, WG0 = W('grads'), W('energy_grads'), W('discrete_grad_q_buffer')
        # instance with the zero waypoint cost (what the two-cost overload forwards): no waypoint functor is called, no rows are added
        void_wc = bool(S.gen.opt.get('void_waypoint_cost'))

        class _NoRows(object):
            def at(self, r, d):
                return E.const(Fraction(0))
        WG = _NoRows() if void_wc else WG0
        rho = S.rho_energy_
        wE = lambda e: ite(rho > 0, rho * e, 0)
        PGT, PGTn = S.spec_array('PG_times')           # propagateGrad's duration gradient (snapshot right after the call)
        PGI = dict((d, S.spec_array('PG_inner_%d' % d)) for d in range(D))
        bcn = ['p', 'v'] + (['a'] if order_of(S) >= 5 else []) + (['j'] if order_of(S) >= 7 else [])
        PGB = dict(((side, nm, d), S.fresh_real('pg_%s_%s_%d' % (side, nm, d))) for side in ('start', 'end') for nm in bcn for d in range(D))
        TB, _ = S.spec_array('TBACK')                  # TBACK[i] names time_map.backward(x[i], T_i, dCost/dT_i)
        S.ensures(S.forall(0, N, lambda i: [GR.fields['times'].at(i, 0).eq(PGT(i) + wE(EGr.fields['times'].at(i, 0)))]), 'duration_gradient_is_propagated_plus_weighted_energy_gradient')
        for d in range(D):
            S.ensures(S.forall(0, N - 1, lambda r, d=d: [GR.fields['inner_points'].at(r, d).eq(PGI[d][0](r) + WG.at(r + 1, d) + wE(EGr.fields['inner_points'].at(r, d)))]),
                      'inner_point_gradient_is_propagated_plus_waypoint_cost_gradient_plus_weighted_energy_gradient_%d' % d)
            for side, row in (('start', 0), ('end', N)):
                for nm in bcn:
                    extra = WG.at(row, d) if nm == 'p' else 0
                    S.ensures(GR.fields[side].fields[nm].at(d, 0).eq(PGB[(side, nm, d)] + extra + wE(EGr.fields[side].fields[nm].at(d, 0))), '%s_%s_gradient_combination_%d' % (side, nm, d))
        S.ensures(S.forall(0, N, lambda i: [gout.at(i, 0).eq(TB(i))]), 'duration_variables_receive_time_map_backward_of_the_duration_gradient')
        point_grad = lambda p, d: ite(E.const(p).eq(0), GR.fields['start'].fields['p'].at(d, 0), ite(E.const(p).eq(N), GR.fields['end'].fields['p'].at(d, 0), GR.fields['inner_points'].at(E.const(p) - 1, d)))
        back0 = lambda k: [implies(DOF(k + first_idx(S)) >= 1, gout.at(OFF(k), 0).eq(E.idx('SPEC_BACK', (k + first_idx(S)) * 64, REAL)))]
        rank = E.const(0)
        for f, flag in bc_slots(S):
            side, nm = f.split('_')[0], f.split('_')[1][0]
            for d in range(D):
                S.ensures(implies(fl[flag], gout.at(doff + rank * D + d, 0).eq(GR.fields[side].fields[nm].at(d, 0))), 'boundary_block_%s_receives_its_gradient_%d' % (f, d))
            rank = rank + ite(fl[flag], 1, 0)
        S.ensures(gout.R.eq(x.R), 'gradient_has_the_size_of_the_decision_vector')
        if S.mode != 'verify':
            return
        from ir import LV
        lv = lambda e: LV(e.args[0], REAL)
        PH = lambda p, d: E.idx('SPEC_PHYS_c%d' % d, p, REAL)
        ref = S.v('ref_waypoints_')
        CW = W('cache_waypoints')
        lay = S.v('spatial_layout_')
        decoded_row = lambda p, d: ite(optimised_point(S, p), PH(p, d), ref.at(p, d))
        # offsets are non-decreasing (unconstrained dimensions are non-negative): OFF(cnt - j) <= OFF(cnt), by induction on j
        S.terms(cnt - S.sk(0) - 1, cnt - S.sk(0))
        S.ghost('entry', lambda G: G.induction(0, cnt + 1, lambda j: [OFF(cnt - j) <= OFF(cnt)], 'offsets_below_total'))
        # ---- decode
        TT, _ = S.spec_array('TT')            # TT[i] names toTime(x[i]) (the time map is a pure function; one call per i)
        loopvar = {}

        def loop0_inv(L):
            loopvar[0] = L.i
            return [('range', (L.i >= 0) & (L.i <= N)),
                    ('durations_decoded', S.forall(0, L.i, lambda j: [T.at(j).eq(TT(j)), TT(j) > 0]))]
        S.loop(0, inv=loop0_inv, variant=lambda L: N - L.i, terms=lambda L: [L.i])

        def to_time(G):
            ns = G.ctx
            G.lemma(ns.arg0.eq(x.at(loopvar[0], 0)), 'duration_i_is_time_map_of_variable_i')
            G.assume_fact(ns.ret.eq(TT(loopvar[0])), 'TT[i] names toTime(x[i])')
        S.ghost('time_map.toTime', to_time)
        lay_inv = lambda: [
            ('layout_size', lay.size().eq(cnt) & mk_not(S.layout_dirty_)),
            ('layout_entries', S.forall(0, lay.size(), lambda k: conj([
                lay.elem(k).field('point_index').rd().eq(k + first_idx(S)),
                lay.elem(k).field('dof').rd().eq(DOF(k + first_idx(S))),
                lay.elem(k).field('offset').rd().eq(OFF(k))]))),
            ('offsets_below_total', S.forall(0, cnt + 1, lambda j: OFF(cnt - j) <= OFF(cnt)))]
        S.loop(1, inv=lambda L: lay_inv() + [
            ('range', (L.i >= 0) & (L.i <= lay.size())),
            ('waypoints_decoded_so_far', S.forall(0, N + 1, lambda p: [
                CW.at(p, d).eq(ite((p >= first_idx(S)) & (p < first_idx(S) + L.i), PH(p, d), ref.at(p, d))) for d in range(D)])),
        ], variant=lambda L: lay.size() - L.i, terms=lambda L: [L.i, L.i + first_idx(S), cnt - L.i - 1, cnt - L.i, L.i + 1])

        def before_update(G):
            ns = G.ctx
            same = lambda a, b: E.const(a is b or getattr(a, 'name', 1) == getattr(b, 'name', 2))
            G.lemma(same(ns.v('callee'), W('spline')), 'workspace_spline_is_updated')
            G.lemma(same(ns.v('carg0'), T), 'update_receives_decoded_durations')
            G.lemma(same(ns.v('carg1'), CW), 'update_receives_decoded_waypoints')
            G.lemma(ns.carg2.eq(S.start_time_), 'update_receives_start_time')
            bc = ns.v('carg3')
            refbc = S.v('ref_bc_')
            rank = E.const(0)
            for f, flag in bc_slots(S):
                for d in range(D):
                    G.lemma(bc.fields[f].at(d, 0).eq(ite(fl[flag], x.at(doff + rank * D + d, 0), refbc.fields[f].at(d, 0))),
                            'boundary_%s_decoded_coord%d' % (f, d))
                rank = rank + ite(fl[flag], 1, 0)
            sk = S.sk(0)
            G.lemma(implies((sk >= 0) & (sk < N), T.at(sk).eq(TT(sk))), 'durations_are_time_map_of_first_N_variables')
            for d in range(D):
                G.lemma(implies((sk >= 0) & (sk <= N), CW.at(sk, d).eq(decoded_row(sk, d))), 'waypoints_are_spatial_map_of_layout_entries_else_reference_coord%d' % d)
        S.ghost('call.update.before', before_update)

        def time_call(G):
            ns = G.ctx
            G.lemma(E.const(ns.v('arg0') is T or getattr(ns.v('arg0'), 'name', 1) == T.name), 'time_cost_receives_decoded_durations')
        S.ghost('time_cost.call', time_call)
        S.ghost('time_cost.ret', lambda G: G.set(lv(tc), G.ctx.ret))

        def wp_call(G):
            ns = G.ctx
            G.lemma(E.const(getattr(ns.v('arg0'), 'name', 1) == CW.name), 'waypoint_cost_receives_decoded_waypoints')
        S.ghost('entry', lambda G: G.set(lv(wc), E.const(Fraction(0))))        # stays zero when no waypoint functor is called
        S.ghost('waypoints_cost.call', wp_call)
        S.ghost('waypoints_cost.ret', lambda G: G.set(lv(wc), G.ctx.ret))
        snap = S.fresh_real('cost_before_quadrature')
        S.ghost('call.calculateIntegralCost.before', lambda G: G.set(lv(snap), G.ctx.total_cost))
        S.ghost('call.calculateIntegralCost.after', lambda G: G.set(lv(trap), G.ctx.total_cost - snap))
        S.ghost('call.getEnergy.after', lambda G: G.set(lv(en), G.ctx.ret))
        def after_propagate(G):
            G.copy_array(PGTn, GR.fields['times'].col(0))
            for d in range(D):
                G.copy_array(PGI[d][1], GR.fields['inner_points'].col(d))
            for (side, nm, d), z in PGB.items():
                G.set(lv(z), GR.fields[side].fields[nm].at(d, 0))
        S.ghost('call.propagateGrad.after', after_propagate)
        # ---- write-back through the time map
        grads_final = lambda: [('duration_gradient', S.forall(0, N, lambda i: [GR.fields['times'].at(i, 0).eq(PGT(i) + wE(EGr.fields['times'].at(i, 0)))])),
                               ('shapes', GR.fields['times'].R.eq(N) & GR.fields['inner_points'].R.eq(ite(N > 1, N - 1, 0)) & gout.R.eq(x.R))]

        def loop2_inv(L):
            loopvar[2] = L.i
            return grads_final() + [('range', (L.i >= 0) & (L.i <= N)), ('written', S.forall(0, L.i, lambda i: [gout.at(i, 0).eq(TB(i))]))]
        S.loop(2, inv=loop2_inv, variant=lambda L: N - L.i, terms=lambda L: [L.i])

        def backward(G):
            ns = G.ctx
            i = loopvar[2]
            G.lemma(ns.arg0.eq(x.at(i, 0)) & ns.arg1.eq(T.at(i)) & ns.arg2.eq(GR.fields['times'].at(i, 0)), 'time_map_backward_receives_variable_duration_and_duration_gradient')
            G.assume_fact(ns.ret.eq(TB(i)), 'TBACK[i] names the result')
        S.ghost('time_map.backward', backward)
        # ---- write-back through the spatial map
        def loop3_inv(L):
            loopvar[3] = L.i
            return lay_inv() + [('range', (L.i >= 0) & (L.i <= lay.size())), ('shape', gout.R.eq(x.R)),
                                ('offsets_monotone_so_far', S.forall(0, L.i + 1, lambda k: [OFF(k) <= OFF(L.i)])),
                                ('time_part', S.forall(0, N, lambda i: [gout.at(i, 0).eq(TB(i))])),
                                ]
        S.loop(3, inv=loop3_inv, variant=lambda L: lay.size() - L.i, terms=lambda L: [L.i, L.i + 1, cnt - L.i - 1, cnt - L.i, E.const(0), OFF(S.sk(0)), OFF(L.i), S.sk(0) + 1, S.sk(0)])

        def spatial_back(G):
            ns = G.ctx
            k = loopvar[3]
            p = k + first_idx(S)
            G.lemma(ns.arg2.eq(p), 'spatial_backward_receives_the_point_index')
            for d in range(D):
                G.lemma(ns.v('arg1').at(d, 0).eq(point_grad(p, d)), 'spatial_backward_receives_the_gradient_of_that_point_%d' % d)
        S.ghost('spatial_map.backwardGrad', spatial_back)


# ================================================================================================ copies (C15)
from values import SmallMat, StoreMat, DynSmallMat, StdVec, StructVec, MatVec, CountVec, StrV, Obj, PtrSlot, MutexV, EnumV

TAG_THIS_TIME, TAG_THIS_SPATIAL, TAG_OTHER_TIME, TAG_OTHER_SPATIAL, TAG_THIS_WS, TAG_OTHER_WS, TAG_USER_MIN = 1, 2, 3, 4, 5, 6, 100


def same_value(S, a, b, path, skipped):
    """[(label, E|Quant)]: the value members of a equal those of b (logical contents: sizes and the cells below them)"""
    out = []
    if isinstance(a, (PtrSlot, MutexV)):
        return out
    if isinstance(a, Obj):
        for f in a.fields:
            if f == 'last_error_message_':
                continue     # diagnostic text of the last failed validation: not part of what the property calls 'evaluates identically'
            out += same_value(S, a.fields[f], b.fields[f], path + '.' + f, skipped)
        return out
    if isinstance(a, ScalarVar):
        return [(path, a.rd().eq(b.rd()))]
    if isinstance(a, StrV):
        return [(path + '.empty', a.empty().eq(b.empty()))]
    if isinstance(a, CountVec):
        return [(path + '.size', a.size().eq(b.size()))]
    if isinstance(a, StdVec):
        return [(path + '.size', a.size().eq(b.size())), (path, S.forall(0, b.size(), lambda k: a.at(k).eq(b.at(k))))]
    if isinstance(a, StructVec):
        from ir import LV
        cell = lambda v, f, t, k: E.idx(v.farr(f), k, t)
        return [(path + '.size', a.size().eq(b.size())),
                (path, S.forall(0, b.size(), lambda k: [cell(a, f, t, k).eq(cell(b, f, t, k)) for f, t in a.fields]))]
    if isinstance(a, DynSmallMat) or isinstance(a, MatVec):
        skipped.append(path)
        return out
    if isinstance(a, StoreMat):
        return [(path + '.rows', E.const(a.R).eq(b.R)), (path, S.forall(0, b.R, lambda r: [a.at(r, c).eq(b.at(r, c)) for c in range(a.C)]))]
    if isinstance(a, SmallMat):
        return [(path, conj([a.at(r, c).eq(b.at(r, c)) for r in range(a.R) for c in range(a.C)]))]
    skipped.append(path + ' (%s)' % type(a).__name__)
    return out


def source_well_formed(S, o):
    tm, sm = o.fields['active_time_map_'], o.fields['active_spatial_map_']
    return [('source_time_map_bound', mk_not(tm.null()) & (tm.tag().eq(TAG_OTHER_TIME) | (tm.tag() >= TAG_USER_MIN))),
            ('source_spatial_map_bound', mk_not(sm.null()) & (sm.tag().eq(TAG_OTHER_SPATIAL) | (sm.tag() >= TAG_USER_MIN)))]


def copy_post(S, this, other):
    """an independent deep copy: same value members; default bindings re-pointed at the copy's own default maps, user maps shared;
    the built-in workspace, if the source has one, is a fresh allocation with the same contents"""
    skipped = []
    out = [('copies_' + lab.strip('.'), p) for lab, p in same_value(S, this, other, '', skipped)]
    for f, own, src_def in (('active_time_map_', TAG_THIS_TIME, TAG_OTHER_TIME), ('active_spatial_map_', TAG_THIS_SPATIAL, TAG_OTHER_SPATIAL)):
        a, b = this.fields[f], other.fields[f]
        out.append((f + 'bound', mk_not(a.null())))
        out.append((f + 'default_binding_is_rebound_to_own_default', implies(b.tag().eq(src_def), a.tag().eq(own))))
        out.append((f + 'user_map_is_shared', implies(b.tag() >= TAG_USER_MIN, a.tag().eq(b.tag()))))
        out.append((f + 'never_points_into_the_source', a.tag().ne(src_def)))
    wa, wb = this.fields['internal_ws_'], other.fields['internal_ws_']
    out.append(('workspace_presence_copied', wa.null().eq(wb.null())))
    out.append(('workspace_is_an_own_allocation', implies(mk_not(wa.null()), wa.tag().eq(TAG_THIS_WS))))
    for lab, p in same_value(S, wa.target, wb.target, 'workspace', skipped):
        out.append(('deep_copy_' + lab, under(mk_not(wb.null()), p)))
    S.gen.notes_c15 = skipped
    return out


@register
class CopyConstruct(Contract):
    key = 'SplineOptimizer.ctor1'

    def spec(self, S):
        this, other = S.v('this'), S.v('other')
        for lab, p in source_well_formed(S, other):
            S.requires(p, lab)
        S.terms(0)
        S.assigns(this, this.fields['internal_ws_'].target)
        for lab, p in copy_post(S, this, other):
            S.ensures(p, lab)


@register
class CopyAssign(Contract):
    key = 'SplineOptimizer.operator='

    def spec(self, S):
        this, other = S.v('this'), S.v('other')
        S.terms(0)
        if other is this:
            # self-assignment: nothing changes
            S.assigns()
            return
        for lab, p in source_well_formed(S, other):
            S.requires(p, lab)
        tm, sm = this.fields['active_time_map_'], this.fields['active_spatial_map_']
        S.requires(mk_not(tm.null()) & (tm.tag().eq(TAG_THIS_TIME) | (tm.tag() >= TAG_USER_MIN)) &
                   mk_not(sm.null()) & (sm.tag().eq(TAG_THIS_SPATIAL) | (sm.tag() >= TAG_USER_MIN)), 'target_maps_bound')
        S.assigns(this, this.fields['internal_ws_'].target)
        for lab, p in copy_post(S, this, other):
            S.ensures(p, lab)


# ================================================================================================ gradient self-check (C19)
@register
class CheckGradients(Contract):
    """three-cost checkGradients on a caller-supplied workspace"""
    key = 'SplineOptimizer.checkGradients'
    nparams = 7

    def spec(self, S):
        x = S.v('x')
        ws = S.v('ws').target
        eps, tol = S.eps, S.tol
        R = S.v('result')
        an, nu = R.fields['analytical'], R.fields['numerical']
        OFF = layout_defs(S)
        for label, p in evaluate_requires(S, OFF, x, ws):
            S.requires(p, label)
        S.requires(eps.ne(0), 'nonzero_step')
        n = x.R
        S.terms(0, n)
        S.assigns(ws, *[S.v(v) for v in LAYOUT_STATE])
        CP, _ = S.spec_array('CP')      # CP[i]: the cost evaluate returned at x + eps e_i
        CM, _ = S.spec_array('CM')      # CM[i]: the cost evaluate returned at x - eps e_i
        r2e = S.fresh_real('inv_two_eps')
        (S.ensures if S.mode == 'call' else S.requires)((2 * eps * r2e).eq(1), 'def_one_over_two_eps')
        S.ensures(an.R.eq(n) & nu.R.eq(n), 'both_gradients_have_the_size_of_the_decision_vector')
        S.ensures(S.forall(0, n, lambda i: [nu.at(i, 0).eq((CP(i) - CM(i)) * r2e)]), 'numerical_gradient_is_the_central_difference_of_the_cost')
        S.ensures(R.fields['valid'].rd().eq(R.fields['error_norm'].rd() < tol), 'verdict_is_error_norm_below_tolerance')
        S.ensures(R.fields['error_norm'].rd() >= 0, 'error_norm_non_negative')
        S.ensures(S.forall(0, n, lambda k: [R.fields['error_norm'].rd() * R.fields['error_norm'].rd() >= (an.at(k, 0) - nu.at(k, 0)) * (an.at(k, 0) - nu.at(k, 0))]),
                  'error_norm_dominates_every_component_difference')
        if S.mode != 'verify':
            return
        state = {'calls': 0, 'i': None}
        S.ghost('entry', lambda G: state.update(calls=0))

        def loop0_inv(L):
            state['i'] = L.i
            return [('range', (L.i >= 0) & (L.i <= n)), ('sizes', L.x_temp.R.eq(n) & L.dummy_grad.R.eq(n) & L.res.fields['numerical'].R.eq(n) & L.res.fields['analytical'].R.eq(n)),
                    ('perturbed_vector_restored', S.forall(0, n, lambda k: [L.x_temp.at(k, 0).eq(x.at(k, 0))])),
                    ('central_differences_so_far', S.forall(0, L.i, lambda k: [L.res.fields['numerical'].at(k, 0).eq((CP(k) - CM(k)) * r2e)])),
                    ('evaluate_can_run_again', mk_not(S.layout_dirty_) & workspace_sized(S, ws, S.num_segments_))] + \
                   [('layout_' + label, p) for label, p in layout_ok(S, OFF)]
        S.loop(0, inv=loop0_inv, variant=lambda L: n - L.i, terms=lambda L: [L.i])

        def before(G):
            ns = G.ctx
            c = state['calls']
            state['calls'] = c + 1
            same = lambda a, b: E.const(getattr(a, 'name', 1) == getattr(b, 'name', 2))
            tgt = ns.v('carg5')
            G.lemma(E.const(getattr(tgt, 'target', None) is ws), 'every_evaluation_uses_the_given_workspace')
            if c in (0, 3):
                G.lemma(same(ns.v('carg0'), x), 'analytic_gradient_evaluated_at_the_checked_vector' if c == 0 else 'final_evaluation_restores_the_state_of_the_checked_vector')
                G.lemma(same(ns.v('carg1'), ns.v('res').fields['analytical']), 'analytic_gradient_is_what_evaluate_wrote' if c == 0 else 'final_evaluation_rewrites_the_analytic_gradient')
            else:
                i = state['i']
                sk = S.sk(0)
                sign = 1 if c == 1 else -1
                xt = ns.v('carg0')
                G.lemma(implies((sk >= 0) & (sk < n), xt.at(sk, 0).eq(x.at(sk, 0) + ite(sk.eq(i), sign * eps, 0))),
                        'cost_plus_is_evaluated_at_x_plus_eps_e_i' if c == 1 else 'cost_minus_is_evaluated_at_x_minus_eps_e_i')
                G.lemma(E.const(getattr(ns.v('carg1'), 'name', 1) != getattr(ns.v('res').fields['analytical'], 'name', 2)), 'perturbed_evaluations_do_not_touch_the_analytic_gradient')
        S.ghost('call.evaluate.before', before)

        def after(G):
            c = state['calls']          # already incremented by the matching 'before'
            if c == 2:
                G.assume_fact(G.ctx.ret.eq(CP(state['i'])), 'CP[i] names the cost at x + eps e_i')
            elif c == 3:
                G.assume_fact(G.ctx.ret.eq(CM(state['i'])), 'CM[i] names the cost at x - eps e_i')
        S.ghost('call.evaluate.after', after)


@register
class CheckGradientsTwoCost(Contract):
    """two-cost overload: forwards to the three-cost one with a zero waypoint cost and the caller's step and tolerance"""
    key = 'SplineOptimizer.checkGradients'
    nparams = 6

    def spec(self, S):
        x = S.v('x')
        ws = S.v('ws').target
        OFF = layout_defs(S)
        for label, p in evaluate_requires(S, OFF, x, ws):
            S.requires(p, label)
        S.requires(S.eps.ne(0), 'nonzero_step')
        S.assigns(ws, *[S.v(v) for v in LAYOUT_STATE])
        R = S.v('result')
        S.ensures(R.fields['valid'].rd().eq(R.fields['error_norm'].rd() < S.tol), 'verdict_uses_the_callers_tolerance')
        if S.mode != 'verify':
            return

        def before(G):
            ns = G.ctx
            G.lemma(ns.carg5.eq(S.eps) & ns.carg6.eq(S.tol), 'forwards_the_callers_step_and_tolerance')
            G.lemma(E.const(getattr(ns.v('carg0'), 'name', 1) == getattr(x, 'name', 2)), 'forwards_the_checked_vector')
        S.ghost('call.checkGradients.before', before)


@register
class EvaluateTwoCost(Contract):
    """two-cost evaluate: forwards to the three-cost overload with the zero waypoint cost and everything else unchanged"""
    key = 'SplineOptimizer.evaluate'
    nparams = 6

    def spec(self, S):
        x, gout = S.v('x'), S.v('grad_out')
        ws = S.v('ws').target
        OFF = layout_defs(S)
        for label, p in evaluate_requires(S, OFF, x, ws):
            S.requires(p, label)
        S.assigns(ws, gout, *[S.v(v) for v in LAYOUT_STATE])
        inner = S.fresh_real('inner_cost')
        S.ensures(S.result.eq(inner), 'returns_what_the_three_cost_overload_returns')
        if S.mode != 'verify':
            return
        from ir import LV

        def before(G):
            ns = G.ctx
            same = lambda a, b: E.const(a is b or getattr(a, 'name', 1) == getattr(b, 'name', 2))
            G.lemma(same(ns.v('carg0'), x) & same(ns.v('carg1'), gout), 'forwards_decision_vector_and_gradient')
            G.lemma(E.const(ns.v('carg2') is S.v('time_cost_func')) & E.const(ns.v('carg4') is S.v('integral_cost_func')), 'forwards_the_two_cost_functors')
            G.lemma(E.const(getattr(ns.v('carg3'), 'cls', None) is not None and ns.v('carg3').cls.name == 'VoidWaypointsCost'), 'waypoint_cost_is_the_zero_cost')
            G.lemma(E.const(getattr(ns.v('carg5'), 'target', None) is ws), 'forwards_the_workspace')
        S.ghost('call.evaluate.before', before)
        S.ghost('call.evaluate.after', lambda G: G.set(LV(inner.args[0], REAL), G.ctx.ret))


@register
class GenerateInitialGuess(Contract):
    """encode of the reference state, in the same layout terms as evaluate's decode"""
    key = 'SplineOptimizer.generateInitialGuess'

    def spec(self, S):
        D = S.cfg['DIM']
        N = S.num_segments_
        fl = flags(S)
        x = S.v('result')
        OFF = layout_defs(S)
        for label, p in layout_ok(S, OFF):
            S.requires(under(mk_not(S.layout_dirty_), p), 'layout_invariant_' + label)
        cnt = n_entries(S)
        doff = OFF(cnt)
        dim = doff + n_blocks(S) * D
        rt, rw, rbc = S.v('ref_times_'), S.v('ref_waypoints_'), S.v('ref_bc_')
        S.requires((N >= 1) & (N <= NMAX) & rt.size().eq(N) & rw.R.eq(N + 1), 'configured_problem')
        S.terms(0, N, N - 1, cnt, cnt - 1)
        S.assigns(*[S.v(v) for v in LAYOUT_STATE])
        TAU, _ = S.spec_array('TAU')             # TAU[i] names toTau(reference duration i)
        S.ensures(x.R.eq(dim), 'initial_guess_has_the_layout_dimension')
        S.ensures(S.forall(0, N, lambda i: [x.at(i, 0).eq(TAU(i))]), 'first_N_variables_are_time_map_inverse_of_the_reference_durations')
        rank = E.const(0)
        for f, flag in bc_slots(S):
            for d in range(D):
                S.ensures(implies(fl[flag], x.at(doff + rank * D + d, 0).eq(rbc.fields[f].at(d, 0))), 'boundary_block_%s_holds_the_reference_value_%d' % (f, d))
            rank = rank + ite(fl[flag], 1, 0)
        if S.mode != 'verify':
            return
        lay = S.v('spatial_layout_')
        lv_ = {}
        lay_inv = lambda: [('layout_size', lay.size().eq(cnt) & mk_not(S.layout_dirty_)),
                           ('layout_entries', S.forall(0, lay.size(), lambda k: conj([
                               lay.elem(k).field('point_index').rd().eq(k + first_idx(S)),
                               lay.elem(k).field('dof').rd().eq(DOF(k + first_idx(S))),
                               lay.elem(k).field('offset').rd().eq(OFF(k))]))),
                           ('offsets_below_total', S.forall(0, cnt + 1, lambda j: OFF(cnt - j) <= OFF(cnt)))]
        S.terms(cnt - S.sk(0) - 1, cnt - S.sk(0))
        S.ghost('call.ensureLayoutCache.after', lambda G: G.induction(0, cnt + 1, lambda j: [OFF(cnt - j) <= OFF(cnt)], 'offsets_below_total'))

        def loop0_inv(L):
            lv_[0] = L.i
            return lay_inv() + [('range', (L.i >= 0) & (L.i <= N)), ('size', L.x.R.eq(dim)), ('times', S.forall(0, L.i, lambda i: [L.x.at(i, 0).eq(TAU(i))]))]
        S.loop(0, inv=loop0_inv, variant=lambda L: N - L.i, terms=lambda L: [L.i])

        def to_tau(G):
            G.lemma(G.ctx.arg0.eq(rt.at(lv_[0])), 'time_map_inverse_receives_the_reference_duration')
            G.assume_fact(G.ctx.ret.eq(TAU(lv_[0])), 'TAU[i] names toTau(reference duration i)')
        S.ghost('time_map.toTau', to_tau)

        def loop1_inv(L):
            lv_[1] = L.i
            return lay_inv() + [('range', (L.i >= 0) & (L.i <= lay.size())), ('size', L.x.R.eq(dim)),
                                ('offsets_monotone_so_far', S.forall(0, L.i + 1, lambda k: [OFF(k) <= OFF(L.i)])),
                                ('times', S.forall(0, N, lambda i: [L.x.at(i, 0).eq(TAU(i))]))]
        S.loop(1, inv=loop1_inv, variant=lambda L: lay.size() - L.i, terms=lambda L: [L.i, L.i + 1, cnt - L.i - 1, cnt - L.i])

        def to_unc(G):
            ns = G.ctx
            p = lv_[1] + first_idx(S)
            G.lemma(ns.arg1.eq(p), 'spatial_map_inverse_receives_the_point_index')
            for d in range(D):
                G.lemma(ns.v('arg0').at(d, 0).eq(rw.at(p, d)), 'spatial_map_inverse_receives_the_reference_waypoint_%d' % d)
        S.ghost('spatial_map.toUnconstrained', to_unc)
