"""Contracts for SplineOptimizer (properties C09, C16, ...)."""
from base import *
from fractions import Fraction

NMAX = 1 << 22
MIN_DURATION = Fraction(1, 1000)       # "at least one millisecond" (property C16)


def fin(e):
    """finiteness ghost of a stored double (see translate_call.is_finite)"""
    if e.op == 'var':
        return E.var(e.args[0] + '__fin', BOOL)
    if e.op == 'idx':
        return E.idx(e.args[0] + '__fin', e.args[1], BOOL)
    raise ValueError('no finiteness ghost for %r' % (e,))


def order_of(S):
    return {'CubicSplineND': 3, 'QuinticSplineND': 5, 'SepticSplineND': 7}[S.cfg['SplineType']['cls']]


def bc_fields_used(S):
    o = order_of(S)
    f = ['start_velocity', 'end_velocity']
    if o >= 5:
        f += ['start_acceleration', 'end_acceleration']
    if o >= 7:
        f += ['start_jerk', 'end_jerk']
    return f


def validity(S, times, wps, start, bc, nseg):
    """the acceptance condition of property C16, as a list of (label, E | Quant)"""
    D = S.cfg['DIM']
    out = [('at_least_one_segment', nseg >= 1),
           ('one_more_waypoint_than_durations', times.size().eq(nseg) & wps.R.eq(nseg + 1)),
           ('start_time_finite', fin(start))]
    out.append(('durations_finite_and_at_least_1ms', S.forall(0, times.size(), lambda i: fin(times.at(i)) & (times.at(i) >= MIN_DURATION))))
    out.append(('waypoints_finite', S.forall(0, wps.R, lambda i: [fin(wps.at(i, d)) for d in range(D)])))
    for f in bc_fields_used(S):
        out.append(('%s_finite' % f, conj([fin(bc.fields[f].at(d, 0)) for d in range(D)])))
    return out


def pnull(p):
    n = p.null
    return n() if callable(n) else n


class _NoStr(object):
    def empty(self):
        return E.const(True)


def ptarget(p):
    return p.target if p.target is not None else _NoStr()


def under(c, p):
    if isinstance(p, Quant):
        return Quant(p.lo, p.hi, (lambda k, p=p: implies(c, _cj(p.body(k)))), inst=p.inst)
    return implies(c, p)


def _cj(b):
    if isinstance(b, (list, tuple)):
        return conj([_cj(x) for x in b])
    return b


@register
class ReportError(Contract):
    key = 'SplineOptimizer.reportError'

    def spec(self, S):
        errs = S.v('errors')
        out = S.v('out')
        msg = S.v('last_error_message_')
        S.requires((errs.size() >= 0) & (errs.size() <= 1 << 26), 'count_sane')
        S.assigns(*[x for x in (msg, out.target) if x is not None])
        S.ensures(implies(errs.size() > 0, mk_not(msg.empty())), 'message_recorded')
        S.ensures(implies((errs.size() > 0) & mk_not(pnull(out)), mk_not(ptarget(out).empty())), 'message_returned')
        S.ensures(implies(errs.size().eq(0), msg.empty().eq(S.old.get('last_error_message_').empty())), 'nothing_to_report')
        S.loop(0, inv=lambda L: [('range', (L.i >= 0) & (L.i <= errs.size()))], variant=lambda L: errs.size() - L.i)


@register
class CheckValidity(Contract):
    """verdict <=> stated conditions: the two directions are two harness variants (generator option `variant`)"""
    key = 'SplineOptimizer.checkValidity'

    def spec(self, S):
        variant = S.gen.opt.get('variant', 'sound')
        n = S.num_segments_
        times, wps, bc = S.v('ref_times_'), S.v('ref_waypoints_'), S.v('ref_bc_')
        start = S.v('start_time_').rd()
        msg = S.v('last_error_message_')
        out = S.v('msg_out')
        cond = validity(S, times, wps, start, bc, n)
        S.requires((times.size() >= 0) & (times.size() <= NMAX) & (wps.R >= 0) & (wps.R <= NMAX + 1) & (n >= -NMAX) & (n <= NMAX), 'sizes_sane')
        S.assigns(*[x for x in (msg, out.target) if x is not None])
        D = S.cfg['DIM']
        if variant == 'sound':
            for label, p in cond:
                S.ensures(under(S.result, p), 'accepted_implies_' + label)
            S.ensures(implies(mk_not(S.result), mk_not(msg.empty())), 'rejection_has_message')
            S.ensures(implies(mk_not(S.result) & mk_not(pnull(out)), mk_not(ptarget(out).empty())), 'rejection_message_returned')
            S.ensures(implies(S.result & mk_not(pnull(out)), ptarget(out).empty()), 'acceptance_clears_returned_message')
            S.ensures(implies(S.result, msg.empty().eq(S.old.get('last_error_message_').empty())), 'acceptance_keeps_last_message')
            pre = lambda L: L.errors.size() >= 0
            S.loop(0, inv=lambda L: [('range', (L.i >= 0) & (L.i <= times.size())), ('count', (L.errors.size() >= 0) & (L.errors.size() <= L.i + 4)),
                                     ('earlier', implies(L.errors.size().eq(0), conj([c for _, c in cond[:3] if not isinstance(c, Quant)]))),
                                     ('durations', S.forall(0, L.i, lambda k: implies(L.errors.size().eq(0), fin(times.at(k)) & (times.at(k) >= MIN_DURATION))))],
                   variant=lambda L: times.size() - L.i)
            S.loop(1, inv=lambda L: [('range', (L.i >= 0) & (L.i <= wps.R)), ('count', (L.errors.size() >= 0) & (L.errors.size() <= times.size() + L.i + 4)),
                                     ('earlier', implies(L.errors.size().eq(0), conj([c for _, c in cond[:3] if not isinstance(c, Quant)]))),
                                     ('durations', S.forall(0, times.size(), lambda k: implies(L.errors.size().eq(0), fin(times.at(k)) & (times.at(k) >= MIN_DURATION)))),
                                     ('waypoints', S.forall(0, L.i, lambda k: implies(L.errors.size().eq(0), conj([fin(wps.at(k, d)) for d in range(D)]))))],
                   variant=lambda L: wps.R - L.i)
        else:
            for label, p in cond:
                S.requires(p, label)
            S.ensures(S.result, 'valid_problem_accepted')
            S.ensures(implies(mk_not(pnull(out)), ptarget(out).empty()), 'no_message_returned')
            S.ensures(msg.empty().eq(S.old.get('last_error_message_').empty()), 'acceptance_keeps_last_message')
            S.loop(0, inv=lambda L: [('range', (L.i >= 0) & (L.i <= times.size())), ('no_errors', L.errors.size().eq(0))],
                   variant=lambda L: times.size() - L.i, terms=lambda L: [L.i])
            S.loop(1, inv=lambda L: [('range', (L.i >= 0) & (L.i <= wps.R)), ('no_errors', L.errors.size().eq(0))],
                   variant=lambda L: wps.R - L.i, terms=lambda L: [L.i])


OPT_INIT_STATE = ('start_time_', 'ref_times_', 'ref_waypoints_', 'ref_bc_', 'num_segments_', 'layout_dirty_', 'is_valid_', 'last_error_message_')


@register
class SetInitStateDurations(Contract):
    """setInitState(durations, waypoints, start, bc): verdict <=> stated conditions on the *new* inputs, from any previous state"""
    key = 'SplineOptimizer.setInitState'
    nparams = 4

    def spec(self, S):
        variant = S.gen.opt.get('variant', 'sound')
        D = S.cfg['DIM']
        ts, wp, bc = S.v('time_segments'), S.v('waypoints'), S.v('bc')
        start = S.v('start_time')
        start_e = start.rd() if hasattr(start, 'rd') else start
        msg = S.v('last_error_message_')
        ws = S.v('internal_ws_')
        S.requires((ts.size() >= 0) & (ts.size() <= NMAX) & (wp.R >= 0) & (wp.R <= NMAX + 1), 'sizes_sane')
        assigned = [S.v(x) for x in OPT_INIT_STATE]
        if ws.target is not None:
            assigned.append(ws.target)
        S.assigns(*assigned)
        cond = validity(S, ts, wp, start_e, bc, ts.size())
        S.ensures(S.is_valid_.eq(S.result), 'flag_equals_verdict')
        S.ensures(msg.empty().eq(S.result), 'message_available_exactly_when_rejected')
        OFF = layout_defs_after(S)
        for label, q in layout_ok(S, OFF):
            S.ensures(under(mk_not(S.layout_dirty_), q), 'kept_cache_matches_new_configuration_' + label)
        S.ensures(S.num_segments_.eq(ts.size()) & S.start_time_.eq(start_e), 'inputs_stored')
        if variant == 'sound':
            for label, p in cond:
                S.ensures(under(S.result, p), 'accepted_implies_' + label)
        else:
            for label, p in cond:
                S.requires(p, label)
            S.ensures(S.result, 'valid_problem_accepted')


@register
class SetInitStateTimePoints(Contract):
    key = 'SplineOptimizer.setInitState'
    nparams = 3

    def spec(self, S):
        tp = S.v('t_points')
        msg = S.v('last_error_message_')
        ws = S.v('internal_ws_')
        S.requires((tp.size() >= 0) & (tp.size() <= NMAX) & (S.v('waypoints').R >= 0) & (S.v('waypoints').R <= NMAX + 1), 'sizes_sane')
        assigned = [S.v(x) for x in OPT_INIT_STATE]
        if ws.target is not None:
            assigned.append(ws.target)
        S.assigns(*assigned)
        S.ensures(S.is_valid_.eq(S.result), 'flag_equals_verdict')
        S.ensures(msg.empty().eq(S.result), 'message_available_exactly_when_rejected')
        S.ensures(implies(tp.size().eq(0), mk_not(S.result)), 'no_time_points_rejected')
        S.ensures(implies(S.result, S.num_segments_.eq(tp.size() - 1) & S.start_time_.eq(tp.at(0))), 'accepted_stores_first_time_point_and_count')
        S.loop(0, inv=lambda L: [('range', (L.i >= 1) & (L.i <= tp.size())), ('size', L.time_segments.size().eq(L.i - 1))], variant=lambda L: tp.size() - L.i)


@register
class IsValid(Contract):
    key = 'SplineOptimizer.isValid'

    def spec(self, S):
        S.assigns()
        S.ensures(S.result.eq(S.is_valid_), 'returns_flag')


# ------------------------------------------------------------------------------------------------ C09: decision-vector layout
from translate_call import AbstractObj
from values import ExprMat


class AbstractSpatialMap(AbstractObj):
    """a user spatial map known only through its protocol: getUnconstrainedDim(i) = DOF[i] (a fixed non-negative function)"""
    identity_tag = 7

    def call(self, tr, name, args, n):
        if name == 'getUnconstrainedDim':
            tr.globals_a['SPEC_DOF'] = INT
            return E.idx('SPEC_DOF', tr.scalar(args[0]), INT)
        raise ValueError('abstract spatial map: no rule for %s' % name)


def DOF(i):
    return E.idx('SPEC_DOF', i, INT)


def flags(S):
    f = S.v('flags_')
    return dict((k, f.fields[k].rd()) for k in f.fields)


def first_idx(S):
    return ite(flags(S)['start_p'], 0, 1)


def n_entries(S):
    """number of optimised waypoints: the inner ones always, first/last only when flagged"""
    n = S.num_segments_
    fl = flags(S)
    return (n - 1) + ite(fl['start_p'], 1, 0) + ite(fl['end_p'], 1, 0)


def n_blocks(S):
    fl = flags(S)
    o = order_of(S)
    b = ite(fl['start_v'], 1, 0) + ite(fl['end_v'], 1, 0)
    if o >= 5:
        b = b + ite(fl['start_a'], 1, 0) + ite(fl['end_a'], 1, 0)
    if o >= 7:
        b = b + ite(fl['start_j'], 1, 0) + ite(fl['end_j'], 1, 0)
    return b


def layout_ok(S, OFF):
    """the layout cache describes exactly the stated decision-vector layout"""
    n = S.num_segments_
    D = S.cfg['DIM']
    lay = S.v('spatial_layout_')
    cnt = n_entries(S)
    out = []
    out.append(('empty_problem', implies(n <= 0, lay.size().eq(0) & S.derivatives_offset_.eq(0) & S.total_dimension_.eq(0))))
    out.append(('one_entry_per_optimised_point', implies(n > 0, lay.size().eq(cnt))))
    out.append(('entries', S.forall(0, lay.size(), lambda k: implies(n > 0, conj([
        lay.elem(k).field('point_index').rd().eq(k + first_idx(S)),
        lay.elem(k).field('dof').rd().eq(DOF(k + first_idx(S))),
        lay.elem(k).field('offset').rd().eq(OFF(k))])))))
    out.append(('derivative_blocks_follow_spatial_variables', implies(n > 0, S.derivatives_offset_.eq(OFF(cnt)))))
    out.append(('dimension', implies(n > 0, S.total_dimension_.eq(S.derivatives_offset_ + n_blocks(S) * D))))
    return out


def layout_defs(S):
    """OFF[k] = n + sum of the unconstrained dimensions of the first k optimised points"""
    n = S.num_segments_
    S.gen.globals_a['SPEC_DOF'] = INT
    S.requires((n <= NMAX) & (n >= -NMAX), 'size_sane')
    S.requires(S.forall(0, NMAX + 2, lambda i: (DOF(i) >= 0) & (DOF(i) <= 64)), 'unconstrained_dimensions_sane')
    acc, full = S.spec_array('OFF', INT, shared=True)
    facts = [acc(0).eq(n), S.forall(0, NMAX + 2, lambda k: acc(k + 1).eq(acc(k) + DOF(k + first_idx(S))))]
    S.definitions.append((full, facts))
    for j, f in enumerate(facts):
        (S.ensures if S.mode == 'call' else S.requires)(f, 'def_OFF_%d' % j)
    (S.ensures if S.mode == 'call' else S.requires)(S.forall(0, NMAX + 2, lambda k: (acc(k) >= n) & (acc(k) <= n + 64 * k)), 'offsets_bounded')
    return acc


def layout_defs_after(S):
    """OFF for the configuration *after* a setter: an arbitrary array satisfying the recurrence over the post-state (the
    postcondition is stated for every such array, i.e. for the one the next rebuild would compute)"""
    S.gen.globals_a['SPEC_DOF'] = INT
    acc, full = S.spec_array('OFFNEW', INT)
    return acc


LAYOUT_STATE = ('spatial_layout_', 'derivatives_offset_', 'total_dimension_', 'layout_dirty_')


@register
class RebuildLayoutCache(Contract):
    key = 'SplineOptimizer.rebuildLayoutCache'

    def spec(self, S):
        OFF = layout_defs(S)
        n = S.num_segments_
        lay = S.v('spatial_layout_')
        fl = flags(S)
        S.assigns(*[S.v(x) for x in LAYOUT_STATE])
        S.ensures(mk_not(S.layout_dirty_), 'clean')
        for label, p in layout_ok(S, OFF):
            S.ensures(p, label)
        S.terms(0, n, n - 1)
        seen = lambda i: i - ite(mk_not(fl['start_p']) & (i > 0), 1, 0) - ite(mk_not(fl['end_p']) & (i > n), 1, 0)
        S.loop(0, inv=lambda L: [
            ('range', (L.i >= 0) & (L.i <= n + 1)),
            ('count', lay.size().eq(seen(L.i))),
            ('offset', L.offset.eq(OFF(lay.size()))),
            ('entries', S.forall(0, lay.size(), lambda k: conj([
                lay.elem(k).field('point_index').rd().eq(k + first_idx(S)),
                lay.elem(k).field('dof').rd().eq(DOF(k + first_idx(S))),
                lay.elem(k).field('offset').rd().eq(OFF(k))]))),
        ], variant=lambda L: n + 1 - L.i, terms=lambda L: [L.i, lay.size(), lay.size() - 1, lay.size() + 1])


@register
class EnsureLayoutCache(Contract):
    key = 'SplineOptimizer.ensureLayoutCache'

    def spec(self, S):
        OFF = layout_defs(S)
        for label, p in layout_ok(S, OFF):
            S.requires(under(mk_not(S.layout_dirty_), p), 'layout_invariant_' + label)
        S.assigns(*[S.v(x) for x in LAYOUT_STATE])
        S.ensures(mk_not(S.layout_dirty_), 'clean')
        for label, p in layout_ok(S, OFF):
            S.ensures(p, label)


@register
class GetDimension(Contract):
    key = 'SplineOptimizer.getDimension'

    def spec(self, S):
        OFF = layout_defs(S)
        n = S.num_segments_
        D = S.cfg['DIM']
        for label, p in layout_ok(S, OFF):
            S.requires(under(mk_not(S.layout_dirty_), p), 'layout_invariant_' + label)
        S.assigns(*[S.v(x) for x in LAYOUT_STATE])
        S.ensures(implies(n > 0, S.result.eq(OFF(n_entries(S)) + n_blocks(S) * D)), 'dimension_is_times_plus_spatial_plus_derivative_blocks')
        S.ensures(implies(n <= 0, S.result.eq(0)), 'empty_problem')
        for label, p in layout_ok(S, OFF):
            S.ensures(p, 'cache_' + label)
        S.ensures(mk_not(S.layout_dirty_), 'clean')


@register
class SetOptimizationFlags(Contract):
    key = 'SplineOptimizer.setOptimizationFlags'

    def spec(self, S):
        f = S.v('flags_')
        p = S.v('flags')
        OFF = layout_defs_after(S)
        # the cache described the old configuration (layout invariant); offsets of the old and the new configuration coincide
        # when the first optimised point is the same (both satisfy one recurrence from the same base)
        OFFOLD, _ = S.spec_array('OFFOLD', INT)
        if S.mode == 'verify':
            S.requires((S.num_segments_ <= NMAX) & (S.num_segments_ >= -NMAX), 'size_sane')
            for label, q in layout_ok(S, OFFOLD):
                S.requires(under(mk_not(S.layout_dirty_), q), 'layout_invariant_' + label)
            S.requires(S.forall(0, NMAX + 2, lambda k: implies(f.fields['start_p'].rd().eq(p.fields['start_p'].rd()), OFFOLD(k).eq(OFF(k)))), 'same_first_point_same_offsets')
        S.assigns(f, S.v('layout_dirty_'))
        S.ensures(conj([f.fields[k].rd().eq(p.fields[k].rd()) for k in f.fields]), 'flags_stored')
        # the lazily rebuilt cache may only be kept if it still describes the layout of the new configuration
        for label, q in layout_ok(S, OFF):
            S.ensures(under(mk_not(S.layout_dirty_), q), 'kept_cache_matches_new_configuration_' + label)


@register
class SetSpatialMap(Contract):
    key = 'SplineOptimizer.setSpatialMap'

    def spec(self, S):
        OFF = layout_defs_after(S)
        S.assigns(S.v('active_spatial_map_'), S.v('layout_dirty_'))
        for label, q in layout_ok(S, OFF):
            S.ensures(under(mk_not(S.layout_dirty_), q), 'kept_cache_matches_new_configuration_' + label)
        S.ensures(mk_not(S.v('active_spatial_map_').null()), 'never_null')
