"""Contracts for SplineOptimizer (properties C09, C16, ...)."""
from base import *
from fractions import Fraction

NMAX = 1 << 22
MIN_DURATION = Fraction(1, 1000)       # "at least one millisecond" (property C16)


def fin(e):
    """finiteness ghost of a stored double (see translate_call.is_finite)"""
    if e.op == 'var':
        return E.var(e.args[0] + '__fin', BOOL)
    if e.op == 'idx':
        return E.idx(e.args[0] + '__fin', e.args[1], BOOL)
    raise ValueError('no finiteness ghost for %r' % (e,))


def order_of(S):
    return {'CubicSplineND': 3, 'QuinticSplineND': 5, 'SepticSplineND': 7}[S.cfg['SplineType']['cls']]


def bc_fields_used(S):
    o = order_of(S)
    f = ['start_velocity', 'end_velocity']
    if o >= 5:
        f += ['start_acceleration', 'end_acceleration']
    if o >= 7:
        f += ['start_jerk', 'end_jerk']
    return f


def validity(S, times, wps, start, bc, nseg):
    """the acceptance condition of property C16, as a list of (label, E | Quant)"""
    D = S.cfg['DIM']
    out = [('at_least_one_segment', nseg >= 1),
           ('one_more_waypoint_than_durations', times.size().eq(nseg) & wps.R.eq(nseg + 1)),
           ('start_time_finite', fin(start))]
    out.append(('durations_finite_and_at_least_1ms', S.forall(0, times.size(), lambda i: fin(times.at(i)) & (times.at(i) >= MIN_DURATION))))
    out.append(('waypoints_finite', S.forall(0, wps.R, lambda i: [fin(wps.at(i, d)) for d in range(D)])))
    for f in bc_fields_used(S):
        out.append(('%s_finite' % f, conj([fin(bc.fields[f].at(d, 0)) for d in range(D)])))
    return out


def pnull(p):
    n = p.null
    return n() if callable(n) else n


class _NoStr(object):
    def empty(self):
        return E.const(True)


def ptarget(p):
    return p.target if p.target is not None else _NoStr()


def under(c, p):
    if isinstance(p, Quant):
        return Quant(p.lo, p.hi, (lambda k, p=p: implies(c, _cj(p.body(k)))), inst=p.inst)
    return implies(c, p)


def _cj(b):
    if isinstance(b, (list, tuple)):
        return conj([_cj(x) for x in b])
    return b


@register
class ReportError(Contract):
    key = 'SplineOptimizer.reportError'

    def spec(self, S):
        errs = S.v('errors')
        out = S.v('out')
        msg = S.v('last_error_message_')
        S.requires((errs.size() >= 0) & (errs.size() <= 1 << 26), 'count_sane')
        S.assigns(*[x for x in (msg, out.target) if x is not None])
        S.ensures(implies(errs.size() > 0, mk_not(msg.empty())), 'message_recorded')
        S.ensures(implies((errs.size() > 0) & mk_not(pnull(out)), mk_not(ptarget(out).empty())), 'message_returned')
        S.ensures(implies(errs.size().eq(0), msg.empty().eq(S.old.get('last_error_message_').empty())), 'nothing_to_report')
        S.loop(0, inv=lambda L: [('range', (L.i >= 0) & (L.i <= errs.size()))], variant=lambda L: errs.size() - L.i)


@register
class CheckValidity(Contract):
    """verdict <=> stated conditions: the two directions are two harness variants (generator option `variant`)"""
    key = 'SplineOptimizer.checkValidity'

    def spec(self, S):
        variant = S.gen.opt.get('variant', 'sound')
        n = S.num_segments_
        times, wps, bc = S.v('ref_times_'), S.v('ref_waypoints_'), S.v('ref_bc_')
        start = S.v('start_time_').rd()
        msg = S.v('last_error_message_')
        out = S.v('msg_out')
        cond = validity(S, times, wps, start, bc, n)
        S.requires((times.size() >= 0) & (times.size() <= NMAX) & (wps.R >= 0) & (wps.R <= NMAX + 1) & (n >= -NMAX) & (n <= NMAX), 'sizes_sane')
        S.assigns(*[x for x in (msg, out.target) if x is not None])
        D = S.cfg['DIM']
        if variant == 'sound':
            for label, p in cond:
                S.ensures(under(S.result, p), 'accepted_implies_' + label)
            S.ensures(implies(mk_not(S.result), mk_not(msg.empty())), 'rejection_has_message')
            S.ensures(implies(mk_not(S.result) & mk_not(pnull(out)), mk_not(ptarget(out).empty())), 'rejection_message_returned')
            S.ensures(implies(S.result & mk_not(pnull(out)), ptarget(out).empty()), 'acceptance_clears_returned_message')
            S.ensures(implies(S.result, msg.empty().eq(S.old.get('last_error_message_').empty())), 'acceptance_keeps_last_message')
            pre = lambda L: L.errors.size() >= 0
            S.loop(0, inv=lambda L: [('range', (L.i >= 0) & (L.i <= times.size())), ('count', (L.errors.size() >= 0) & (L.errors.size() <= L.i + 4)),
                                     ('earlier', implies(L.errors.size().eq(0), conj([c for _, c in cond[:3] if not isinstance(c, Quant)]))),
                                     ('durations', S.forall(0, L.i, lambda k: implies(L.errors.size().eq(0), fin(times.at(k)) & (times.at(k) >= MIN_DURATION))))],
                   variant=lambda L: times.size() - L.i)
            S.loop(1, inv=lambda L: [('range', (L.i >= 0) & (L.i <= wps.R)), ('count', (L.errors.size() >= 0) & (L.errors.size() <= times.size() + L.i + 4)),
                                     ('earlier', implies(L.errors.size().eq(0), conj([c for _, c in cond[:3] if not isinstance(c, Quant)]))),
                                     ('durations', S.forall(0, times.size(), lambda k: implies(L.errors.size().eq(0), fin(times.at(k)) & (times.at(k) >= MIN_DURATION)))),
                                     ('waypoints', S.forall(0, L.i, lambda k: implies(L.errors.size().eq(0), conj([fin(wps.at(k, d)) for d in range(D)]))))],
                   variant=lambda L: wps.R - L.i)
        else:
            for label, p in cond:
                S.requires(p, label)
            S.ensures(S.result, 'valid_problem_accepted')
            S.ensures(implies(mk_not(pnull(out)), ptarget(out).empty()), 'no_message_returned')
            S.ensures(msg.empty().eq(S.old.get('last_error_message_').empty()), 'acceptance_keeps_last_message')
            S.loop(0, inv=lambda L: [('range', (L.i >= 0) & (L.i <= times.size())), ('no_errors', L.errors.size().eq(0))],
                   variant=lambda L: times.size() - L.i, terms=lambda L: [L.i])
            S.loop(1, inv=lambda L: [('range', (L.i >= 0) & (L.i <= wps.R)), ('no_errors', L.errors.size().eq(0))],
                   variant=lambda L: wps.R - L.i, terms=lambda L: [L.i])


OPT_INIT_STATE = ('start_time_', 'ref_times_', 'ref_waypoints_', 'ref_bc_', 'num_segments_', 'layout_dirty_', 'is_valid_', 'last_error_message_')


@register
class SetInitStateDurations(Contract):
    """setInitState(durations, waypoints, start, bc): verdict <=> stated conditions on the *new* inputs, from any previous state"""
    key = 'SplineOptimizer.setInitState'
    nparams = 4

    def spec(self, S):
        variant = S.gen.opt.get('variant', 'sound')
        D = S.cfg['DIM']
        ts, wp, bc = S.v('time_segments'), S.v('waypoints'), S.v('bc')
        start = S.v('start_time')
        start_e = start.rd() if hasattr(start, 'rd') else start
        msg = S.v('last_error_message_')
        ws = S.v('internal_ws_')
        S.requires((ts.size() >= 0) & (ts.size() <= NMAX) & (wp.R >= 0) & (wp.R <= NMAX + 1), 'sizes_sane')
        assigned = [S.v(x) for x in OPT_INIT_STATE]
        if ws.target is not None:
            assigned.append(ws.target)
        S.assigns(*assigned)
        cond = validity(S, ts, wp, start_e, bc, ts.size())
        S.ensures(S.is_valid_.eq(S.result), 'flag_equals_verdict')
        S.ensures(msg.empty().eq(S.result), 'message_available_exactly_when_rejected')
        OFF = layout_defs_after(S)
        for label, q in layout_ok(S, OFF):
            S.ensures(under(mk_not(S.layout_dirty_), q), 'kept_cache_matches_new_configuration_' + label)
        S.ensures(S.num_segments_.eq(ts.size()) & S.start_time_.eq(start_e), 'inputs_stored')
        if variant == 'sound':
            for label, p in cond:
                S.ensures(under(S.result, p), 'accepted_implies_' + label)
        else:
            for label, p in cond:
                S.requires(p, label)
            S.ensures(S.result, 'valid_problem_accepted')


@register
class SetInitStateTimePoints(Contract):
    key = 'SplineOptimizer.setInitState'
    nparams = 3

    def spec(self, S):
        tp = S.v('t_points')
        msg = S.v('last_error_message_')
        ws = S.v('internal_ws_')
        S.requires((tp.size() >= 0) & (tp.size() <= NMAX) & (S.v('waypoints').R >= 0) & (S.v('waypoints').R <= NMAX + 1), 'sizes_sane')
        assigned = [S.v(x) for x in OPT_INIT_STATE]
        if ws.target is not None:
            assigned.append(ws.target)
        S.assigns(*assigned)
        S.ensures(S.is_valid_.eq(S.result), 'flag_equals_verdict')
        S.ensures(msg.empty().eq(S.result), 'message_available_exactly_when_rejected')
        S.ensures(implies(tp.size().eq(0), mk_not(S.result)), 'no_time_points_rejected')
        S.ensures(implies(S.result, S.num_segments_.eq(tp.size() - 1) & S.start_time_.eq(tp.at(0))), 'accepted_stores_first_time_point_and_count')
        S.loop(0, inv=lambda L: [('range', (L.i >= 1) & (L.i <= tp.size())), ('size', L.time_segments.size().eq(L.i - 1))], variant=lambda L: tp.size() - L.i)


@register
class IsValid(Contract):
    key = 'SplineOptimizer.isValid'

    def spec(self, S):
        S.assigns()
        S.ensures(S.result.eq(S.is_valid_), 'returns_flag')


# ------------------------------------------------------------------------------------------------ C09: decision-vector layout
from translate_call import AbstractObj
from values import ExprMat


class AbstractSpatialMap(AbstractObj):
    """a user spatial map known only through its protocol: getUnconstrainedDim(i) = DOF[i] (a fixed non-negative function)"""
    identity_tag = 7

    def call(self, tr, name, args, n):
        if name == 'getUnconstrainedDim':
            tr.globals_a['SPEC_DOF'] = INT
            return E.idx('SPEC_DOF', tr.scalar(args[0]), INT)
        from values import ExprMat
        D = tr.frame.this.cfg['DIM']
        if name == 'toPhysical':
            # (unconstrained coordinates of point i, i) -> physical point: a function of the decision vector and i; within one
            # evaluation (fixed decision vector) named by the spec arrays SPEC_PHYS_c<d>[i]
            i = tr.scalar(args[1])
            for d in range(D):
                tr.globals_a['SPEC_PHYS_c%d' % d] = REAL
            return ExprMat(D, 1, lambda r, c, i=i: E.idx('SPEC_PHYS_c%d' % r, i, REAL))
        if name == 'backwardGrad':
            # (xi, physical gradient, i) -> unconstrained gradient of point i, DOF[i] <= 64 entries: named SPEC_BACK[64 i + r]
            # (a fresh name per call site would also do; what it equals is the map's business, see C07)
            i = tr.scalar(args[2])
            tr.globals_a['SPEC_BACK'] = REAL
            tr.spatial_back_calls = getattr(tr, 'spatial_back_calls', []) + [(i, args[1])]
            return ExprMat(E.idx('SPEC_DOF', i, INT), 1, lambda r, c, i=i: E.idx('SPEC_BACK', i * 64 + E.const(r), REAL))
        raise ValueError('abstract spatial map: no rule for %s' % name)


def DOF(i):
    return E.idx('SPEC_DOF', i, INT)


def flags(S):
    f = S.v('flags_')
    return dict((k, f.fields[k].rd()) for k in f.fields)


def first_idx(S):
    return ite(flags(S)['start_p'], 0, 1)


def n_entries(S):
    """number of optimised waypoints: the inner ones always, first/last only when flagged"""
    n = S.num_segments_
    fl = flags(S)
    return (n - 1) + ite(fl['start_p'], 1, 0) + ite(fl['end_p'], 1, 0)


def n_blocks(S):
    fl = flags(S)
    o = order_of(S)
    b = ite(fl['start_v'], 1, 0) + ite(fl['end_v'], 1, 0)
    if o >= 5:
        b = b + ite(fl['start_a'], 1, 0) + ite(fl['end_a'], 1, 0)
    if o >= 7:
        b = b + ite(fl['start_j'], 1, 0) + ite(fl['end_j'], 1, 0)
    return b


def layout_ok(S, OFF):
    """the layout cache describes exactly the stated decision-vector layout"""
    n = S.num_segments_
    D = S.cfg['DIM']
    lay = S.v('spatial_layout_')
    cnt = n_entries(S)
    out = []
    out.append(('empty_problem', implies(n <= 0, lay.size().eq(0) & S.derivatives_offset_.eq(0) & S.total_dimension_.eq(0))))
    out.append(('one_entry_per_optimised_point', implies(n > 0, lay.size().eq(cnt))))
    out.append(('entries', S.forall(0, lay.size(), lambda k: implies(n > 0, conj([
        lay.elem(k).field('point_index').rd().eq(k + first_idx(S)),
        lay.elem(k).field('dof').rd().eq(DOF(k + first_idx(S))),
        lay.elem(k).field('offset').rd().eq(OFF(k))])))))
    out.append(('derivative_blocks_follow_spatial_variables', implies(n > 0, S.derivatives_offset_.eq(OFF(cnt)))))
    out.append(('dimension', implies(n > 0, S.total_dimension_.eq(S.derivatives_offset_ + n_blocks(S) * D))))
    return out


def layout_defs(S):
    """OFF[k] = n + sum of the unconstrained dimensions of the first k optimised points"""
    n = S.num_segments_
    S.gen.globals_a['SPEC_DOF'] = INT
    S.requires((n <= NMAX) & (n >= -NMAX), 'size_sane')
    S.requires(S.forall(0, NMAX + 2, lambda i: (DOF(i) >= 0) & (DOF(i) <= 64)), 'unconstrained_dimensions_sane')
    acc, full = S.spec_array('OFF', INT, shared=True)
    facts = [acc(0).eq(n), S.forall(0, NMAX + 2, lambda k: acc(k + 1).eq(acc(k) + DOF(k + first_idx(S))))]
    S.definitions.append((full, facts))
    for j, f in enumerate(facts):
        (S.ensures if S.mode == 'call' else S.requires)(f, 'def_OFF_%d' % j)
    (S.ensures if S.mode == 'call' else S.requires)(S.forall(0, NMAX + 2, lambda k: (acc(k) >= n) & (acc(k) <= n + 64 * k)), 'offsets_bounded')
    return acc


def layout_defs_after(S):
    """OFF for the configuration *after* a setter: an arbitrary array satisfying the recurrence over the post-state (the
    postcondition is stated for every such array, i.e. for the one the next rebuild would compute)"""
    S.gen.globals_a['SPEC_DOF'] = INT
    acc, full = S.spec_array('OFFNEW', INT)
    return acc


LAYOUT_STATE = ('spatial_layout_', 'derivatives_offset_', 'total_dimension_', 'layout_dirty_')


@register
class RebuildLayoutCache(Contract):
    key = 'SplineOptimizer.rebuildLayoutCache'

    def spec(self, S):
        OFF = layout_defs(S)
        n = S.num_segments_
        lay = S.v('spatial_layout_')
        fl = flags(S)
        S.assigns(*[S.v(x) for x in LAYOUT_STATE])
        S.ensures(mk_not(S.layout_dirty_), 'clean')
        for label, p in layout_ok(S, OFF):
            S.ensures(p, label)
        S.terms(0, n, n - 1)
        seen = lambda i: i - ite(mk_not(fl['start_p']) & (i > 0), 1, 0) - ite(mk_not(fl['end_p']) & (i > n), 1, 0)
        S.loop(0, inv=lambda L: [
            ('range', (L.i >= 0) & (L.i <= n + 1)),
            ('count', lay.size().eq(seen(L.i))),
            ('offset', L.offset.eq(OFF(lay.size()))),
            ('entries', S.forall(0, lay.size(), lambda k: conj([
                lay.elem(k).field('point_index').rd().eq(k + first_idx(S)),
                lay.elem(k).field('dof').rd().eq(DOF(k + first_idx(S))),
                lay.elem(k).field('offset').rd().eq(OFF(k))]))),
        ], variant=lambda L: n + 1 - L.i, terms=lambda L: [L.i, lay.size(), lay.size() - 1, lay.size() + 1])


@register
class EnsureLayoutCache(Contract):
    key = 'SplineOptimizer.ensureLayoutCache'

    def spec(self, S):
        OFF = layout_defs(S)
        for label, p in layout_ok(S, OFF):
            S.requires(under(mk_not(S.layout_dirty_), p), 'layout_invariant_' + label)
        S.assigns(*[S.v(x) for x in LAYOUT_STATE])
        S.ensures(mk_not(S.layout_dirty_), 'clean')
        for label, p in layout_ok(S, OFF):
            S.ensures(p, label)


@register
class GetDimension(Contract):
    key = 'SplineOptimizer.getDimension'

    def spec(self, S):
        OFF = layout_defs(S)
        n = S.num_segments_
        D = S.cfg['DIM']
        for label, p in layout_ok(S, OFF):
            S.requires(under(mk_not(S.layout_dirty_), p), 'layout_invariant_' + label)
        S.assigns(*[S.v(x) for x in LAYOUT_STATE])
        S.ensures(implies(n > 0, S.result.eq(OFF(n_entries(S)) + n_blocks(S) * D)), 'dimension_is_times_plus_spatial_plus_derivative_blocks')
        S.ensures(implies(n <= 0, S.result.eq(0)), 'empty_problem')
        for label, p in layout_ok(S, OFF):
            S.ensures(p, 'cache_' + label)
        S.ensures(mk_not(S.layout_dirty_), 'clean')


@register
class SetOptimizationFlags(Contract):
    key = 'SplineOptimizer.setOptimizationFlags'

    def spec(self, S):
        f = S.v('flags_')
        p = S.v('flags')
        OFF = layout_defs_after(S)
        # the cache described the old configuration (layout invariant); offsets of the old and the new configuration coincide
        # when the first optimised point is the same (both satisfy one recurrence from the same base)
        OFFOLD, _ = S.spec_array('OFFOLD', INT)
        if S.mode == 'verify':
            S.requires((S.num_segments_ <= NMAX) & (S.num_segments_ >= -NMAX), 'size_sane')
            for label, q in layout_ok(S, OFFOLD):
                S.requires(under(mk_not(S.layout_dirty_), q), 'layout_invariant_' + label)
            S.requires(S.forall(0, NMAX + 2, lambda k: implies(f.fields['start_p'].rd().eq(p.fields['start_p'].rd()), OFFOLD(k).eq(OFF(k)))), 'same_first_point_same_offsets')
        S.assigns(f, S.v('layout_dirty_'))
        S.ensures(conj([f.fields[k].rd().eq(p.fields[k].rd()) for k in f.fields]), 'flags_stored')
        # the lazily rebuilt cache may only be kept if it still describes the layout of the new configuration
        for label, q in layout_ok(S, OFF):
            S.ensures(under(mk_not(S.layout_dirty_), q), 'kept_cache_matches_new_configuration_' + label)


@register
class SetSpatialMap(Contract):
    key = 'SplineOptimizer.setSpatialMap'

    def spec(self, S):
        OFF = layout_defs_after(S)
        S.assigns(S.v('active_spatial_map_'), S.v('layout_dirty_'))
        for label, q in layout_ok(S, OFF):
            S.ensures(under(mk_not(S.layout_dirty_), q), 'kept_cache_matches_new_configuration_' + label)
        S.ensures(mk_not(S.v('active_spatial_map_').null()), 'never_null')


# ================================================================================================ running-cost quadrature (C08, C12, C07)
from values import Mat, ScalarVar, CellRef, LambdaV, VOID
from ir import Havoc, Assume
from speclib import der


class AbstractIntegralCost(AbstractObj):
    """user running-cost functor, known only through its protocol
         double operator()(t, t_global, i, p, v, a, j, s, gp&, gv&, ga&, gj&, gs&, gt&)
    it returns some value and may write its six by-reference gradient outputs; nothing else is assumed about it.
    Ghost anchors 'integral_cost.call' (names arg0..arg13) and 'integral_cost.ret' (additionally ret) let the caller's
    contract state what every sample must carry."""

    def call(self, tr, name, args, n):
        ns = tr.namespace()
        for j, a in enumerate(args):
            ns['arg%d' % j] = a
        tr.anchor('integral_cost.call', ns)
        for o in args[8:14]:
            if isinstance(o, Mat):
                R, C = tr.dims_const(o)
                tr.emit(Havoc(scalars=[(o.lv(r, c).name, REAL) for r in range(R) for c in range(C)]))
            elif isinstance(o, (ScalarVar, CellRef)):
                tr.emit(Havoc(scalars=[(o.lv().name, REAL)]))
            else:
                raise ValueError('running-cost functor: unexpected gradient output %r' % (o,))
        r = tr.new_scalar('cost_val', REAL)
        tr.emit(Havoc(scalars=[(r.name, REAL)]))
        ns = dict(ns)
        ns['ret'] = r
        tr.anchor('integral_cost.ret', ns)
        return r.rd()


class ParallelForExecutor(AbstractObj):
    """executor(start, end, f), known only through its protocol: f(i) is invoked exactly once for every start <= i < end, in
    any order and on any threads.  The callback is translated once, for an arbitrary fixed index (a never-assigned int
    'seg_i' with start <= seg_i < end); anchors 'executor.begin' / 'executor.end' (name idx) carry the contract's per-index
    pre/postcondition, after which the contract generalises over all indices.  The generalisation is the parallel-for rule;
    its side condition (the callback for index i writes only cells owned by i and reads no cell owned by another index) is
    discharged as the frame obligations of property C12."""

    def call(self, tr, name, args, n):
        start, end, f = args
        i = tr.new_scalar('seg_i', INT)
        tr.never_assigned_globals = getattr(tr, 'never_assigned_globals', []) + [i.name]
        tr.emit(Assume((i.rd() >= tr.scalar(start)) & (i.rd() < tr.scalar(end)), 'executor calls f(i) for start <= i < end'))
        ns = tr.namespace()
        ns['idx'] = i
        tr.anchor('executor.begin', ns)
        before_s, before_a = set(tr.globals_s), set(tr.globals_a)
        mark = len(tr.block)
        if not isinstance(f, LambdaV):
            raise ValueError('executor callback is not a lambda')
        tr.call_lambda(f, [i.rd()], n)
        self.index = i
        self.stmts = tr.block[mark:]
        self.local_scalars = set(tr.globals_s) - before_s
        self.local_arrays = set(tr.globals_a) - before_a
        tr.anchor('executor.end', ns)
        return VOID


def trap_weight(k, K):
    return ite(k.eq(0) | k.eq(K), E.const(Fraction(1, 2)), E.const(Fraction(1)))


@register
class CalculateIntegralCost(Contract):
    """segment start times are the prefix sums of the durations; every sample handed to the running cost carries
    (k T_i / K, start of segment i + that, i, and the 0th..4th derivatives of piece i there); the cost grows by the sum over
    segments of the composite trapezoid rule with K steps applied to the values the functor returned."""
    key = 'SplineOptimizer.calculateIntegralCost'

    def spec(self, S):
        D = S.cfg['DIM']
        nc = order_of(S) + 1
        N, K = S.num_segments_, S.integral_num_steps_
        ws = S.v('ws')
        T, SS, SC, XB = (ws.fields[f] for f in ('cache_times', 'segment_start_times', 'segment_costs', 'explicit_time_grad_buffer'))
        C = ws.fields['spline'].fields['trajectory_'].fields['coefficients_']
        gdC, gdT = S.v('gdC'), S.v('gdT')
        S.requires((N >= 0) & (N <= NMAX) & (K >= 1) & (K <= NMAX), 'sizes_sane')
        S.requires(T.size().eq(N) & SS.size().eq(N) & SC.size().eq(N) & XB.R.eq(N) & gdT.R.eq(N) & gdC.R.eq(nc * N) & C.R.eq(nc * N), 'workspace_sized_for_N')
        S.i2r_axioms()
        RK, _ = S.spec_array('RK')
        rk = RK(0)
        (S.ensures if S.mode == 'call' else S.requires)((to_real(K) * rk).eq(1), 'def_one_over_K')      # definition of 1/K (K >= 1)
        PT = S.define_prefix_sum('PT', N, lambda i: T.at(i))
        TRAP, _ = S.spec_array('TRAP', shared=True)
        PTRAP = S.define_prefix_sum('PTRAP', N, lambda i: TRAP(i))
        S.assigns(SS, SC, XB, gdC, gdT, S.v('cost'))
        S.ensures(S.forall(0, N, lambda i: SS.at(i).eq(S.start_time_ + PT(i))), 'segment_start_is_start_time_plus_elapsed_durations')
        S.ensures(S.cost.eq(S.old.cost + PTRAP(N)), 'cost_grows_by_sum_of_segment_trapezoid_sums')
        S.ensures(SS.size().eq(N) & SC.size().eq(N) & XB.R.eq(N) & gdT.R.eq(N) & gdC.R.eq(nc * N), 'buffer_sizes_unchanged')
        S.terms(0, N)
        if S.mode != 'verify':
            return
        ex = S.gen.fn.params['executor']
        S.loop(0, inv=lambda L: [
            ('range', (L.i >= 0) & (L.i <= N)),
            ('running_time', L.running_time.eq(S.start_time_ + PT(L.i))),
            ('start_times', S.forall(0, L.i, lambda j: SS.at(j).eq(S.start_time_ + PT(j)))),
        ], variant=lambda L: N - L.i, terms=lambda L: [L.i])
        # ---- one callback invocation, arbitrary index
        CV, _ = S.spec_array('CV')           # CV[k]: the value the functor returned for sample k of this segment (a name)
        idx = lambda: ex.index.rd()
        S.terms(idx(), idx() + 1)
        Ti = lambda: T.at(idx())
        PS = S.define_prefix_sum('PS', K + 1, lambda k: trap_weight(k, K) * (Ti() * rk) * CV(k))
        kvar = {}

        def loop1_inv(L):
            kvar['k'] = L.i
            return [('range', (L.i >= 0) & (L.i <= K + 1)),
                    ('partial_trapezoid_sum', L.local_acc_cost.eq(PS(L.i)))]
        S.loop(1, inv=loop1_inv, variant=lambda L: K + 1 - L.i, terms=lambda L: [L.i])

        def at_call(G):
            ns = G.ctx
            k = kvar['k']
            t = ns.arg0
            G.lemma(t.eq(to_real(k) * rk * Ti()), 'sample_local_time_is_k_T_over_K')
            G.lemma(ns.arg1.eq(S.start_time_ + PT(idx()) + t), 'sample_global_time_is_start_plus_elapsed_plus_local')
            G.lemma(ns.arg2.eq(idx()), 'sample_segment_index')
            for m, nm in enumerate(['position', 'velocity', 'acceleration', 'jerk', 'snap']):
                val = ns.v('arg%d' % (3 + m))
                for d in range(D):
                    G.lemma(val.at(d, 0).eq(der(C, nc, idx(), m, t, d)), 'sample_%s_is_derivative_%d_of_piece_coord%d' % (nm, m, d))
        S.ghost('integral_cost.call', at_call)
        S.ghost('integral_cost.ret', lambda G: G.assume_fact(G.ctx.ret.eq(CV(kvar['k'])), 'CV[k] names the value returned for sample k'))

        def at_end(G):
            G.lemma(SC.at(idx()).eq(PS(K + 1)), 'segment_cost_is_trapezoid_sum')
            G.assume_fact(TRAP(idx()).eq(PS(K + 1)), 'TRAP[i] names the trapezoid sum of segment i')
            # parallel-for rule: every index has been processed exactly once, each writing only its own cells
            G.havoc(arrays=[(a, REAL) for a in (SC.arr, )])
            G.assume_fact(S.forall(0, N, lambda i: SC.at(i).eq(TRAP(i))), 'parallel-for: per-index postcondition for all indices')
        S.ghost('executor.end', at_end)
        S.loop(3, inv=lambda L: [
            ('range', (L.i >= 0) & (L.i <= N)),
            ('partial_cost', S.cost.eq(S.old.cost + PTRAP(L.i))),
        ], variant=lambda L: N - L.i, terms=lambda L: [L.i])
        S.loop(4, inv=lambda L: [('range', (L.i >= -1) & (L.i <= N - 1))], variant=lambda L: L.i, terms=lambda L: [L.i])


class AbstractCostFunctor(AbstractObj):
    """user time cost / waypoint cost: double operator()(const Data&, Gradient& out); returns some value, may overwrite the
    contents of its gradient buffer (not its size).  Anchors '<tag>.call' (arg0, arg1) and '<tag>.ret' (ret)."""

    def __init__(self, tag):
        self.tag = tag

    def call(self, tr, name, args, n):
        ns = tr.namespace()
        for j, a in enumerate(args):
            ns['arg%d' % j] = a
        tr.anchor(self.tag + '.call', ns)
        out = args[1]
        _, arrs = out.storage()
        tr.emit(Havoc(arrays=arrs))
        r = tr.new_scalar(self.tag + '_val', REAL)
        tr.emit(Havoc(scalars=[(r.name, REAL)]))
        ns = dict(ns)
        ns['ret'] = r
        tr.anchor(self.tag + '.ret', ns)
        return r.rd()


def optimised_point(S, p):
    """waypoint p is a decision variable: inner points always, first/last when flagged"""
    return (p >= first_idx(S)) & (p < first_idx(S) + n_entries(S))


def bc_slots(S):
    """(field, flag) of the boundary-derivative blocks in decision-vector order"""
    o = order_of(S)
    out = [('start_velocity', 'start_v')]
    if o >= 5:
        out.append(('start_acceleration', 'start_a'))
    if o >= 7:
        out.append(('start_jerk', 'start_j'))
    out.append(('end_velocity', 'end_v'))
    if o >= 5:
        out.append(('end_acceleration', 'end_a'))
    if o >= 7:
        out.append(('end_jerk', 'end_j'))
    return out


def quad_inv_time_is(T, tau):
    """T = toTime(tau) of the bundled quadratic-inverse map, stated without division"""
    half = E.const(Fraction(1, 2))
    return ite(tau > 0, T.eq(half * tau * tau + tau + 1), (T * (half * tau * tau - tau + 1)).eq(1))


WS_BUFFERS = [('cache_waypoints', 1), ('cache_gdT', 0), ('user_gdT_buffer', 0), ('explicit_time_grad_buffer', 0), ('discrete_grad_q_buffer', 1)]


@register
class Evaluate(Contract):
    """three-cost evaluate with a caller-supplied workspace: decode, cost assembly (C08); gradient assembly (C07)"""
    key = 'SplineOptimizer.evaluate'
    nparams = 7

    def spec(self, S):
        D = S.cfg['DIM']
        nc = order_of(S) + 1
        N, K = S.num_segments_, S.integral_num_steps_
        x, gout = S.v('x'), S.v('grad_out')
        ws = S.v('ws').target
        fl = flags(S)
        W = lambda f: ws.fields[f]
        T = W('cache_times')
        OFF = layout_defs(S)
        for label, p in layout_ok(S, OFF):
            S.requires(under(mk_not(S.layout_dirty_), p), 'layout_invariant_' + label)
        cnt = n_entries(S)
        doff = OFF(cnt)
        dim = doff + n_blocks(S) * D
        S.requires((N >= 1) & (N <= NMAX) & (K >= 1) & (K <= NMAX) & S.v('ref_waypoints_').R.eq(N + 1), 'configured_problem')
        S.requires(x.R.eq(dim), 'decision_vector_has_the_layout_dimension')
        m = T.size()
        S.requires((m >= 0) & (m <= NMAX) & W('segment_start_times').size().eq(m) & W('segment_costs').size().eq(m) &
                   W('cache_gdC').R.eq(nc * m) & conj([W(f).R.eq(m + extra) for f, extra in WS_BUFFERS]), 'workspace_buffers_sized_consistently')
        S.terms(0, N, N - 1, cnt, cnt - 1)
        S.assigns(ws, gout, *[S.v(v) for v in LAYOUT_STATE])
        tc, wc, trap, en = (S.fresh_real(b) for b in ('tcv', 'wcv', 'trapv', 'env'))
        S.ensures(S.result.eq(tc + wc + trap + ite(S.rho_energy_ > 0, S.rho_energy_ * en, 0)),
                  'cost_is_time_cost_plus_waypoint_cost_plus_quadrature_plus_weighted_energy')
        if S.mode != 'verify':
            return
        from ir import LV
        lv = lambda e: LV(e.args[0], REAL)
        PH = lambda p, d: E.idx('SPEC_PHYS_c%d' % d, p, REAL)
        ref = S.v('ref_waypoints_')
        CW = W('cache_waypoints')
        lay = S.v('spatial_layout_')
        decoded_row = lambda p, d: ite(optimised_point(S, p), PH(p, d), ref.at(p, d))
        # offsets are non-decreasing (unconstrained dimensions are non-negative): OFF(cnt - j) <= OFF(cnt), by induction on j
        S.terms(cnt - S.sk(0) - 1, cnt - S.sk(0))
        S.ghost('entry', lambda G: G.induction(0, cnt + 1, lambda j: [OFF(cnt - j) <= OFF(cnt)], 'offsets_below_total'))
        # ---- decode
        S.loop(0, inv=lambda L: [
            ('range', (L.i >= 0) & (L.i <= N)),
            ('durations_decoded', S.forall(0, L.i, lambda j: quad_inv_time_is(T.at(j), x.at(j, 0)))),
        ], variant=lambda L: N - L.i, terms=lambda L: [L.i])
        lay_inv = lambda: [
            ('layout_size', lay.size().eq(cnt) & mk_not(S.layout_dirty_)),
            ('layout_entries', S.forall(0, lay.size(), lambda k: conj([
                lay.elem(k).field('point_index').rd().eq(k + first_idx(S)),
                lay.elem(k).field('dof').rd().eq(DOF(k + first_idx(S))),
                lay.elem(k).field('offset').rd().eq(OFF(k))]))),
            ('offsets_below_total', S.forall(0, cnt + 1, lambda j: OFF(cnt - j) <= OFF(cnt)))]
        S.loop(1, inv=lambda L: lay_inv() + [
            ('range', (L.i >= 0) & (L.i <= lay.size())),
            ('waypoints_decoded_so_far', S.forall(0, N + 1, lambda p: [
                CW.at(p, d).eq(ite((p >= first_idx(S)) & (p < first_idx(S) + L.i), PH(p, d), ref.at(p, d))) for d in range(D)])),
        ], variant=lambda L: lay.size() - L.i, terms=lambda L: [L.i, L.i + first_idx(S), cnt - L.i - 1, cnt - L.i, L.i + 1])

        def before_update(G):
            ns = G.ctx
            same = lambda a, b: E.const(a is b or getattr(a, 'name', 1) == getattr(b, 'name', 2))
            G.lemma(same(ns.v('callee'), W('spline')), 'workspace_spline_is_updated')
            G.lemma(same(ns.v('carg0'), T), 'update_receives_decoded_durations')
            G.lemma(same(ns.v('carg1'), CW), 'update_receives_decoded_waypoints')
            G.lemma(ns.carg2.eq(S.start_time_), 'update_receives_start_time')
            bc = ns.v('carg3')
            refbc = S.v('ref_bc_')
            rank = E.const(0)
            for f, flag in bc_slots(S):
                for d in range(D):
                    G.lemma(bc.fields[f].at(d, 0).eq(ite(fl[flag], x.at(doff + rank * D + d, 0), refbc.fields[f].at(d, 0))),
                            'boundary_%s_decoded_coord%d' % (f, d))
                rank = rank + ite(fl[flag], 1, 0)
            sk = S.sk(0)
            G.lemma(implies((sk >= 0) & (sk < N), quad_inv_time_is(T.at(sk), x.at(sk, 0))), 'durations_are_time_map_of_first_N_variables')
            for d in range(D):
                G.lemma(implies((sk >= 0) & (sk <= N), CW.at(sk, d).eq(decoded_row(sk, d))), 'waypoints_are_spatial_map_of_layout_entries_else_reference_coord%d' % d)
        S.ghost('call.update.before', before_update)

        def time_call(G):
            ns = G.ctx
            G.lemma(E.const(ns.v('arg0') is T or getattr(ns.v('arg0'), 'name', 1) == T.name), 'time_cost_receives_decoded_durations')
        S.ghost('time_cost.call', time_call)
        S.ghost('time_cost.ret', lambda G: G.set(lv(tc), G.ctx.ret))

        def wp_call(G):
            ns = G.ctx
            G.lemma(E.const(getattr(ns.v('arg0'), 'name', 1) == CW.name), 'waypoint_cost_receives_decoded_waypoints')
        S.ghost('waypoints_cost.call', wp_call)
        S.ghost('waypoints_cost.ret', lambda G: G.set(lv(wc), G.ctx.ret))
        snap = S.fresh_real('cost_before_quadrature')
        S.ghost('call.calculateIntegralCost.before', lambda G: G.set(lv(snap), G.ctx.total_cost))
        S.ghost('call.calculateIntegralCost.after', lambda G: G.set(lv(trap), G.ctx.total_cost - snap))
        S.ghost('call.getEnergy.after', lambda G: G.set(lv(en), G.ctx.ret))
        # ---- gradient write-back loops: shapes only here
        S.loop(2, inv=lambda L: [('range', (L.i >= 0) & (L.i <= N))], variant=lambda L: N - L.i, terms=lambda L: [L.i])
        S.loop(3, inv=lambda L: lay_inv() + [('range', (L.i >= 0) & (L.i <= lay.size()))], variant=lambda L: lay.size() - L.i, terms=lambda L: [L.i, L.i + 1, cnt - L.i - 1, cnt - L.i])


# ================================================================================================ copies (C15)
from values import SmallMat, StoreMat, DynSmallMat, StdVec, StructVec, MatVec, CountVec, StrV, Obj, PtrSlot, MutexV, EnumV

TAG_THIS_TIME, TAG_THIS_SPATIAL, TAG_OTHER_TIME, TAG_OTHER_SPATIAL, TAG_THIS_WS, TAG_OTHER_WS, TAG_USER_MIN = 1, 2, 3, 4, 5, 6, 100


def same_value(S, a, b, path, skipped):
    """[(label, E|Quant)]: the value members of a equal those of b (logical contents: sizes and the cells below them)"""
    out = []
    if isinstance(a, (PtrSlot, MutexV)):
        return out
    if isinstance(a, Obj):
        for f in a.fields:
            if f == 'last_error_message_':
                continue     # diagnostic text of the last failed validation: not part of what the property calls 'evaluates identically'
            out += same_value(S, a.fields[f], b.fields[f], path + '.' + f, skipped)
        return out
    if isinstance(a, ScalarVar):
        return [(path, a.rd().eq(b.rd()))]
    if isinstance(a, StrV):
        return [(path + '.empty', a.empty().eq(b.empty()))]
    if isinstance(a, CountVec):
        return [(path + '.size', a.size().eq(b.size()))]
    if isinstance(a, StdVec):
        return [(path + '.size', a.size().eq(b.size())), (path, S.forall(0, b.size(), lambda k: a.at(k).eq(b.at(k))))]
    if isinstance(a, StructVec):
        from ir import LV
        cell = lambda v, f, t, k: E.idx(v.farr(f), k, t)
        return [(path + '.size', a.size().eq(b.size())),
                (path, S.forall(0, b.size(), lambda k: [cell(a, f, t, k).eq(cell(b, f, t, k)) for f, t in a.fields]))]
    if isinstance(a, DynSmallMat) or isinstance(a, MatVec):
        skipped.append(path)
        return out
    if isinstance(a, StoreMat):
        return [(path + '.rows', E.const(a.R).eq(b.R)), (path, S.forall(0, b.R, lambda r: [a.at(r, c).eq(b.at(r, c)) for c in range(a.C)]))]
    if isinstance(a, SmallMat):
        return [(path, conj([a.at(r, c).eq(b.at(r, c)) for r in range(a.R) for c in range(a.C)]))]
    skipped.append(path + ' (%s)' % type(a).__name__)
    return out


def source_well_formed(S, o):
    tm, sm = o.fields['active_time_map_'], o.fields['active_spatial_map_']
    return [('source_time_map_bound', mk_not(tm.null()) & (tm.tag().eq(TAG_OTHER_TIME) | (tm.tag() >= TAG_USER_MIN))),
            ('source_spatial_map_bound', mk_not(sm.null()) & (sm.tag().eq(TAG_OTHER_SPATIAL) | (sm.tag() >= TAG_USER_MIN)))]


def copy_post(S, this, other):
    """an independent deep copy: same value members; default bindings re-pointed at the copy's own default maps, user maps shared;
    the built-in workspace, if the source has one, is a fresh allocation with the same contents"""
    skipped = []
    out = [('copies_' + lab.strip('.'), p) for lab, p in same_value(S, this, other, '', skipped)]
    for f, own, src_def in (('active_time_map_', TAG_THIS_TIME, TAG_OTHER_TIME), ('active_spatial_map_', TAG_THIS_SPATIAL, TAG_OTHER_SPATIAL)):
        a, b = this.fields[f], other.fields[f]
        out.append((f + 'bound', mk_not(a.null())))
        out.append((f + 'default_binding_is_rebound_to_own_default', implies(b.tag().eq(src_def), a.tag().eq(own))))
        out.append((f + 'user_map_is_shared', implies(b.tag() >= TAG_USER_MIN, a.tag().eq(b.tag()))))
        out.append((f + 'never_points_into_the_source', a.tag().ne(src_def)))
    wa, wb = this.fields['internal_ws_'], other.fields['internal_ws_']
    out.append(('workspace_presence_copied', wa.null().eq(wb.null())))
    out.append(('workspace_is_an_own_allocation', implies(mk_not(wa.null()), wa.tag().eq(TAG_THIS_WS))))
    for lab, p in same_value(S, wa.target, wb.target, 'workspace', skipped):
        out.append(('deep_copy_' + lab, under(mk_not(wb.null()), p)))
    S.gen.notes_c15 = skipped
    return out


@register
class CopyConstruct(Contract):
    key = 'SplineOptimizer.ctor1'

    def spec(self, S):
        this, other = S.v('this'), S.v('other')
        for lab, p in source_well_formed(S, other):
            S.requires(p, lab)
        S.terms(0)
        S.assigns(this, this.fields['internal_ws_'].target)
        for lab, p in copy_post(S, this, other):
            S.ensures(p, lab)


@register
class CopyAssign(Contract):
    key = 'SplineOptimizer.operator='

    def spec(self, S):
        this, other = S.v('this'), S.v('other')
        S.terms(0)
        if other is this:
            # self-assignment: nothing changes
            S.assigns()
            return
        for lab, p in source_well_formed(S, other):
            S.requires(p, lab)
        tm, sm = this.fields['active_time_map_'], this.fields['active_spatial_map_']
        S.requires(mk_not(tm.null()) & (tm.tag().eq(TAG_THIS_TIME) | (tm.tag() >= TAG_USER_MIN)) &
                   mk_not(sm.null()) & (sm.tag().eq(TAG_THIS_SPATIAL) | (sm.tag() >= TAG_USER_MIN)), 'target_maps_bound')
        S.assigns(this, this.fields['internal_ws_'].target)
        for lab, p in copy_post(S, this, other):
            S.ensures(p, lab)
