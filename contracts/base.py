"""Contract base class.  A contract is python code that states requires / ensures / assigns / loop invariants over
the *names of the real code* (members, parameters, `result`), using the spec library for every right-hand side."""
import os, sys
sys.path.insert(0, os.path.join(os.path.dirname(os.path.abspath(__file__)), '..', 'stv'))
sys.path.insert(0, os.path.join(os.path.dirname(os.path.abspath(__file__)), '..', 'spec'))
from expr import E, INT, REAL, BOOL, implies, conj, disj, ite, mk_not, esum, to_real
from gen import Quant

REGISTRY = {}


def norm_type(t):
    t = t.replace('const ', '').replace('&', '').replace('SplineTrajectory::', '').strip()
    t = t.replace('std::vector<double>', 'vector').replace('PPolyND::', '')
    return t.replace(' ', '')


def sig_of(method_node):
    return tuple(norm_type(c['type']['qualType']) for c in method_node.get('inner', []) if c.get('kind') == 'ParmVarDecl')


def sig_pred(sig):
    return lambda m: sig_of(m) == tuple(sig)


class Contract(object):
    key = None          # 'Class.method'
    nparams = None      # number of parameters of the overload this contract is for (None = any)

    sig = None          # optional tuple of parameter type strings (normalised) to select one overload

    def applies(self, method_node, nparams):
        if self.sig is not None:
            return sig_of(method_node) == tuple(self.sig)
        return self.nparams is None or self.nparams == nparams

    def select(self, method_node, nparams):
        return self if self.applies(method_node, nparams) else None

    def spec(self, S):
        raise NotImplementedError


def register(cls):
    inst = cls()
    REGISTRY.setdefault(inst.key, []).append(inst)
    return cls


class ContractSet(object):
    """lookup key -> contract, honouring overloads"""

    def __init__(self, contracts):
        self.by_key = {}
        for c in contracts:
            self.by_key.setdefault(c.key, []).append(c)

    def get(self, key):
        lst = self.by_key.get(key)
        if not lst:
            return None
        if len(lst) == 1:
            return lst[0]
        return Multi(lst)


class Multi(object):
    def __init__(self, lst):
        self.lst = lst
        self.key = lst[0].key

    def applies(self, m, nparams):
        return len([c for c in self.lst if c.applies(m, nparams)]) == 1

    def select(self, m, nparams):
        sel = [c for c in self.lst if c.applies(m, nparams)]
        return sel[0] if len(sel) == 1 else None

    def spec(self, S):
        raise RuntimeError('overloaded contract set must be resolved with select()')


# ------------------------------------------------------------------------------------------------ pure lemmas
LEMMAS = {}


class PureLemma(object):
    """forall real params: hyp(params) ==> concl(params).  Proved once in its own array-free harness (nlsat decides these
    in milliseconds); used in context through G.use(lemma, args), which assumes the instance."""

    def __init__(self, name, nparams, hyp, concl):
        self.name = name
        self.nparams = nparams
        self.hyp = hyp
        self.concl = concl
        LEMMAS[name] = self


def mono_lemma(a, b):
    """x * I_a * h^b  ==  x * h^(b-a)  (b >= a)   or   x * I_(a-b)  (a > b),   given h*iv == 1, I_a == iv^a, I_(a-b) == iv^(a-b)"""
    name = 'mono_%d_%d' % (a, b)
    if name in LEMMAS:
        return LEMMAS[name]
    from speclib import power

    def hyp(x, h, iv, Ia, Id):
        return conj([(h * iv).eq(1), Ia.eq(power(iv, a)), Id.eq(power(iv, a - b)) if a > b else True])

    def concl(x, h, iv, Ia, Id):
        return (x * Ia * power(h, b)).eq(x * power(h, b - a) if b >= a else x * Id)
    return PureLemma(name, 5, hyp, concl)
