"""Contract base class.  A contract is python code that states requires / ensures / assigns / loop invariants over
the *names of the real code* (members, parameters, `result`), using the spec library for every right-hand side."""
import os, sys
sys.path.insert(0, os.path.join(os.path.dirname(os.path.abspath(__file__)), '..', 'stv'))
sys.path.insert(0, os.path.join(os.path.dirname(os.path.abspath(__file__)), '..', 'spec'))
from expr import E, INT, REAL, BOOL, implies, conj, disj, ite, mk_not, esum, to_real
from gen import Quant

REGISTRY = {}


class Contract(object):
    key = None          # 'Class.method'
    nparams = None      # number of parameters of the overload this contract is for (None = any)

    def applies(self, method_node, nparams):
        return self.nparams is None or self.nparams == nparams

    def spec(self, S):
        raise NotImplementedError


def register(cls):
    inst = cls()
    REGISTRY.setdefault(inst.key, []).append(inst)
    return cls


class ContractSet(object):
    """lookup key -> contract, honouring overloads"""

    def __init__(self, contracts):
        self.by_key = {}
        for c in contracts:
            self.by_key.setdefault(c.key, []).append(c)

    def get(self, key):
        lst = self.by_key.get(key)
        if not lst:
            return None
        if len(lst) == 1:
            return lst[0]
        return Multi(lst)


class Multi(object):
    def __init__(self, lst):
        self.lst = lst
        self.key = lst[0].key

    def applies(self, m, nparams):
        self._sel = [c for c in self.lst if c.applies(m, nparams)]
        return len(self._sel) == 1

    def spec(self, S):
        return self._sel[0].spec(S)
