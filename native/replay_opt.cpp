// Native replay for the optimizer family (C07, C08, C09, C15, C19): runs the REAL headers (compiled against the repository at
// replay time) on a seeded battery -- three orders, DIM 2, N = 1..4, random flag sets, energy weight 0 and > 0, K in {1, 3, 8},
// cost functors that use every argument they receive (global time and segment index included).
// usage: replay_opt <property> <seed>.   exit 1 = a failing input was found (printed), 0 = none.
#include "SplineTrajectory.hpp"
#include "SplineOptimizer.hpp"
#include <cstdio>
#include <cstring>
#include <cmath>
#include <random>
#include <string>
#include <vector>
using namespace SplineTrajectory;
static constexpr int DIM = 2;
static int g_fail = 0;
static void report(const std::string &w) { if (g_fail < 12) std::printf("FAILING INPUT %s\n", w.c_str()); ++g_fail; }

template <class Spline> struct Run {
  using Opt = SplineOptimizer<DIM, Spline>;
  using Vec = typename Opt::VectorType;
  using Mat = typename Opt::MatrixType;
  struct TimeCost { double operator()(const std::vector<double> &Ts, Eigen::VectorXd &g) const { double c = 0; for (size_t i = 0; i < Ts.size(); ++i) { c += 0.3 * Ts[i] * Ts[i] + 0.1 * (i + 1) * Ts[i]; g(i) = 0.6 * Ts[i] + 0.1 * (i + 1); } return c; } };
  struct WpCost { template <class GM> double operator()(const Mat &q, GM &g) const { double c = 0; for (int r = 0; r < q.rows(); ++r) for (int d = 0; d < DIM; ++d) { double w = 0.2 + 0.05 * r + 0.01 * d; c += w * q(r, d) * q(r, d); g(r, d) = 2 * w * q(r, d); } return c; } };
  static double runc(double t, double tg, int i, const Vec &p, const Vec &v, const Vec &a, const Vec &j, const Vec &s) {
    Vec tgt; tgt << 0.4 * tg - 1.0, 2.0 - 0.25 * tg; Vec d = p - tgt; double w = 0.1 * (1.0 + 0.05 * tg) + 0.01 * i;
    (void)t; return d.squaredNorm() + w * v.squaredNorm() + 0.01 * a.squaredNorm() + 0.001 * j.squaredNorm() + 0.0001 * s.squaredNorm(); }
  struct RunCost { mutable std::vector<std::array<double, 3>> *rec = nullptr;
    double operator()(double t, double tg, int i, const Vec &p, const Vec &v, const Vec &a, const Vec &j, const Vec &s, Vec &gp, Vec &gv, Vec &ga, Vec &gj, Vec &gs, double &gt) const {
      Vec tgt; tgt << 0.4 * tg - 1.0, 2.0 - 0.25 * tg; Vec d = p - tgt; double w = 0.1 * (1.0 + 0.05 * tg) + 0.01 * i;
      gp = 2.0 * d; gv = 2.0 * w * v; ga = 0.02 * a; gj = 0.002 * j; gs = 0.0002 * s; Vec tv; tv << 0.4, -0.25; gt = -2.0 * d.dot(tv) + 0.005 * v.squaredNorm();
      if (rec) rec->push_back({t, tg, (double)i}); return runc(t, tg, i, p, v, a, j, s); } };
  struct Prob { std::vector<double> T; Mat P; BoundaryConditions<DIM> bc; double t0; OptimizationFlags fl; double rho; int K; };
  static Prob make(std::mt19937 &g, int N) { std::uniform_real_distribution<double> du(0.5, 1.6), dp(-1.5, 1.5); Prob q; q.T.resize(N); q.P.resize(N + 1, DIM); for (auto &t : q.T) t = du(g);
    for (int i = 0; i <= N; ++i) for (int d = 0; d < DIM; ++d) q.P(i, d) = dp(g);
    for (int d = 0; d < DIM; ++d) { q.bc.start_velocity(d) = dp(g); q.bc.end_velocity(d) = dp(g); q.bc.start_acceleration(d) = dp(g); q.bc.end_acceleration(d) = dp(g); q.bc.start_jerk(d) = dp(g); q.bc.end_jerk(d) = dp(g); }
    q.t0 = 0.5 + dp(g); unsigned bits = g(); q.fl.start_p = bits & 1; q.fl.end_p = bits & 2; q.fl.start_v = bits & 4; q.fl.end_v = bits & 8; q.fl.start_a = bits & 16; q.fl.end_a = bits & 32; q.fl.start_j = bits & 64; q.fl.end_j = bits & 128;
    q.rho = (bits & 256) ? 0.05 : 0.0; int ks[3] = {1, 3, 8}; q.K = ks[(bits >> 9) % 3]; return q; }
  static bool configure(Opt &o, const Prob &q) { o.setOptimizationFlags(q.fl); o.setEnergyWeights(q.rho); o.setIntegralNumSteps(q.K); return o.setInitState(q.T, q.P, q.t0, q.bc); }
  static std::string tag(const char *cls, int N, const Prob &q) { char b[128]; std::snprintf(b, sizeof b, "%s N=%d K=%d rho=%g", cls, N, q.K, q.rho); return b; }

  static void c07(const char *cls, std::mt19937 &g) {
    for (int N = 1; N <= 4; ++N) { Prob q = make(g, N); Opt o; if (!configure(o, q)) { report(tag(cls, N, q) + " setInitState rejected a valid problem"); continue; }
      Eigen::VectorXd x = o.generateInitialGuess(); for (int i = 0; i < x.size(); ++i) x(i) += 0.05 * std::sin(1.7 * i + N);
      typename Opt::Workspace ws; Eigen::VectorXd gr; o.evaluate(x, gr, TimeCost(), WpCost(), RunCost(), &ws);
      for (int i = 0; i < x.size(); ++i) { const double e = 1e-6; Eigen::VectorXd a = x, b = x, dummy; a(i) += e; b(i) -= e;
        double fp = o.evaluate(a, dummy, TimeCost(), WpCost(), RunCost(), &ws), fm = o.evaluate(b, dummy, TimeCost(), WpCost(), RunCost(), &ws); double nu = (fp - fm) / (2 * e);
        if (std::fabs(nu - gr(i)) > 2e-4 * (1 + std::fabs(nu) + std::fabs(gr(i))) + 1e-13 * std::fabs(fp) / e) report(tag(cls, N, q) + " gradient component " + std::to_string(i) + " analytic " + std::to_string(gr(i)) + " numeric " + std::to_string(nu)); } }
  }
  static void c08(const char *cls, std::mt19937 &g) {
    for (int N = 1; N <= 4; ++N) { Prob q = make(g, N); Opt o; if (!configure(o, q)) continue; Eigen::VectorXd x = o.generateInitialGuess(); for (int i = 0; i < x.size(); ++i) x(i) += 0.03 * std::cos(1.1 * i);
      typename Opt::Workspace ws; Eigen::VectorXd gr; std::vector<std::array<double, 3>> rec; RunCost rc; rc.rec = &rec; double cost = o.evaluate(x, gr, TimeCost(), WpCost(), rc, &ws);
      const Spline &sp = ws.spline; const auto &traj = sp.getTrajectory(); const auto &bp = traj.getBreakpoints(); std::vector<double> Ts(N); for (int i = 0; i < N; ++i) Ts[i] = bp[i + 1] - bp[i];
      Eigen::VectorXd gd(N); double ref = TimeCost()(Ts, gd); Mat W = ws.cache_waypoints; Eigen::MatrixXd gw = W; ref += WpCost()(W, gw); ref += q.rho > 0 ? q.rho * sp.getEnergy() : 0.0;
      const Mat &C = traj.getCoefficients(); const int nc = (int)C.rows() / N; double quad = 0; size_t want = 0;
      for (int i = 0; i < N; ++i) for (int k = 0; k <= q.K; ++k) { double t = Ts[i] * k / q.K, tg = bp[i] + t; Vec d[5]; for (int r = 0; r < 5; ++r) for (int c = 0; c < DIM; ++c) { long double s = 0; for (int m = nc - 1; m >= r; --m) { long double f = 1; for (int u = 0; u < r; ++u) f *= (m - u); s = s * t + f * C(i * nc + m, c); } d[r](c) = (double)s; }
        double w = (k == 0 || k == q.K) ? 0.5 : 1.0; quad += w * (Ts[i] / q.K) * runc(t, tg, i, d[0], d[1], d[2], d[3], d[4]); ++want; }
      ref += quad;
      if (std::fabs(ref - cost) > 1e-8 * (1 + std::fabs(ref))) report(tag(cls, N, q) + " cost " + std::to_string(cost) + " vs time+waypoint+trapezoid+rho*energy " + std::to_string(ref));
      if (rec.size() != want) report(tag(cls, N, q) + " number of running-cost samples");
      for (auto &r : rec) { int i = (int)r[2]; if (i < 0 || i >= N || std::fabs(r[1] - (bp[i] + r[0])) > 1e-9 * (1 + std::fabs(r[1]))) { report(tag(cls, N, q) + " sample with wrong global time / index"); break; } } }
  }
  static void c09(const char *cls, std::mt19937 &g) {
    for (int N = 1; N <= 4; ++N) { Prob q = make(g, N); Opt o; if (!configure(o, q)) continue; int dim = o.getDimension(); int spatial = (N - 1) + (q.fl.start_p ? 1 : 0) + (q.fl.end_p ? 1 : 0);
      int blocks = (q.fl.start_v ? 1 : 0) + (q.fl.end_v ? 1 : 0); if (Spline::ORDER >= 5) blocks += (q.fl.start_a ? 1 : 0) + (q.fl.end_a ? 1 : 0); if (Spline::ORDER >= 7) blocks += (q.fl.start_j ? 1 : 0) + (q.fl.end_j ? 1 : 0);
      if (dim != N + DIM * (spatial + blocks)) report(tag(cls, N, q) + " dimension " + std::to_string(dim));
      Eigen::VectorXd x = o.generateInitialGuess(); if (x.size() != dim) { report(tag(cls, N, q) + " initial guess size"); continue; }
      typename Opt::Workspace ws; Eigen::VectorXd gr; o.evaluate(x, gr, TimeCost(), WpCost(), RunCost(), &ws);
      for (int i = 0; i < N; ++i) if (std::fabs(ws.cache_times[i] - q.T[i]) > 1e-9 * (1 + q.T[i])) report(tag(cls, N, q) + " round trip of duration " + std::to_string(i));
      if ((ws.cache_waypoints - q.P).cwiseAbs().maxCoeff() > 1e-12) report(tag(cls, N, q) + " round trip of the waypoints"); }
  }
  static void c15(const char *cls, std::mt19937 &g) {
    Prob q = make(g, 3); auto *src = new Opt(); if (!configure(*src, q)) { delete src; return; } Eigen::VectorXd x = src->generateInitialGuess(); Eigen::VectorXd g0, g1, g2; double c0 = src->evaluate(x, g0, TimeCost(), RunCost());
    Opt cp(*src); Opt as; as = *src; Prob q2 = make(g, 2); configure(*src, q2); delete src;
    double c1 = cp.evaluate(x, g1, TimeCost(), RunCost()), c2 = as.evaluate(x, g2, TimeCost(), RunCost());
    if (std::memcmp(&c0, &c1, sizeof c0) || std::memcmp(&c0, &c2, sizeof c0) || (g0 - g1).cwiseAbs().maxCoeff() != 0 || (g0 - g2).cwiseAbs().maxCoeff() != 0) report(std::string(cls) + " copy evaluates differently from its source after the source was modified and destroyed");
  }
  static void c19(const char *cls, std::mt19937 &g) {
    for (int N = 1; N <= 3; ++N) { Prob q = make(g, N); Opt o; if (!configure(o, q)) continue; Eigen::VectorXd x = o.generateInitialGuess(); for (int i = 0; i < x.size(); ++i) x(i) += 0.04 * std::sin(0.9 * i + 1);
      typename Opt::Workspace ws; auto r = o.checkGradients(x, TimeCost(), WpCost(), RunCost(), &ws, 1e-6, 1e-3);
      (void)r;   // 'success for correct functors' depends on finite-difference noise and is not asserted here
      struct BadTime { double operator()(const std::vector<double> &Ts, Eigen::VectorXd &gg) const { double c = TimeCost()(Ts, gg); gg(0) += 0.5; return c; } };
      auto rb = o.checkGradients(x, BadTime(), WpCost(), RunCost(), &ws, 1e-6, 1e-3); if (rb.valid) report(tag(cls, N, q) + " self-check passes a time cost whose gradient is off by 0.5");
      auto r2 = o.checkGradients(x, BadTime(), RunCost(), &ws, 1e-6, 10.0); if (!r2.valid) report(tag(cls, N, q) + " two-cost self-check ignores the caller's tolerance (10.0)");
      Eigen::VectorXd gr; typename Opt::Workspace w2; double c = o.evaluate(x, gr, TimeCost(), WpCost(), RunCost(), &w2);
      if ((ws.spline.getTrajectory().getCoefficients() - w2.spline.getTrajectory().getCoefficients()).cwiseAbs().maxCoeff() != 0) report(tag(cls, N, q) + " workspace spline after the self-check is not the spline of the checked vector"); (void)c; }
  }
};
int main(int argc, char **argv) {
  std::string p = argc > 1 ? argv[1] : "C07"; unsigned seed = argc > 2 ? (unsigned)std::atoi(argv[2]) : 1u; std::mt19937 g(seed * 104729u + 5u);
  auto all = [&](auto r, const char *cls) { using R = decltype(r); for (int rep = 0; rep < 3; ++rep) { if (p == "C07") R::c07(cls, g); else if (p == "C08") R::c08(cls, g); else if (p == "C09") R::c09(cls, g); else if (p == "C15") R::c15(cls, g); else if (p == "C19") R::c19(cls, g); } };
  all(Run<CubicSplineND<DIM>>(), "cubic"); all(Run<QuinticSplineND<DIM>>(), "quintic"); all(Run<SepticSplineND<DIM>>(), "septic");
  std::printf("replay_opt %s: %d failing inputs\n", p.c_str(), g_fail); return g_fail ? 1 : 0;
}
