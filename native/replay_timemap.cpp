// Native replay for C17: the real QuadInvTimeMap / IdentityTimeMap on a dense battery (plus a value from the model).
#include <Eigen/Dense>
#include <cmath>
#include <cstdio>
#include <cstdlib>
#include <vector>
#include "SplineOptimizer.hpp"
using namespace SplineTrajectory;
static int g_fail = 0;
static void report(const char *w, double a, double b) { if (g_fail < 12) std::printf("FAIL %s: at %.17g got %.17g\n", w, a, b); ++g_fail; }
int main(int argc, char **argv) {
  QuadInvTimeMap m; IdentityTimeMap id;
  std::vector<double> taus;
  for (int e = -300; e <= 60; ++e) { double v = std::pow(10.0, e / 10.0); taus.push_back(v); taus.push_back(-v); }
  for (int i = -2000; i <= 2000; ++i) taus.push_back(i * 1e-3);
  taus.push_back(0.0); taus.push_back(std::nextafter(0.0, 1.0)); taus.push_back(std::nextafter(0.0, -1.0));
  if (argc > 1) taus.push_back(std::atof(argv[1]));
  for (double tau : taus) {
    if (std::fabs(tau) > 1e6) continue;
    double T = m.toTime(tau);
    if (!(T > 0)) report("toTime not positive", tau, T);
    double back = m.toTau(T);
    if (std::fabs(back - tau) > 1e-6 * (1 + std::fabs(tau)) && T > 1e-300 && T < 1e300 && std::fabs(tau) < 1e3) report("toTau(toTime(tau)) != tau", tau, back);
    double h = 1e-6 * (1 + std::fabs(tau));
    double fd = (m.toTime(tau + h) - m.toTime(tau - h)) / (2 * h);
    double an = m.backward(tau, T, 1.0);
    if (std::fabs(fd - an) > 1e-5 * (1 + std::fabs(an))) report("backward != gradT * dT/dtau (finite differences)", tau, an);
    double T2 = m.toTime(std::nextafter(tau, 1e300));
    if (T2 < T) report("toTime decreasing between adjacent doubles", tau, T2);
    if (id.toTime(tau) != tau || id.toTau(tau) != tau || id.backward(tau, T, 3.0) != 3.0) report("identity map", tau, 0);
  }
  for (int e = -60; e <= 60; ++e) { double T = std::pow(10.0, e / 10.0); double tau = m.toTau(T); double T2 = m.toTime(tau);
    if (std::fabs(T2 - T) > 1e-9 * T) report("toTime(toTau(T)) != T", T, T2);
    double t3 = m.toTau(T * 1.0000001); if (!(t3 > tau)) report("toTau not strictly increasing", T, t3); }
  std::printf("replay_timemap: %d failing checks\n", g_fail);
  return g_fail ? 1 : 0;
}
