// Native replay for the PPolyND family (properties C03, C11, C16, C20): runs the REAL header on a battery of scenarios
// seeded from a refuted obligation's model (segment count, hint, derivative order, coefficient count) and evaluates the
// property-level observable against an independent long-double reference.  exit 1 = a failing input was found.
#include <Eigen/Dense>
#include <vector>
#include <cmath>
#include <cstdio>
#include <cstdlib>
#include <random>
#include <string>
#include <limits>
#define private public
#include "SplineTrajectory.hpp"
#undef private
using namespace SplineTrajectory;

static int g_fail = 0;
static void report(const char *what, const std::string &detail) {
  if (g_fail < 12) std::printf("FAIL %s: %s\n", what, detail.c_str());
  ++g_fail;
}
static long double ffl(int n, int k) { long double r = 1; for (int j = 0; j < k; ++j) r *= (n - j); return r; }

template <int DIM, int ORDER> struct Fam {
  using PP = PPolyND<DIM, ORDER>;
  using Mat = typename PP::MatrixType;
  using Vec = typename PP::VectorType;
  static int ref_seg(const std::vector<double> &bp, double t) {
    int n = (int)bp.size() - 1;
    if (t < bp[0]) return 0;
    if (t >= bp[n]) return n - 1;
    for (int i = 0; i < n; ++i) if (bp[i] <= t && t < bp[i + 1]) return i;
    return n - 1;
  }
  static Vec ref_eval(const std::vector<double> &bp, const Mat &C, int nc, int seg, double tl, int k) {
    Vec out; 
    for (int d = 0; d < DIM; ++d) {
      long double s = 0;
      for (int m = nc - 1; m >= k; --m) s = s * (long double)tl + ffl(m, k) * (long double)C(seg * nc + m, d);
      out(d) = (double)s;
    }
    if (k >= nc) out.setZero();
    return out;
  }
  static bool close(const Vec &a, const Vec &b, double scale) {
    for (int d = 0; d < DIM; ++d) { double e = std::fabs(a(d) - b(d)); if (!(e <= 1e-9 * (1.0 + scale))) return false; }
    return true;
  }
  static void make(std::mt19937 &g, int nseg, int nc, std::vector<double> &bp, Mat &C, double start) {
    std::uniform_real_distribution<double> du(0.2, 1.7), dc(-2, 2);
    bp.assign(nseg + 1, start);
    for (int i = 0; i < nseg; ++i) bp[i + 1] = bp[i] + du(g);
    C.resize(nseg * nc, DIM);
    for (int r = 0; r < nseg * nc; ++r) for (int d = 0; d < DIM; ++d) C(r, d) = dc(g);
  }
  static double scale_of(const Mat &C, int nc, int k) { double s = C.size() ? C.cwiseAbs().maxCoeff() : 1; return s * (double)ffl(nc > 0 ? nc - 1 : 0, std::min(k, nc > 0 ? nc - 1 : 0)) * 40.0; }

  // ---- C03
  static void c03(std::mt19937 &g, int nseg, int nc, int hint_model, int k_model) {
    std::vector<double> bp; Mat C; make(g, nseg, nc, bp, C, 0.75);
    PP pp(bp, C, nc);
    if (!pp.isInitialized()) { if (ORDER == Eigen::Dynamic || (nc > 0 && nc <= ORDER)) report("C03 init", "valid construction rejected"); return; }
    std::vector<double> ts;
    for (int i = 0; i <= nseg; ++i) { ts.push_back(bp[i]); ts.push_back(std::nextafter(bp[i], -1e300)); ts.push_back(std::nextafter(bp[i], 1e300)); if (i < nseg) ts.push_back(0.5 * (bp[i] + bp[i + 1])); }
    ts.push_back(bp[0] - 3.0); ts.push_back(bp[nseg] + 5.0);
    std::vector<int> ks; for (int k = 0; k <= nc + 1; ++k) ks.push_back(k); 
    std::vector<int> hints; for (int h = -2; h <= std::min(nseg + 2, 8); ++h) hints.push_back(h); hints.push_back(nseg - 1); hints.push_back(nseg); hints.push_back(hint_model);
    PP dpp[16];
    for (int k : ks) {
      if (k > 14) continue;
      PP dk = pp.derivative(k);
      std::vector<double> tv = ts; auto batch = pp.evaluate(tv, k);
      for (size_t ti = 0; ti < ts.size(); ++ti) {
        double t = ts[ti]; int rs = ref_seg(bp, t); double tl = t - bp[rs];
        Vec ref = ref_eval(bp, C, nc, rs, tl, k); double sc = scale_of(C, nc, k) * std::pow(std::max(1.0, std::fabs(tl)), nc);
        Vec plain = pp.evaluate(t, k);
        if (!close(plain, ref, sc)) report("C03 plain evaluate != k-th derivative of the half-open piece", "nseg=" + std::to_string(nseg) + " nc=" + std::to_string(nc) + " k=" + std::to_string(k) + " t=" + std::to_string(t));
        if (batch[ti] != plain) report("C03 batch != pointwise", "t=" + std::to_string(t));
        Vec seg_route = pp[rs].evaluate(tl, k);
        if (seg_route != plain) report("C03 Segment::evaluate != plain", "t=" + std::to_string(t) + " k=" + std::to_string(k));
        if (pp.at(rs).evaluate(tl, k) != plain) report("C03 at(i).evaluate != plain", "");
        auto it = pp.begin() + rs; if ((*it).evaluate(tl, k) != plain) report("C03 iterator route != plain", "");
        Vec dv = dk.evaluate(t, 0);
        if (!close(dv, ref, sc)) report("C03 derivative(k).evaluate(t,0) != evaluate(t,k)", "nseg=" + std::to_string(nseg) + " nc=" + std::to_string(nc) + " k=" + std::to_string(k) + " t=" + std::to_string(t));
        for (int h : hints) {
          int hv = h; Vec hinted = pp.evaluate(t, &hv, k);
          if (hinted != plain) report("C03 hinted evaluate != plain evaluate", "nseg=" + std::to_string(nseg) + " t=" + std::to_string(t) + " hint_in=" + std::to_string(h) + " k=" + std::to_string(k));
          if (k < nc && hv != rs) report("C03 hint not left at the piece used", "nseg=" + std::to_string(nseg) + " t=" + std::to_string(t) + " hint_in=" + std::to_string(h) + " hint_out=" + std::to_string(hv) + " piece=" + std::to_string(rs));
        }
      }
    }
    // sequences of hinted calls
    int hv = hint_model; std::uniform_real_distribution<double> dt(bp[0] - 1, bp[nseg] + 1);
    for (int r = 0; r < 200; ++r) { double t = (r % 3 == 0) ? bp[(r * 7) % (nseg + 1)] : dt(g); Vec a = pp.evaluate(t, &hv, 0), b = pp.evaluate(t, 0); if (a != b || hv != ref_seg(bp, t)) { report("C03 hinted sequence diverges", "t=" + std::to_string(t)); break; } }
    (void)k_model;
  }
  // ---- C11: histories of evaluate / update / copy
  static void c11(std::mt19937 &g, int nseg, int nc) {
    std::vector<double> bpA, bpB; Mat CA, CB; make(g, nseg, nc, bpA, CA, 0.0);
    PP pp(bpA, CA, nc);
    for (int k = 0; k < nc; ++k) pp.evaluate(0.5 * (bpA[0] + bpA[1]), k);
    for (int variant = 0; variant < 7; ++variant) {
      int nseg2 = (variant % 3 == 0) ? nseg : (variant % 3 == 1 ? nseg + 2 : std::max(1, nseg - 1));
      int nc2 = (variant < 3) ? nc : std::max(1, nc - 1);
      if (ORDER != Eigen::Dynamic && nc2 > ORDER) nc2 = ORDER;
      if (variant == 4) { Mat bad(3, DIM); bad.setZero(); pp.update(bpA, bad, nc + 40); }   // a rejected update in between
      if (variant == 5) { std::vector<double> one(1, 0.0); Mat none(0, DIM); pp.update(one, none, nc); }
      if (variant == 6) { int big = (ORDER == Eigen::Dynamic ? nc + 3 : ORDER + 2); Mat many(nseg * big, DIM); many.setOnes(); pp.update(bpA, many, big); }   // rejected by count (fixed order) / accepted (dynamic)
      make(g, nseg2, nc2, bpB, CB, 1.5);
      pp.update(bpB, CB, nc2);
      PP fresh(bpB, CB, nc2); PP copy = pp; PP assigned; assigned = pp;
      for (int k = 0; k <= nc2; ++k) for (int i = 0; i <= nseg2; ++i) { double t = (i < nseg2) ? 0.5 * (bpB[i] + bpB[i + 1]) : bpB[i];
        Vec a = pp.evaluate(t, k), b = fresh.evaluate(t, k);
        if (a != b) report("C11 evaluation after update differs from a freshly built object (stale cache)", "variant=" + std::to_string(variant) + " k=" + std::to_string(k));
        if (copy.evaluate(t, k) != b || assigned.evaluate(t, k) != b) report("C11 copy/assigned instance differs", "variant=" + std::to_string(variant)); }
      for (int k = 0; k < nc2; ++k) pp.evaluate(bpB[0], k);
    }
  }
  // ---- C16: PPolyND part
  static void c16(std::mt19937 &g, int nseg, int nc) {
    std::vector<double> bp; Mat C; make(g, nseg, nc, bp, C, 0.0);
    for (int variant = 0; variant < 5; ++variant) {
      std::vector<double> b2 = bp; Mat C2 = C; int n2 = nc; bool expect = true;
      if (variant == 1) { b2.resize(1); expect = false; }
      if (variant == 2) { C2.conservativeResize(C.rows() + 1, DIM); expect = false; }
      if (variant == 3) { n2 = nc + 1; expect = ((long)(b2.size() - 1) * n2 == C2.rows()); }
      if (variant == 4) { b2.clear(); expect = false; }
      if (ORDER != Eigen::Dynamic && expect && (n2 <= 0 || n2 > ORDER)) expect = false;
      PP pp(bp, C, nc); bool was = pp.isInitialized(); (void)was;
      pp.update(b2, C2, n2);
      if (pp.isInitialized() != expect) report("C16 PPolyND acceptance verdict", "variant=" + std::to_string(variant) + " nc=" + std::to_string(nc));
      if (!expect && (pp.getNumSegments() != 0)) report("C16 rejected object still has segments", "variant=" + std::to_string(variant));
      for (int idx : {-1, 0, pp.getNumSegments() - 1, pp.getNumSegments(), pp.getNumSegments() + 3}) {
        bool thrown = false; try { pp.at(idx); } catch (const std::out_of_range &) { thrown = true; }
        bool should = (idx < 0 || idx >= pp.getNumSegments());
        if (thrown != should) report("C16 at() bounds check", "idx=" + std::to_string(idx));
      }
    }
  }
  // ---- C20
  static void c20(std::mt19937 &g, int nseg, int nc) {
    std::vector<double> bp; Mat C; make(g, nseg, nc, bp, C, 0.25);
    PP pp(bp, C, nc);
    double a = bp[0], b = bp[nseg];
    for (double dt : {0.01, 0.1, 0.25, (b - a) / 7.0, (b - a), (b - a) * 3.0, 0.3333333333333333}) for (int sub = 0; sub < 3; ++sub) {
      double s = (sub == 1) ? a + 0.1 : a, e = (sub == 2) ? s : b;
      auto seq = pp.generateTimeSequence(s, e, dt);
      if (seq.empty() || seq[0] != s) { report("C20 sequence does not start at the requested start", ""); continue; }
      for (size_t i = 1; i < seq.size(); ++i) if (!(seq[i] > seq[i - 1])) report("C20 sequence not strictly increasing", "dt=" + std::to_string(dt));
      if (seq.back() > e + 1e-6 || std::fabs(seq.back() - e) > 1e-6) report("C20 sequence end", "dt=" + std::to_string(dt));
      for (size_t i = 0; i + 1 < seq.size(); ++i) if (i + 2 < seq.size() && std::fabs(seq[i] - (s + i * dt)) > 1e-12 * (1 + std::fabs(seq[i]))) report("C20 sample not start + i*dt", "");
      auto batch = pp.evaluate(seq, 1); long double len = 0;
      for (size_t i = 0; i < seq.size(); ++i) { if (batch[i] != pp.evaluate(seq[i], 1)) report("C20 batch != pointwise", ""); if (i + 1 < seq.size()) len += (long double)batch[i].norm() * (seq[i + 1] - seq[i]); }
      double L = pp.getTrajectoryLength(s, e, dt);
      if (std::fabs((double)len - L) > 1e-9 * (1 + std::fabs(L))) report("C20 length != left Riemann sum of speed", "dt=" + std::to_string(dt));
    }
    { // samples landing exactly on interior knots, every derivative order (the top one is discontinuous there)
      std::vector<double> kb(nseg + 1); for (int i = 0; i <= nseg; ++i) kb[i] = i; PP q(kb, C, nc);
      for (double dt : {0.25, 0.5, 1.0}) { auto seq = q.generateTimeSequence(0.0, (double)nseg, dt);
        for (int k = 0; k <= nc; ++k) { auto bt = q.evaluate(seq, k); for (size_t i = 0; i < seq.size(); ++i) if (bt[i] != q.evaluate(seq[i], k)) report("C20 batch != pointwise at a knot", "k=" + std::to_string(k) + " t=" + std::to_string(seq[i])); } } }
    Vec cst; for (int d = 0; d < DIM; ++d) cst(d) = 1.5 + d;
    PP z = PP::zero(bp, std::max(1, std::min(nc, ORDER == Eigen::Dynamic ? nc : ORDER))), c = PP::constant(bp, cst);
    if (!z.isInitialized() || !c.isInitialized() || z.getBreakpoints() != bp || c.getBreakpoints() != bp) report("C20 factories not initialised on the given breakpoints", "");
    for (double t : {a - 1, a, 0.5 * (a + b), b, b + 2}) for (int k = 0; k < 3; ++k) {
      if (z.evaluate(t, k) != Vec::Zero()) report("C20 zero() evaluates non-zero", "");
      if (c.evaluate(t, k) != (k == 0 ? cst : Vec(Vec::Zero()))) report("C20 constant() value/derivative", ""); }
  }
  static void run(const std::string &prop, unsigned seed, int nseg_model, int nc_model, int hint_model, int k_model) {
    std::mt19937 g(seed);
    std::vector<int> nsegs = {1, 2, 3, 5, 31, 32, 33, 40}; if (nseg_model >= 1 && nseg_model <= 200) nsegs.push_back(nseg_model);
    std::vector<int> ncs; for (int c = 1; c <= 12; ++c) if (ORDER == Eigen::Dynamic || c <= ORDER) ncs.push_back(c);
    if (nc_model >= 1 && nc_model <= 14 && (ORDER == Eigen::Dynamic || nc_model <= ORDER)) ncs.push_back(nc_model);
    for (int nseg : nsegs) for (int nc : ncs) {
      if (prop == "C03") { if (nseg > 5 && nc != 4 && nc != 9 && nc != nc_model) continue; c03(g, nseg, nc, hint_model, k_model); }
      else if (prop == "C11") { if (nseg > 5) continue; c11(g, nseg, nc); }
      else if (prop == "C16") { if (nseg > 3) continue; c16(g, nseg, nc); }
      else if (prop == "C20") { if (nseg > 5 || nc > 6) continue; c20(g, nseg, nc); }
    }
  }
};

int main(int argc, char **argv) {
  std::string prop = argc > 1 ? argv[1] : "C03";
  unsigned seed = argc > 2 ? (unsigned)std::atol(argv[2]) : 0u;
  int nseg = argc > 3 ? std::atoi(argv[3]) : 0, nc = argc > 4 ? std::atoi(argv[4]) : 0, hint = argc > 5 ? std::atoi(argv[5]) : 0, k = argc > 6 ? std::atoi(argv[6]) : 0;
  Fam<2, Eigen::Dynamic>::run(prop, seed, nseg, nc, hint, k);
  Fam<1, Eigen::Dynamic>::run(prop, seed + 1, nseg, nc, hint, k);
  Fam<2, 4>::run(prop, seed + 2, nseg, nc, hint, k);
  Fam<3, 6>::run(prop, seed + 3, nseg, nc, hint, k);
  Fam<1, 8>::run(prop, seed + 4, nseg, nc, hint, k);
  std::printf("replay_ppoly %s: %d failing checks\n", prop.c_str(), g_fail);
  return g_fail ? 1 : 0;
}
