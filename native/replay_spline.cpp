// Native replay for the spline family (C01, C02, C04, C05, C06, C10, C13, C14): runs the REAL header (compiled against the
// repository at replay time) on a seeded battery of well-scaled problems -- all three orders, DIM 1/2/4 (4 takes the septic
// DIM > 3 gradient path), N = 1..6, non-zero start time and boundary derivatives -- and evaluates the property-level
// observable against independent references (long-double polynomial evaluation, Gauss-Legendre quadrature, central
// differences).  usage: replay_spline <property> <seed>.   exit 1 = a failing input was found (printed), 0 = none.
#include <Eigen/Dense>
#include <vector>
#include <cmath>
#include <cstdio>
#include <cstdlib>
#include <cstring>
#include <random>
#include <string>
#include "SplineTrajectory.hpp"
using namespace SplineTrajectory;

static int g_fail = 0;
static void report(const std::string &what) { if (g_fail < 40) std::printf("FAILING INPUT %s\n", what.c_str()); ++g_fail; }
static long double ffl(int n, int k) { long double r = 1; for (int j = 0; j < k; ++j) r *= (n - j); return r; }

template <class Spline, int DIM, int S> struct Fam {
  using Mat = typename Spline::MatrixType;
  using Vec = Eigen::Matrix<double, DIM, 1>;
  static constexpr int NC = 2 * S;
  struct Prob { std::vector<double> T; Mat P; double t0; BoundaryConditions<DIM> bc; };
  static Prob make(std::mt19937 &g, int N) {
    std::uniform_real_distribution<double> du(0.4, 1.9), dp(-2, 2);
    Prob q; q.T.resize(N); q.P.resize(N + 1, DIM); q.t0 = 0.75 + dp(g);
    for (auto &t : q.T) t = du(g);
    for (int i = 0; i <= N; ++i) for (int d = 0; d < DIM; ++d) q.P(i, d) = dp(g);
    for (int d = 0; d < DIM; ++d) {
      q.bc.start_velocity(d) = dp(g); q.bc.end_velocity(d) = dp(g);
      q.bc.start_acceleration(d) = dp(g); q.bc.end_acceleration(d) = dp(g);
      q.bc.start_jerk(d) = dp(g); q.bc.end_jerk(d) = dp(g);
    }
    return q;
  }
  static Spline build(const Prob &q) { Spline s; s.update(q.T, q.P, q.t0, q.bc); return s; }
  static long double der(const Mat &C, int seg, int k, long double t, int d) {
    long double s = 0; for (int m = NC - 1; m >= k; --m) s = s * t + ffl(m, k) * (long double)C(seg * NC + m, d); return s;
  }
  static std::string tag(const char *cls, int N) { char b[96]; std::snprintf(b, sizeof b, "%s DIM=%d N=%d", cls, DIM, N); return b; }
  static long double energy_ref(const Mat &C, const std::vector<double> &T) {
    static const long double gx[5] = {0.0L, 0.5384693101056831L, -0.5384693101056831L, 0.9061798459386640L, -0.9061798459386640L};
    static const long double gw[5] = {0.5688888888888889L, 0.4786286704993665L, 0.4786286704993665L, 0.2369268850561891L, 0.2369268850561891L};
    long double E = 0;
    for (size_t i = 0; i < T.size(); ++i) for (int d = 0; d < DIM; ++d) {
      // integrand is a polynomial of degree 2(NC-1-S) <= 6: split in two panels of 5-point Gauss-Legendre (exact to degree 9)
      for (int half = 0; half < 2; ++half) { long double a = half * T[i] / 2.0L, b = (half + 1) * T[i] / 2.0L;
        for (int q = 0; q < 5; ++q) { long double t = (a + b) / 2 + gx[q] * (b - a) / 2, v = der(C, (int)i, S, t, d); E += gw[q] * (b - a) / 2 * v * v; } }
    }
    return E;
  }
  static double bcval(const BoundaryConditions<DIM> &bc, bool end, int k, int d) {
    if (k == 1) return end ? bc.end_velocity(d) : bc.start_velocity(d);
    if (k == 2) return end ? bc.end_acceleration(d) : bc.start_acceleration(d);
    return end ? bc.end_jerk(d) : bc.start_jerk(d);
  }
  // ------------------------------------------------------------------ C01 / C02
  static void c01(const char *cls, std::mt19937 &g, bool high) {
    for (int N = 1; N <= 6; ++N) { Prob q = make(g, N); Spline s = build(q); const Mat &C = s.getTrajectory().getCoefficients();
      double sc = 1.0 + C.cwiseAbs().maxCoeff() * 50;
      const auto &bp = s.getTrajectory().getBreakpoints();
      long double acc = q.t0; for (int i = 0; i <= N; ++i) { if (std::fabs((double)(bp[i] - acc)) > 1e-9 * (1 + std::fabs((double)acc))) report(tag(cls, N) + " knot time " + std::to_string(i)); if (i < N) acc += q.T[i]; }
      for (int i = 0; i < N; ++i) for (int d = 0; d < DIM; ++d) {
        if (!high) { if (std::fabs((double)(der(C, i, 0, 0, d) - q.P(i, d))) > 1e-8 * sc) report(tag(cls, N) + " left interpolation seg " + std::to_string(i));
          if (std::fabs((double)(der(C, i, 0, q.T[i], d) - q.P(i + 1, d))) > 1e-8 * sc) report(tag(cls, N) + " right interpolation seg " + std::to_string(i)); }
        if (i > 0) for (int k = (high ? S : 1); k < (high ? 2 * S - 1 : S); ++k) {
          long double j = der(C, i, k, 0, d) - der(C, i - 1, k, q.T[i - 1], d);
          if (std::fabs((double)j) > 1e-6 * sc * std::pow(3.0, k)) report(tag(cls, N) + " jump of derivative " + std::to_string(k) + " at knot " + std::to_string(i) + " = " + std::to_string((double)j)); }
      }
      if (!high) for (int d = 0; d < DIM; ++d) for (int k = 1; k < S; ++k) {
        if (std::fabs((double)(der(C, 0, k, 0, d) - bcval(q.bc, false, k, d))) > 1e-8 * sc) report(tag(cls, N) + " start derivative " + std::to_string(k));
        if (std::fabs((double)(der(C, N - 1, k, q.T[N - 1], d) - bcval(q.bc, true, k, d))) > 1e-7 * sc) report(tag(cls, N) + " end derivative " + std::to_string(k)); }
    }
  }
  static void c04(const char *cls, std::mt19937 &g) {
    for (int N = 1; N <= 6; ++N) { Prob q = make(g, N); Spline s = build(q); long double E = energy_ref(s.getTrajectory().getCoefficients(), q.T);
      if (std::fabs((double)(E - s.getEnergy())) > 1e-8 * (1 + std::fabs((double)E))) report(tag(cls, N) + " energy " + std::to_string(s.getEnergy()) + " vs integral " + std::to_string((double)E)); }
  }
  // ------------------------------------------------------------------ C05 / C06: dot-product test against central differences
  static double objective(const Prob &q, const Mat &gC, const Eigen::VectorXd &gT, bool energy) {
    Spline s = build(q); if (energy) return s.getEnergy();
    const Mat &C = s.getTrajectory().getCoefficients(); double v = 0; for (int r = 0; r < C.rows(); ++r) for (int d = 0; d < DIM; ++d) v += gC(r, d) * C(r, d);
    for (size_t i = 0; i < q.T.size(); ++i) v += gT(i) * q.T[i]; return v;
  }
  static void grads(const char *cls, std::mt19937 &g, bool energy) {
    std::uniform_real_distribution<double> dp(-1, 1);
    for (int N = 1; N <= 5; ++N) { Prob q = make(g, N); Spline s = build(q);
      Mat gC(N * NC, DIM); Eigen::VectorXd gT(N); for (int r = 0; r < N * NC; ++r) for (int d = 0; d < DIM; ++d) gC(r, d) = dp(g); for (int i = 0; i < N; ++i) gT(i) = dp(g);
      typename Spline::Gradients G = energy ? s.getEnergyGrad() : s.propagateGrad(gC, gT);
      const double e = 1e-6; const double f0 = std::fabs(objective(q, gC, gT, energy)); const double noise = 2e-14 * f0 / e;   // rounding of the differenced objective
      auto fd = [&](auto &&perturb) { Prob a = q, b = q; perturb(a, e); perturb(b, -e); return (objective(a, gC, gT, energy) - objective(b, gC, gT, energy)) / (2 * e); };
      auto chk = [&](double an, double nu, const std::string &what) { if (std::fabs(an - nu) > 1e-3 * (1 + std::fabs(an) + std::fabs(nu)) + 50 * noise) report(tag(cls, N) + (energy ? " energy gradient " : " propagated gradient ") + what + " analytic " + std::to_string(an) + " numeric " + std::to_string(nu)); };
      for (int i = 0; i < N; ++i) chk(G.times(i), fd([&](Prob &p, double h) { p.T[i] += h; }), "duration " + std::to_string(i));
      for (int d = 0; d < DIM; ++d) {
        for (int j = 1; j < N; ++j) chk(G.inner_points(j - 1, d), fd([&](Prob &p, double h) { p.P(j, d) += h; }), "inner point " + std::to_string(j));
        chk(G.start.p(d), fd([&](Prob &p, double h) { p.P(0, d) += h; }), "start point"); chk(G.end.p(d), fd([&](Prob &p, double h) { p.P(N, d) += h; }), "end point");
        chk(G.start.v(d), fd([&](Prob &p, double h) { p.bc.start_velocity(d) += h; }), "start velocity"); chk(G.end.v(d), fd([&](Prob &p, double h) { p.bc.end_velocity(d) += h; }), "end velocity");
        if constexpr (S >= 3) { chk(G.start.a(d), fd([&](Prob &p, double h) { p.bc.start_acceleration(d) += h; }), "start acceleration"); chk(G.end.a(d), fd([&](Prob &p, double h) { p.bc.end_acceleration(d) += h; }), "end acceleration"); }
        if constexpr (S >= 4) { chk(G.start.j(d), fd([&](Prob &p, double h) { p.bc.start_jerk(d) += h; }), "start jerk"); chk(G.end.j(d), fd([&](Prob &p, double h) { p.bc.end_jerk(d) += h; }), "end jerk"); }
      }
    }
  }
  // ------------------------------------------------------------------ C10: reused object vs fresh object, bitwise
  static void c10(const char *cls, std::mt19937 &g) {
    Spline reused; int sizes[] = {5, 2, 6, 1, 3, 2, 4};
    for (int N : sizes) { Prob q = make(g, N); reused.update(q.T, q.P, q.t0, q.bc); Spline fresh = build(q);
      const Mat &A = reused.getTrajectory().getCoefficients(), &B = fresh.getTrajectory().getCoefficients();
      bool same = A.rows() == B.rows() && std::memcmp(A.data(), B.data(), sizeof(double) * A.size()) == 0;
      double ea = reused.getEnergy(), eb = fresh.getEnergy(); same = same && std::memcmp(&ea, &eb, sizeof ea) == 0;
      auto ga = reused.getEnergyGrad(), gb = fresh.getEnergyGrad(); same = same && ga.times.size() == gb.times.size() && (ga.times - gb.times).cwiseAbs().maxCoeff() == 0.0;
      const auto &ba = reused.getTrajectory().getBreakpoints(), &bb = fresh.getTrajectory().getBreakpoints(); same = same && ba.size() == bb.size() && std::memcmp(ba.data(), bb.data(), sizeof(double) * ba.size()) == 0;
      if (!same) report(tag(cls, N) + " reused object differs from a fresh one after a history of other sizes"); }
  }
  // ------------------------------------------------------------------ C14: shift / translation / scaling
  static void c14(const char *cls, std::mt19937 &g) {
    for (int N = 1; N <= 4; ++N) { Prob q = make(g, N); Spline s = build(q); const Mat C = s.getTrajectory().getCoefficients(); double E = s.getEnergy(); double sc = 1 + C.cwiseAbs().maxCoeff();
      { Prob a = q; a.t0 += 3.5; Spline t = build(a); if ((t.getTrajectory().getCoefficients() - C).cwiseAbs().maxCoeff() > 1e-9 * sc) report(tag(cls, N) + " start-time shift changes the polynomials"); }
      { Prob a = q; for (int i = 0; i <= N; ++i) for (int d = 0; d < DIM; ++d) a.P(i, d) += 1.25 * (d + 1); Spline t = build(a); Mat D = t.getTrajectory().getCoefficients() - C;
        for (int i = 0; i < N; ++i) for (int d = 0; d < DIM; ++d) D(i * NC, d) -= 1.25 * (d + 1);
        if (D.cwiseAbs().maxCoeff() > 1e-8 * sc * 10 || std::fabs(t.getEnergy() - E) > 1e-7 * (1 + E)) report(tag(cls, N) + " translation is not a pure shift of c0 / changes the energy"); }
      { Prob a = q; a.P *= 2.0; for (int d = 0; d < DIM; ++d) { a.bc.start_velocity(d) *= 2; a.bc.end_velocity(d) *= 2; a.bc.start_acceleration(d) *= 2; a.bc.end_acceleration(d) *= 2; a.bc.start_jerk(d) *= 2; a.bc.end_jerk(d) *= 2; }
        Spline t = build(a); if ((t.getTrajectory().getCoefficients() - 2.0 * C).cwiseAbs().maxCoeff() > 1e-8 * sc * 10 || std::fabs(t.getEnergy() - 4 * E) > 1e-7 * (1 + 4 * E)) report(tag(cls, N) + " scaling by 2"); }
    }
  }
};

template <int DIM> static void all(const std::string &prop, std::mt19937 &g) {
  auto run = [&](auto fam, const char *cls) { using F = decltype(fam);
    if (prop == "C01") F::c01(cls, g, false); else if (prop == "C02") F::c01(cls, g, true); else if (prop == "C04") F::c04(cls, g);
    else if (prop == "C05" || prop == "C13") F::grads(cls, g, false); else if (prop == "C06") { F::grads(cls, g, true); }
    else if (prop == "C10") F::c10(cls, g); else if (prop == "C14") { F::c14(cls, g); F::c01(cls, g, true); } };
  run(Fam<CubicSplineND<DIM>, DIM, 2>(), "cubic"); run(Fam<QuinticSplineND<DIM>, DIM, 3>(), "quintic"); run(Fam<SepticSplineND<DIM>, DIM, 4>(), "septic");
}
int main(int argc, char **argv) {
  std::string prop = argc > 1 ? argv[1] : "C01"; unsigned seed = argc > 2 ? (unsigned)std::atoi(argv[2]) : 1u; std::mt19937 g(seed * 7919u + 17u);
  all<1>(prop, g); all<2>(prop, g); all<4>(prop, g);
  std::printf("replay_spline %s: %d failing inputs\n", prop.c_str(), g_fail);
  return g_fail ? 1 : 0;
}
