// Native replay for property C12 (built from /repo's headers on every use).
//   replay_c12 schedule   : cost/gradient under reversed, rotated and threaded executors vs the serial executor, bitwise
//   replay_c12 race       : two threads evaluate on one freshly configured optimizer, each with its own workspace
//                           (meant to be built with -fsanitize=thread; a report makes the process exit with code 66)
// exit 0: nothing found, 1: failing input found (printed), 2: setup problem
#include "SplineTrajectory.hpp"
#include "SplineOptimizer.hpp"
#include <cstdio>
#include <cstring>
#include <thread>
#include <vector>
#include <cmath>
#include <algorithm>
using namespace SplineTrajectory;
static constexpr int DIM = 2;
template <class Spline> struct Run {
    using Opt = SplineOptimizer<DIM, Spline>;
    using Vec = typename Opt::VectorType;
    using Mat = typename Opt::MatrixType;
    struct TimeCost { double operator()(const std::vector<double> &Ts, Eigen::VectorXd &g) const { double c = 0; for (size_t i = 0; i < Ts.size(); ++i) { c += 0.3 * Ts[i] * Ts[i]; g(i) = 0.6 * Ts[i]; } return c; } };
    struct RunCost {
        double operator()(double t, double tg, int i, const Vec &p, const Vec &v, const Vec &a, const Vec &j, const Vec &s,
                          Vec &gp, Vec &gv, Vec &ga, Vec &gj, Vec &gs, double &gt) const {
            Vec tgt; tgt << 0.4 * tg - 1.0, 2.0 - 0.25 * tg;
            Vec d = p - tgt; double w = 0.1 * (1.0 + 0.05 * tg) + 0.01 * i + 0.001 * t;
            gp = 2.0 * d; gv = 2.0 * w * v; ga = 0.02 * a; gj = 0.002 * j; gs = 0.0002 * s;
            Vec tv; tv << 0.4, -0.25; gt = -2.0 * d.dot(tv) + 0.005 * v.squaredNorm();
            return d.squaredNorm() + w * v.squaredNorm() + 0.01 * a.squaredNorm() + 0.001 * j.squaredNorm() + 0.0001 * s.squaredNorm();
        }
    };
    struct OrderExec { const std::vector<int> *order; template <class F> void operator()(int s, int, F &&f) const { for (int k : *order) f(s + k); } };
    struct ThreadExec { int nt; template <class F> void operator()(int s, int e, F &&f) const {
        std::vector<std::thread> th; for (int k = 0; k < nt; ++k) th.emplace_back([&, k]() { for (int i = e - 1 - k; i >= s; i -= nt) f(i); }); for (auto &t : th) t.join(); } };
    static void configure(Opt &opt, int N) {
        std::vector<double> Ts(N); Mat wps(N + 1, DIM); BoundaryConditions<DIM> bc;
        for (int i = 0; i < N; ++i) Ts[i] = 0.6 + 0.35 * i + 0.1 * ((i * 7) % 3);
        for (int i = 0; i <= N; ++i) { wps(i, 0) = 0.8 * i + 0.3 * std::sin(1.3 * i); wps(i, 1) = 1.0 - 0.5 * i + 0.4 * std::cos(0.7 * i); }
        bc.start_velocity << 0.2, -0.1; bc.end_velocity << -0.3, 0.15;
        opt.setIntegralNumSteps(8); opt.setEnergyWeights(0.05);
        if (!opt.setInitState(Ts, wps, 1.75, bc)) { std::printf("setInitState failed\n"); std::exit(2); }
    }
    static bool same(double c1, const Eigen::VectorXd &g1, double c2, const Eigen::VectorXd &g2) {
        return std::memcmp(&c1, &c2, sizeof c1) == 0 && g1.size() == g2.size() && std::memcmp(g1.data(), g2.data(), sizeof(double) * g1.size()) == 0; }
    static int schedule(const char *name) {
        int bad = 0;
        for (int N = 2; N <= 5; ++N) {
            Opt opt; configure(opt, N);
            Eigen::VectorXd x = opt.generateInitialGuess(); for (int i = 0; i < x.size(); ++i) x(i) += 0.05 * std::sin(2.1 * i + N);
            typename Opt::Workspace w0; Eigen::VectorXd g0; double c0 = opt.evaluate(x, g0, TimeCost(), RunCost(), &w0, SerialExecutor());
            std::vector<int> order(N); for (int i = 0; i < N; ++i) order[i] = i;
            for (int variant = 0; variant < 2 * N; ++variant) {
                std::rotate(order.begin(), order.begin() + 1, order.end()); if (variant == N) std::reverse(order.begin(), order.end());
                typename Opt::Workspace w; Eigen::VectorXd g; double c = opt.evaluate(x, g, TimeCost(), RunCost(), &w, OrderExec{&order});
                if (!same(c0, g0, c, g)) { ++bad; std::printf("FAILING INPUT %s N=%d segment order", name, N); for (int k : order) std::printf(" %d", k);
                    std::printf(": cost %.17g vs serial %.17g, |grad diff| %.3g\n", c, c0, (g - g0).norm()); } }
            for (int nt = 2; nt <= 3; ++nt) { typename Opt::Workspace w; Eigen::VectorXd g; double c = opt.evaluate(x, g, TimeCost(), RunCost(), &w, ThreadExec{nt});
                if (!same(c0, g0, c, g)) { ++bad; std::printf("FAILING INPUT %s N=%d %d threads: cost %.17g vs serial %.17g\n", name, N, nt, c, c0); } }
        }
        return bad;
    }
    static int race(const char *name) {
        int bad = 0;
        for (int rep = 0; rep < 20; ++rep) {
            Opt opt; configure(opt, 3);       // freshly configured: no const call has been made yet
            Opt ref; configure(ref, 3); Eigen::VectorXd x = ref.generateInitialGuess();
            typename Opt::Workspace wr; Eigen::VectorXd gr; double cr = ref.evaluate(x, gr, TimeCost(), RunCost(), &wr, SerialExecutor());
            double c[2]; Eigen::VectorXd g[2]; typename Opt::Workspace w[2];
            std::thread a([&]() { c[0] = opt.evaluate(x, g[0], TimeCost(), RunCost(), &w[0], SerialExecutor()); });
            std::thread b([&]() { c[1] = opt.evaluate(x, g[1], TimeCost(), RunCost(), &w[1], SerialExecutor()); });
            a.join(); b.join();
            for (int k = 0; k < 2; ++k) if (!same(cr, gr, c[k], g[k])) { ++bad; std::printf("FAILING INPUT %s concurrent evaluation %d differs from sequential\n", name, k); }
        }
        return bad;
    }
};
int main(int argc, char **argv) {
    std::string mode = argc > 1 ? argv[1] : "schedule";
    int bad = 0;
    if (mode == "schedule") { bad += Run<CubicSplineND<DIM>>::schedule("cubic"); bad += Run<QuinticSplineND<DIM>>::schedule("quintic"); bad += Run<SepticSplineND<DIM>>::schedule("septic"); }
    else { bad += Run<QuinticSplineND<DIM>>::race("quintic"); }
    std::printf("replay_c12 %s: %d failing inputs\n", mode.c_str(), bad);
    return bad ? 1 : 0;
}
